"""C15 — HTTP/1.1 message framing is exact, segmentation-independent and bounded (DESIGN.md §2 C15)."""
from ..cfg import search, witness_str, dominated_by_edge, elem_dominates, may_throw_elem
from ..expr import show, walk, last, field_of, strip_wrappers, strip_casts, short, const_value, is_assign, assign_parts as _ap, strip_views
from ..facts import AnalysisBroken
from ..finite import dominating_facts, flatten_fact
from ..predabs import Vocab, PredAbs, A, Not, And, Or, T, F
from ..rules import common
from ..window import lin

TITLE = "HTTP/1.1 message framing is exact, segmentation-independent and bounded"
TECHNIQUE = 'finite predicate abstraction (one within-bounds atom per peer-supplied length) over clang-14 CFGs; dominance rules for strict numeric parsing and conflict rejection; exception-escape analysis over the data-callback call graph with handler-type coverage; cycle analysis for progress (roles of positions / match results / parsed lengths found by data flow, helpers of the same class followed); resume-scan rule (back-up, or validated record boundary when the resumed position is used as a record start); sibling agreement'
HS, HC = "iora::network::HttpServer", "iora::network::HttpClient"
HSF, HCF, HMF = "iora/network/http_server.hpp", "iora/network/http_client.hpp", "iora/parsers/http_message.hpp"

EXPLANATION = (
    "Equality of what the application receives with what was encoded quantifies over all streams and segmentations; decided statically "
    "are the structural necessary conditions of the framing code in http_server.hpp / http_client.hpp. R1 every peer-supplied length "
    "(Content-Length, chunk size) is compared with a cap or with the bytes remaining (subtraction form) on every path before it enters an "
    "addition with a buffer position or is stored as the framing length (predicate abstraction: one 'within bounds' atom per length). "
    "R2 lengths are parsed strictly (all-digits test dominates std::sto*, or a full-consumption from_chars wrapper), a differing repeated "
    "Content-Length and Content-Length together with Transfer-Encoding reach a rejecting exit before any framing decision; the client is "
    "the sibling oracle. R3 the per-connection buffer grows only behind its cap test, header/body caps precede extraction; the client "
    "tests its cap after every append and before framing. R4 no exception can leave the data callback: every throwing primitive reachable "
    "from the transport callbacks up to the thread-pool hand-off lies in a try block whose handlers cover what it throws. R5 every framing "
    "loop iteration consumes input or leaves. R6 segmentation independence, structural half: the server decides on the accumulated buffer "
    "only (the arriving segment is dead after the append), consumes exactly [0, requestEnd), and every scan position kept between calls "
    "(followed from the search back through local copies, std::max/min and ?: to the field or reference it is loaded from) is written only "
    "with values that do not depend on where the previous read ended: a pure search lower bound backs up at least len(terminator)-1 bytes; "
    "a position that is also used as the start of a record (compared with the match, start of the parsed text, handed to a helper) is "
    "only ever a validated record boundary — match position + terminator length (+ verified lengths) — never the end of the data. R7 the client's framing decision follows RFC 9112 "
    "§6.3 order. R8 what framing recognises as chunked is decoded before it reaches Request::body, and the last-chunk arm consumes the "
    "trailer section through its empty line.")
FOLLOWS_HELPERS = {"C15-R4": "call-graph closure from the transport callbacks: a new helper on the I/O-thread path is part of the closure",
                   "C15-R5": "the cycle analysis is a per-function discipline (scan position moved forward / input removed on every cycle) applied to the framing functions AND to every helper of "
                             "the same class that receives the scanned buffer; a loop that hands its position or buffer by reference to a function it does not follow is refused, not reported"}
NOT_DECIDED = ["equality of delivered method/headers/body with the encoded ones for all streams", "wall-clock bounds (only structural progress)", "request-line/header grammar in http_message.hpp",
               "memory exhaustion (bad_alloc) as an exception source"]


def asg(n):
    if n.get("k") in ("bin", "opcall") and is_assign(n) and n.get("op") == "=":
        p = _ap(n)
        return p[0], p[2]
    return None


def fn(ctx, cls, name, file):
    fs = [f for f in ctx.fb().funcs(cls + "::" + name, file) if f.ok]
    if len(fs) != 1:
        raise AnalysisBroken("%s::%s: %d definitions" % (short(cls), name, len(fs)))
    return fs[0]


def key_of(n):
    n = strip_casts(n)
    if n is None:
        return None
    if n.get("k") in ("var", "member"):
        return show(n)
    return None


NUM_PARSERS = ("stoul", "stoull", "stoi", "stol", "stoll", "strtoul", "strtoull", "strtol", "atoi", "atol")


# ------------------------------------------------------------------ name-independent dataflow helpers
# The rules below identify the ROLES of locals (scan position, match result, parsed length, buffer) from how the values flow
# — "the variable a find() on the buffer starts from", "the variable std::from_chars writes through a wrapper" — never from
# what the source happens to call them; single-definition locals are looked through, and helpers of the same class that
# receive the scanned buffer are followed.

def _vid(n):
    return n.get("d") if n.get("d") is not None else n.get("n")


def _is_size_call(n):
    n = strip_casts(n)
    return n is not None and n.get("k") == "mcall" and last(n.get("callee", "")) in ("size", "length") and not [a for a in n.get("args", []) if not a.get("def")]


def numeric_out_params(fb):
    """{(qualified function name, parameter index)}: by-reference integer parameters that receive a number parsed from peer text —
    the value argument of std::from_chars, and (fixpoint) every wrapper parameter handed on to one"""
    c = fb.__dict__.get("_c15_nop")
    if c is not None:
        return c
    out = set()
    fs = [g for g in fb.functions if g.ok and g.file.endswith((HSF, HCF, HMF))]
    changed = True
    while changed:
        changed = False
        for g in fs:
            for n in g.nodes.values():
                if n.get("k") not in ("call", "mcall"):
                    continue
                cal = n.get("callee", "")
                for i, a in enumerate(n.get("args", [])):
                    a = strip_casts(a)
                    if a is None or a.get("k") != "var" or a.get("parm") is None:
                        continue
                    if ((cal == "std::from_chars" and i == 2) or (cal, i) in out) and (g.name, a["parm"]) not in out and "&" in (a.get("t") or ""):
                        out.add((g.name, a["parm"]))
                        changed = True
    fb.__dict__["_c15_nop"] = out
    return out


def numeric_returners(fb):
    """{qualified function name}: functions that hand a number parsed from peer text back as their RESULT (plain or wrapped in an optional / pair) —
    a root return mentions a local that std::from_chars (or a numeric out-parameter of a wrapper) wrote.  The sibling of numeric_out_params for the
    `std::optional<uint64_t> parse(b, e)` spelling of `bool parse(b, e, out&)`."""
    c = fb.__dict__.get("_c15_nret")
    if c is not None:
        return c
    nop = numeric_out_params(fb)
    out = set()
    for g in fb.functions:
        if not g.ok or not g.file.endswith((HSF, HCF, HMF)):
            continue
        written = set()
        for n in g.nodes.values():
            if n.get("k") in ("call", "mcall"):
                cal = n.get("callee", "")
                for i, a in enumerate(n.get("args", [])):
                    a = strip_casts(a)
                    if a is not None and a.get("k") == "var" and a.get("parm") is None and ((cal == "std::from_chars" and i == 2) or (cal, i) in nop):
                        written.add(_vid(a))
        if written and any(x.get("k") == "var" and _vid(x) in written for e in common.returns(g) if "root" in e.raw for x in walk(e.node)):
            out.add(g.name)
    fb.__dict__["_c15_nret"] = out
    return out


def _out_args(fb, n):
    """argument nodes of call n that the callee may write: by-reference non-const parameters of a callee whose definition is known,
    the value argument of std::from_chars; for an unknown non-std callee every plain variable argument (conservative)"""
    if n.get("k") not in ("call", "mcall"):
        return []
    cal = n.get("callee", "")
    args = n.get("args", [])
    if cal == "std::from_chars":
        return args[2:3]
    if cal.startswith("std::") or not cal:
        return []
    gs = [g for g in fb.by_name.get(cal, []) if len(g.params) >= len([a for a in args if not a.get("def")])]
    if not gs:
        return [a for a in args if (strip_casts(a) or {}).get("k") == "var" and not (strip_casts(a).get("t") or "").startswith("const ")]
    return [a for i, a in enumerate(args) if i < len(gs[0].params) and gs[0].params[i]["t"].rstrip().endswith("&") and not gs[0].params[i]["t"].startswith("const ")]


def var_defs(fb, f):
    """variable id -> [(Elem, value node | None)]: every definition of a local or parameter — initialiser and `=` carry the value;
    compound assignment, ++/--, and being handed to a callee's by-reference out-parameter are definitions without one"""
    c = f.__dict__.get("_c15_defs")
    if c is not None:
        return c
    out = {}
    for e in f.stmts():
        n = e.node
        k = n.get("k")
        if k == "decl":
            for v in n["vars"]:
                out.setdefault(_vid(v), []).append((e, v.get("init")))
        elif k in ("bin", "opcall") and is_assign(n):
            l, op, rr = _ap(n)
            l = strip_casts(l)
            if l is not None and l.get("k") == "var":
                out.setdefault(_vid(l), []).append((e, rr if op == "=" else None))
        elif k == "un" and ("++" in n.get("op", "") or "--" in n.get("op", "")):
            v = strip_casts(n.get("v"))
            if v is not None and v.get("k") == "var":
                out.setdefault(_vid(v), []).append((e, None))
        elif k in ("call", "mcall"):
            for a in _out_args(fb, n):
                a = strip_casts(a)
                if a is not None and a.get("k") == "var":
                    out.setdefault(_vid(a), []).append((e, None))
    f.__dict__["_c15_defs"] = out
    return out


def single_init(fb, f, v):
    """(Elem, initialiser) of a local that is defined exactly once, by its declaration (a named sub-expression); else None"""
    if v.get("k") != "var" or v.get("parm") is not None or "&" in (v.get("t") or ""):
        return None
    ds = var_defs(fb, f).get(_vid(v), [])
    if len(ds) == 1 and ds[0][1] is not None and ds[0][0].node.get("k") == "decl":
        return ds[0]
    return None


def _redefined_between(fb, f, d, use, init):
    """some variable / field the initialiser reads is written on a way from the declaration d to the use (the name then no longer stands for the expression)"""
    vids = {_vid(x) for x in walk(init) if x.get("k") == "var"}
    mems = {show(x) for x in walk(init) if x.get("k") == "member"}
    bad = []
    for vid in vids:
        bad.extend(e for (e, _) in var_defs(fb, f).get(vid, []) if e is not d)
    if mems:
        for e in f.stmts():
            a = asg(e.node)
            if a and show(strip_casts(a[0])) in mems:
                bad.append(e)
    # a write W with d -> W -> use on a path that does not run the declaration again (running it again re-evaluates the initialiser)
    for w in bad:
        if w is use:
            continue
        if search(f, d, lambda x: x is w, stop=lambda x: x is use or x is d, eh=False) is not None and search(f, w, lambda x: x is use, stop=lambda x: x is d, eh=False) is not None:
            return True
    return False


def lin_x(fb, f, n, at=None, nodes=None, depth=0):
    """window.lin with named sub-expressions looked through: a local defined once by its declaration stands for its initialiser
    (when that is itself linear and nothing it reads changes before the use `at`), so `dataEnd + 2` with
    `dataEnd = dataStart + len`, `dataStart = nl + 1` is 3 + nl + len.  nodes (optional dict) receives symbol -> node."""
    n = strip_casts(n)
    if n is None:
        return None
    cv = const_value(n)
    k = n.get("k")
    if cv is not None and k in ("int", "sizeof", "cast", "char", "enum", "bin", "un", "gvar", "member", "opcall", "cond"):
        return (int(cv), ())
    if k == "var":
        si = single_init(fb, f, n) if depth < 8 else None
        if si is not None and (at is None or not _redefined_between(fb, f, si[0], at, si[1])):
            fm = lin_x(fb, f, si[1], si[0], nodes, depth + 1)
            if fm is not None:
                return fm
        if nodes is not None:
            nodes.setdefault(n["n"], n)
        return (0, (n["n"],))
    if k == "bin" and n.get("op") == "+":
        a, b = lin_x(fb, f, n["lhs"], at, nodes, depth), lin_x(fb, f, n["rhs"], at, nodes, depth)
        if a is None or b is None:
            return None
        return (a[0] + b[0], tuple(sorted(a[1] + b[1])))
    if k == "bin" and n.get("op") == "-":
        a, b = lin_x(fb, f, n["lhs"], at, nodes, depth), lin_x(fb, f, n["rhs"], at, nodes, depth)
        if a is None or b is None or b[1]:
            return None
        return (a[0] - b[0], a[1])
    if k == "member" or (k == "mcall" and not n.get("args")):
        if nodes is not None:
            nodes.setdefault(show(n), n)
        return (0, (show(n),))
    return None


def scans(fb, f):
    """the searches of a buffer from a position: one dict per `X.find(T, S)` with an explicit start S — elem, call node, buffer key,
    start node, terminator text (None if not a literal) and its length in bytes"""
    c = f.__dict__.get("_c15_scans")
    if c is not None:
        return c
    out = []
    for e in f.stmts():
        n = e.node
        if not (n.get("k") == "mcall" and last(n.get("callee", "")) == "find" and n.get("callee", "").startswith("std::basic_string")):
            continue
        args = [a for a in n.get("args", []) if not a.get("def")]
        if len(args) < 2:
            continue
        t = strip_casts(args[0])
        lit = [x.get("v") for x in walk(t) if x.get("k") == "str"]
        term, L = None, None
        if len(lit) == 1 and lit[0] is not None:
            term, L = lit[0], len(lit[0].encode())
        elif t is not None and t.get("k") == "char" and t.get("cv") is not None:
            term, L = chr(t["cv"]), 1
        out.append({"e": e, "n": n, "buf": key_of(n.get("obj")), "start": strip_casts(args[1]), "term": term, "L": L})
    f.__dict__["_c15_scans"] = out
    return out


def match_results(fb, f):
    """variable id -> [scan] for the locals that only ever hold the result of such a search (`nl = buf.find('\\n', st.pos)`)"""
    c = f.__dict__.get("_c15_matches")
    if c is not None:
        return c
    by_node = {id(s["n"]): s for s in scans(fb, f)}
    out = {}
    for vid, ds in var_defs(fb, f).items():
        ss = [by_node.get(id(strip_casts(v))) if v is not None else None for (_, v) in ds]
        if ss and all(s is not None for s in ss):
            out[vid] = ss
    f.__dict__["_c15_matches"] = out
    return out


def _pkey(n):
    """text of a position lvalue (local, parameter or field path)"""
    n = strip_casts(n)
    return show(n) if n is not None and n.get("k") in ("var", "member") else None


def length_sources(fb, f):
    """[(Elem, variable name)]: where f obtains a number parsed from peer text — a variable handed to a numeric out-parameter
    (std::from_chars directly or through wrappers), or initialised / assigned from a std::sto* call"""
    nop = numeric_out_params(fb)
    out = []
    for e in f.stmts():
        n = e.node
        k = n.get("k")
        if k in ("call", "mcall"):
            cal = n.get("callee", "")
            for i, a in enumerate(n.get("args", [])):
                if ((cal == "std::from_chars" and i == 2) or (cal, i) in nop) and key_of(a):
                    out.append((e, key_of(a)))
        vals = [(v["n"], v.get("init")) for v in n["vars"]] if k == "decl" else ([(key_of(asg(n)[0]), asg(n)[1])] if asg(n) and key_of(asg(n)[0]) else [])
        for (nm, v) in vals:
            v = _undo_deref(strip_wrappers(v)) if v is not None else None
            if v is not None and v.get("k") == "call" and last(v.get("callee", "")) in NUM_PARSERS and (v.get("callee", "").startswith("std::") or "::" not in v.get("callee", "")):
                out.append((e, nm))
            elif v is not None and v.get("k") in ("call", "mcall") and v.get("callee") in numeric_returners(fb):
                out.append((e, nm))      # `const std::optional<uint64_t> parsed = parseFullUInt(b, e, 16)`: the optional carries the peer's number
    return out


def length_keys(fb, f):
    """names of the locals of f that hold a peer-supplied length: the sources above and (closure) every local all of whose values
    are copies of one (or constants), e.g. `contentLength = parsedLength`, `dataLen = static_cast<size_t>(chunkSize)`"""
    keys = {nm for (_, nm) in length_sources(fb, f)}
    if not keys:
        return keys
    names = {}
    for e in f.stmts():
        if e.node.get("k") == "decl":
            for v in e.node["vars"]:
                names[_vid(v)] = v["n"]
    changed = True
    while changed:
        changed = False
        for vid, ds in var_defs(fb, f).items():
            nm = names.get(vid)
            if nm is None or nm in keys:
                continue
            vals = [_undo_deref(strip_wrappers(v)) if v is not None else None for (_, v) in ds]      # `chunkSize = *parsed` is a copy like `chunkSize = parsed`
            if all(v is not None and (const_value(v) is not None or key_of(v) in keys) for v in vals) and any(key_of(v) in keys for v in vals):
                keys.add(nm)
                changed = True
    return keys


def _undo_deref(n):
    """the object behind `*opt` / `opt.value()` / `*ptr` (an optional that carries a value stands for the value)"""
    n = strip_casts(n)
    while n is not None:
        if n.get("k") == "opcall" and n.get("op") == "*" and len(n.get("args", [])) == 1:
            n = strip_casts(n["args"][0])
        elif n.get("k") == "un" and n.get("op") == "*":
            n = strip_casts(n.get("v"))
        elif n.get("k") == "mcall" and last(n.get("callee", "")) == "value" and not n.get("args"):
            n = strip_casts(n.get("obj"))
        else:
            break
    return n


def grows(n, is_target):
    """the element appends to a string that is_target(lvalue node) selects: `S += x` or S.append(..) / push_back / insert — one meaning, two spellings.
    Only the call made ON the target counts (in `S.append(a).append(b)` the outer call's receiver is the inner call, which is found itself)."""
    if n.get("k") == "opcall" and n.get("op") == "+=" and n.get("args"):
        return is_target(strip_casts(n["args"][0]))
    if n.get("k") == "mcall" and last(n.get("callee", "")) in ("append", "push_back", "insert") and n.get("obj") is not None:
        return is_target(strip_casts(n["obj"]))
    return False


def same_class_callee(fb, f, n):
    """the definition of the function a call node names, when it is a member of f's own class (a helper the code was split into)"""
    if n.get("k") not in ("call", "mcall"):
        return None
    gs = [g for g in fb.by_name.get(n.get("callee", ""), []) if g.ok and g.cls is not None and g.cls == f.cls and g.file == f.file]
    return gs[0] if len(gs) == 1 else None


def scan_helpers(fb, f, seen=None):
    """helpers of f's class (transitively) that are handed the buffer f scans: the loops moved into them are still f's loops"""
    seen = seen if seen is not None else {}
    bufs = {s["buf"] for s in scans(fb, f) if s["buf"]}
    for e in f.stmts():
        g = same_class_callee(fb, f, e.node)
        if g is None or g is f or g.name in seen:
            continue
        if any(key_of(strip_views(a)) in bufs for a in e.node.get("args", [])):
            seen[g.name] = g
            scan_helpers(fb, g, seen)
    return seen


def tainted_defs(fb, f, keys):
    """Elem -> (key, kind) for definitions of a tracked length: 'src' (fresh peer value), ('copy', other key), ('const', v)"""
    out = {}
    for e in f.stmts():
        n = e.node
        k = n.get("k")
        if k == "decl":
            for v in n["vars"]:
                if v["n"] in keys:
                    i = strip_casts(strip_wrappers(v.get("init"))) if v.get("init") is not None else None
                    out.setdefault(e, []).append((v["n"], classify_rhs(i, keys)))
        a = asg(n)
        if a and key_of(a[0]) in keys:
            out.setdefault(e, []).append((key_of(a[0]), classify_rhs(strip_casts(strip_wrappers(a[1])), keys)))
        if k in ("call", "mcall"):
            # a tracked length handed to a callee that may write it (a numeric out-parameter: std::from_chars, directly or through wrappers;
            # any by-reference parameter of a known callee) holds a fresh peer value afterwards
            for x in _out_args(fb, n):
                if key_of(x) in keys:
                    out.setdefault(e, []).append((key_of(x), "src"))
        # aggregate re-assignment: `framing = determineFraming(...)` re-defines framing.contentLength
        if a:
            base = key_of(a[0])
            for kk in keys:
                if base and kk.startswith(base + "."):
                    out.setdefault(e, []).append((kk, "src"))
    return out


def classify_rhs(i, keys):
    if i is None:
        return "src"
    cv = const_value(i)
    if cv is not None:
        return ("const", cv)
    if key_of(_undo_deref(i)) in keys:
        return ("copy", key_of(_undo_deref(i)))
    return "src"


def bound_leaf(keys):
    def leaf(n):
        cp = common.cmp_parts(n)
        if not cp:
            return None
        op, l, r = cp
        kl, kr = key_of(_undo_deref(l)), key_of(_undo_deref(r))       # `*parsed > cap` bounds the optional's value
        flip = {"<": ">", ">": "<", "<=": ">=", ">=": "<=", "==": "==", "!=": "!="}
        if kr in keys and kl not in keys:
            l, r, op, kl, kr = r, l, flip[op], kr, kl
        if kl in keys and not any(key_of(x) == kl for x in walk(r)):
            if op in (">", ">="):
                return Not(A("b:" + kl))
            if op in ("<", "<="):
                return A("b:" + kl)
        return None
    return leaf


def additive_uses(f, keys):
    """(Elem, key, what): the length is an operand of + / += with a position, or stored as a framing length"""
    out = []
    for e in f.stmts():
        n = e.node
        if n.get("k") == "bin" and n.get("op") in ("+", "+="):
            for side in ("lhs", "rhs"):
                if key_of(n[side]) in keys and not (n["op"] == "+=" and side == "lhs"):
                    # skip when this sum is itself only the operand of a larger sum (reported at the outermost)
                    par = f.nodes.get(f.parent.get(n.get("id")))
                    while par is not None and par.get("k") == "cast":
                        par = f.nodes.get(f.parent.get(par.get("id")))
                    if par is not None and par.get("k") == "bin" and par.get("op") == "+":
                        continue
                    out.append((e, key_of(n[side]), show(n)[:48]))
            # a + b + key: key deeper in the chain
            if n.get("op") == "+" and key_of(n["lhs"]) not in keys and key_of(n["rhs"]) not in keys:
                par = f.nodes.get(f.parent.get(n.get("id")))
                if not (par is not None and par.get("k") == "bin" and par.get("op") == "+"):
                    for x in walk(n):
                        if x is not n and x.get("k") == "bin" and x.get("op") == "+":
                            for side in ("lhs", "rhs"):
                                if key_of(x[side]) in keys:
                                    out.append((e, key_of(x[side]), show(n)[:48]))
        if n.get("k") == "ret" and "root" in e.raw and isinstance(n.get("v"), dict):
            for x in walk(n["v"]):
                if key_of(x) in keys and x.get("k") == "var":
                    out.append((e, key_of(x), "stored as framing length: " + show(n)[:40]))
    return out


def bounded_lengths(r, fb, f, keys, floor):
    if not keys:
        raise AnalysisBroken("%s: no peer-supplied length found (a variable written by a numeric parse)" % last(f.name))
    vocab = Vocab(["b:" + k for k in sorted(keys)])
    defs = tainted_defs(fb, f, keys)

    def effects(e):
        ops = []
        for (k, kind) in defs.get(e, []):
            a = "b:" + k
            if kind == "src":
                ops.append(("havoc", a))
            elif kind[0] == "const":
                ops.append(("set", a, True))
            elif kind[0] == "copy":
                ops.append(("assign", a, A("b:" + kind[1])))
        return ops
    pa = PredAbs(f, vocab, bound_leaf(keys), effects)
    uses = additive_uses(f, keys)
    if len(uses) < floor:
        raise AnalysisBroken("%s: only %d additive uses of %s found (floor %d)" % (last(f.name), len(uses), sorted(keys), floor))
    for (e, k, what) in uses:
        r.instance()
        r.expect(pa.entails(e, A("b:" + k)), f, e, "unbounded length in arithmetic: %s" % k,
                 "%s uses the peer-supplied length `%s` in `%s` on a path where it was not compared with a cap or with the bytes remaining: the sum can wrap around 2^64 "
                 "(a crafted size makes the position go backwards: endless loop on the I/O thread, or a frame boundary chosen by wrap-around)" % (last(f.name), k, what),
                 okdesc="%s: `%s` bounded before `%s`" % (last(f.name), k, what))


def r1(ctx, r):
    fb = ctx.fb()
    # the tracked lengths are found by dataflow (what a numeric parse writes, and its copies), not by name
    fce = fn(ctx, HS, "findChunkedRequestEnd", HSF)
    bounded_lengths(r, fb, fce, length_keys(fb, fce), 1)
    h = fn(ctx, HS, "handleIncomingData", HSF)
    bounded_lengths(r, fb, h, length_keys(fb, h), 1)
    ac = fn(ctx, HC, "advanceChunked", HCF)
    bounded_lengths(r, fb, ac, length_keys(fb, ac), 1)
    frx = fn(ctx, HC, "frameResponse", HCF)
    fpar = [p_["n"] for p_ in frx.params if "Framing &" in p_["t"] and not p_["t"].startswith("const ")]       # the framing decision handed in by reference, whatever the parameter is called
    if len(fpar) != 1:
        raise AnalysisBroken("frameResponse: Framing& parameter not found")
    bounded_lengths(r, fb, frx, {fpar[0] + ".contentLength"}, 1)
    df = fn(ctx, HC, "determineFraming", HCF)
    pcl = fn(ctx, HC, "parseContentLength", HCF)
    dkeys = {v["n"] for e in df.stmts() if e.node.get("k") == "decl" for v in e.node["vars"] if v.get("init") is not None and
             any(x.get("k") in ("call", "mcall") and x.get("callee") == pcl.name for x in walk(v["init"]))}
    bounded_lengths(r, fb, df, dkeys, 1)
    # the subtraction in the server's bound is itself safe: the value the chunk size is compared with is X.length() - P, where P is the
    # position the scan of X starts from (P <= X.length() by the loop guard)
    f = fce
    keys = length_keys(fb, f)
    starts = {(sc["buf"], _pkey(sc["start"])) for sc in scans(fb, f)}
    r.instance()
    ok = False
    for b in f.blocks.values():
        for (op, l, rr) in common.cmp_both(strip_casts(b.cond)) if b.cond is not None else []:
            if key_of(l) in keys and op in (">", ">=") and key_of(rr) not in keys:
                v = strip_casts(rr)
                si = single_init(fb, f, v) if v is not None and v.get("k") == "var" else None
                fm = strip_casts(si[1]) if si else v
                if fm is not None and fm.get("k") == "bin" and fm.get("op") == "-" and _is_size_call(fm["lhs"]) and (key_of(strip_casts(fm["lhs"]).get("obj")), _pkey(fm["rhs"])) in starts:
                    ok = True
    r.expect(ok, f, None, "remaining bytes", "findChunkedRequestEnd does not compare the chunk size with the bytes remaining, computed as <buffer>.length() - <scan position>", okdesc="chunk size compared with data.length() - pos")


DIGITS10, DIGITS16 = set("0123456789"), set("0123456789abcdefABCDEF")


def _all_of_digits(fb, f, c, strvar, want):
    """c is (a bool local that names) `std::all_of(S.begin(), S.end(), pred)` over the whole of S with a predicate that accepts only characters of
    `want`: decided by EVALUATING the predicate's return expression for every char value (finite.compile_expr), or std::isdigit / isxdigit"""
    c = strip_casts(c)
    if c is not None and c.get("k") == "var" and fb is not None:
        si = single_init(fb, f, c)
        c = strip_casts(si[1]) if si else c
    if c is None or c.get("k") != "call" or c.get("callee") != "std::all_of" or len(c.get("args", [])) != 3:
        return False
    b, e_, pr = [strip_casts(strip_wrappers(a)) for a in c["args"]]
    if not (b.get("k") == "mcall" and last(b.get("callee", "")) in ("begin", "cbegin") and key_of(b.get("obj")) == strvar and
            e_.get("k") == "mcall" and last(e_.get("callee", "")) in ("end", "cend") and key_of(e_.get("obj")) == strvar):
        return False
    lfs = [lf for (ln, lf) in f.lambdas if pr.get("k") == "lambda" and lf.name == pr.get("fn") and lf.ok]
    if len(lfs) != 1 or len(lfs[0].params) != 1:
        return False
    rets = [x for x in common.returns(lfs[0]) if "root" in x.raw]
    if len(rets) != 1 or not isinstance(rets[0].node.get("v"), dict):
        return False
    v = strip_casts(rets[0].node["v"])
    pn = lfs[0].params[0]["n"]
    if v.get("k") == "call" and last(v.get("callee", "")) in (("isdigit",) if want is DIGITS10 else ("isxdigit",)) and [x["n"] for x in walk(v) if x.get("k") == "var"] == [pn]:
        return True
    try:
        from ..finite import compile_expr
        fnc, _, _ = compile_expr(rets[0].node["v"], [pn])
        signed = "unsigned" not in lfs[0].params[0]["t"]
        accepted = {ch & 0xFF for ch in (range(-128, 128) if signed else range(256)) if fnc(ch)}
    except Exception:
        return False
    return bool(accepted) and accepted <= {ord(x) for x in want}


def digits_test_dominates(f, e, strvar, base, fb=None):
    """the call element e is dominated by the rejecting edge of `S.find_first_not_of(DIGITS) != npos`, or by the accepting edge of
    `std::all_of(S.begin(), S.end(), <only digits>)` (and S non-empty)"""
    okd, oke = False, False
    for (c, truth) in dominating_facts(f, e):
        if truth and _all_of_digits(fb, f, c, strvar, DIGITS10 if base == 10 else DIGITS16):
            okd = True
        cp = common.cmp_parts(strip_casts(c))
        if cp:
            for a, b in ((cp[1], cp[2]), (cp[2], cp[1])):
                a = strip_casts(strip_wrappers(a))
                if a.get("k") == "mcall" and last(a.get("callee", "")) == "find_first_not_of" and key_of(a.get("obj")) == strvar and "npos" in show(b):
                    lit = [x.get("v") for x in walk(a["args"][0]) if x.get("k") == "str"]
                    want = DIGITS10 if base == 10 else DIGITS16
                    if len(lit) == 1 and lit[0] and set(lit[0]) <= want and ((cp[0] == "!=" and not truth) or (cp[0] == "==" and truth)):
                        okd = True
        t = show(strip_casts(c))
        if t == strvar + ".empty()" and truth is False:
            oke = True
    return okd, oke


def r2(ctx, r):
    fb = ctx.fb()
    # every numeric parse of peer data in the HTTP framing files
    exempt = {
        ("parseUrl", "stoi"): "port of a URL supplied by the local caller (not peer data)",
        ("parse", "stoi"): "port of a URI supplied by the local caller (not peer data)",
    }
    sites = []
    for f in fb.functions:
        if not f.ok or not f.file.endswith((HSF, HCF, HMF)):
            continue
        for e in f.stmts():
            n = e.node
            if n.get("k") == "call" and last(n.get("callee", "")) in NUM_PARSERS and (n.get("callee", "").startswith("std::") or "::" not in n.get("callee", "")):
                sites.append((f, e))
    # (sites of the non-throwing std::from_chars are counted by their own clause below; together they are the numeric parse sites)
    nfc = sum(1 for f in fb.functions if f.ok and f.file.endswith((HSF, HCF, HMF)) for e in f.stmts() if e.node.get("k") == "call" and last(e.node.get("callee", "")) == "from_chars")
    if len(sites) + nfc < 5:
        raise AnalysisBroken("only %d numeric parse sites found in the HTTP files (floor 5: 3 sto*, 2 from_chars today)" % (len(sites) + nfc))
    for (f, e) in sites:
        n = e.node
        nm = last(n["callee"])
        r.instance()
        if (last(f.name), nm) in exempt:
            r.ok("%s: %s exempt — %s" % (last(f.name), nm, exempt[(last(f.name), nm)]))
            continue
        sv = key_of(strip_views(n["args"][0]))
        base = const_value(strip_casts(n["args"][2])) if len(n["args"]) > 2 else 10
        okd, oke = digits_test_dominates(f, e, sv, base or 10, fb)
        # alternative: consumed-length out-parameter compared with the size
        idx_ok = False
        if len(n["args"]) > 1 and strip_casts(n["args"][1]).get("k") == "un" and strip_casts(n["args"][1]).get("op") == "&":
            iv = key_of(strip_casts(n["args"][1])["v"])
            idx_ok = any(common.cmp_parts(b.cond) and iv in (key_of(common.cmp_parts(b.cond)[1]), key_of(common.cmp_parts(b.cond)[2])) and "size()" in show(b.cond) for b in f.blocks.values() if b.cond is not None)
        r.expect((okd and oke) or idx_ok, f, e, "lenient numeric parse: %s(%s)" % (nm, sv), "%s parses the peer-supplied length `%s` with std::%s, which skips leading white space, accepts a sign%s and stops at the first non-digit; "
                 "no all-digits test on `%s` dominates the call, so `+5`, ` 5`, `5junk`%s are framed by guesswork instead of being rejected (the sibling HttpClient::parseFullUInt requires full consumption)"
                 % (last(f.name), sv, nm, " and a 0x prefix" if base == 16 else "", sv, ", `0x5`" if base == 16 else ""), okdesc="%s: %s(%s) behind an all-digits test" % (last(f.name), nm, sv))
    # from_chars wrappers: error code and full consumption tested, empty input rejected
    fcs = []
    for f in fb.functions:
        if f.ok and f.file.endswith((HSF, HCF, HMF)):
            for e in f.stmts():
                if e.node.get("k") == "call" and last(e.node.get("callee", "")) == "from_chars":
                    fcs.append((f, e))
    if len(fcs) < 2:
        raise AnalysisBroken("only %d from_chars sites in the HTTP files (floor 2: client parseFullUInt, parseChunkSizeLine)" % len(fcs))
    for (f, e) in fcs:
        end = show(strip_casts(e.node["args"][1]))
        txt = [show(x.node) for x in f.stmts() if "root" in x.raw]
        has_ptr = any(".ptr" in t and end in t and ("==" in t or "!=" in t) for t in txt)
        has_ec = any(".ec" in t and "errc" in t for t in txt)
        nonempty = any(common.cmp_parts(b.cond) and common.cmp_parts(b.cond)[0] == "==" and (const_value(common.cmp_parts(b.cond)[2]) == 0 or {key_of(common.cmp_parts(b.cond)[1]), key_of(common.cmp_parts(b.cond)[2])} == {key_of(e.node["args"][0]), key_of(e.node["args"][1])} - {None}) for b in f.blocks.values() if b.cond is not None) or \
            any(("== 0" in t) and ("digits" in t or "size()" in t) for t in txt)
        r.instance()
        r.expect(has_ptr and has_ec and nonempty, f, e, "from_chars result not fully checked", "%s calls std::from_chars but does not test %s: a value followed by junk, an overflow or an empty field is accepted as a length"
                 % (last(f.name), ", ".join(x for x, ok in (("full consumption (ptr == end)", has_ptr), ("the error code", has_ec), ("a non-empty digit run", nonempty)) if not ok)), okdesc="%s: from_chars with ec, ptr == end and non-empty tests" % last(f.name))
    # the chunk-size helper is what both request-side chunk parsers use, and its failure is terminal
    pcs = [f for f in fb.funcs("iora::network::HttpResponse::parseChunkSizeLine") if f.ok]
    users = {"findChunkedRequestEnd": fn(ctx, HS, "findChunkedRequestEnd", HSF), "parseChunkedBody": [f for f in fb.funcs("iora::network::HttpResponse::parseChunkedBody") if f.ok][0]}
    for nm, f in users.items():
        calls = [e for e in f.stmts() if e.node.get("k") in ("call", "mcall") and last(e.node.get("callee", "")) == "parseChunkSizeLine"]
        r.instance()
        ok = len(pcs) == 1 and len(calls) == 1
        if ok:
            b = calls[0].block
            c, st, sf = common.branch(b) if b.cond is not None else (None, None, None)
            ok = c is not None and c is calls[0].node and sf is not None
            if ok:
                # on failure nothing uses the (unset) size: the arm leaves the loop / function
                els = _reach_until_ret(f, sf)
                outs = {key_of(a_) for a_ in _out_args(fb, calls[0].node)} - {None}
                ok = bool(outs) and not any(x.kind == "stmt" and any(y.get("k") == "var" and y["n"] in outs for y in walk(x.node)) for x in els[:8])
        r.expect(ok, f, calls[0] if calls else None, "chunk size parse", "%s does not parse chunk-size lines through the strict HttpResponse::parseChunkSizeLine with a terminal failure arm" % nm, okdesc="%s: strict chunk-size parse, failure is terminal" % nm)
    # the two users cut the stream into chunk-size lines differently (the framing scanner at CRLF, the decoder at LF through
    # getline): they take the same octets for the chunk data only if no accepted line holds a CR or LF — the shared strict helper
    # must refuse such a line
    def line_cut(f):
        if any(x.get("k") == "call" and last(x.get("callee", "")) == "getline" for x in f.nodes.values()):
            return "LF (getline)"
        if any(x.get("k") == "mcall" and last(x.get("callee", "")) == "find" and any(y.get("k") == "str" and y.get("v") == "\r\n" for y in walk(x)) for x in f.nodes.values()):
            return "CRLF (find)"
        return None
    cuts = {nm: line_cut(f) for nm, f in users.items()}
    r.instance()
    if None in cuts.values() or len(pcs) != 1:
        raise AnalysisBroken("how %s cut chunk-size lines was not recognised (%s)" % (" / ".join(users), cuts))
    if len(set(cuts.values())) == 1:
        r.ok("both chunk-size line users cut lines the same way (%s)" % list(cuts.values())[0])
    else:
        pc = pcs[0]
        acc = [e for e in common.returns(pc) if const_value(strip_casts(e.node.get("v") or {})) != 0]
        tests = []
        for b in pc.blocks.values():
            if b.cond is None:
                continue
            for (op, l, rr) in common.cmp_both(strip_casts(b.cond)):
                l = strip_casts(l)
                if op in ("==", "!=") and l.get("k") == "mcall" and last(l.get("callee", "")) == "find_first_of" and "npos" in show(rr):
                    lits = "".join(y.get("v") or "" for y in walk(l) if y.get("k") == "str")
                    if "\r" in lits and "\n" in lits:
                        tests.append((b, 1 if op == "!=" else 0))      # index of the `none found` edge
        okc = bool(acc) and bool(tests) and all(any(search(pc, ("entry",), lambda x, e=e: x is e, eh=False, edge_ok=lambda bb, si, b=b, nf=nf: not (bb is b and si == nf)) is None for (b, nf) in tests) for e in acc)
        r.expect(okc, pc, acc[0] if acc else None, "chunk-size line with CR/LF accepted", "parseChunkSizeLine accepts a line that holds a CR or LF behind the size (no `find_first_of(\"\\r\\n\") == npos` edge on every accepting path) while its users "
                 "cut lines differently (%s): for `5;a=\\nb\\r\\nhello…` the framing scanner takes `5;a=\\nb` as the line and the decoder `5;a=`, so the handler receives `b\\r\\nhe` as the body instead of the client a 400"
                 % ", ".join("%s: %s" % kv for kv in sorted(cuts.items())), okdesc="no accepted chunk-size line holds CR or LF (users cut at %s)" % " / ".join(sorted(set(cuts.values()))))
    h0 = fn(ctx, HS, "handleIncomingData", HSF)
    inv = [b for b in h0.blocks.values() if b.cond is not None and key_of(b.cond) == "invalidChunkSize"]
    r.instance()
    r.expect(len(inv) == 1 and any(x.kind == "stmt" and x.node.get("k") == "mcall" and last(x.node.get("callee", "")) == "sendErrorResponse" for x in _reach_until_ret(h0, inv[0].succs[0])), h0, None, "invalid chunk size unanswered",
             "an invalid chunk-size line is treated as 'need more data' (the connection hangs) instead of being answered 400", okdesc="invalid chunk size → 400, close")
    # client: strict wrapper
    pf = fn(ctx, HC, "parseFullUInt", HCF)
    fc = [e for e in pf.stmts() if e.node.get("k") == "call" and last(e.node.get("callee", "")) == "from_chars"]
    # the returns that can report success: not the constant false, not std::nullopt (the wrapper may hand the value back as bool + out-parameter or as an optional)
    rets = [e for e in common.returns(pf) if const_value(strip_casts(e.node.get("v") or {})) is None and "nullopt" not in show(e.node)]
    r.instance()
    pb, pe = (pf.params[0]["n"], pf.params[1]["n"]) if len(pf.params) >= 2 else (None, None)      # the range [begin, end) is the first two parameters, whatever they are called

    def is_ptr_end(op, l, rr):
        return op == "==" and key_of(rr) == pe and any(x.get("k") == "member" and last(x.get("n", "")) == "ptr" for x in walk(l))

    def is_no_error(op, l, rr):
        return op == "==" and any(x.get("k") == "member" and last(x.get("n", "")) == "ec" for x in walk(l)) and "errc" in show(rr)

    def holds(e, pred):
        """the test is part of the returned conjunction (`return r.ec == errc() && r.ptr == e`) or holds on every way to the return (guard clause before `return parsed`)"""
        if any(pred(*q_) for y in walk(e.node) for q_ in common.cmp_both(y)) and not any(y.get("k") == "bin" and y.get("op") == "||" for y in walk(e.node)):
            return True
        for (c, truth) in dominating_facts(pf, e):
            for (op, l, rr) in common.cmp_both(strip_casts(c)):
                if (truth and pred(op, l, rr)) or (not truth and op == "!=" and pred("==", l, rr)):
                    return True
        return False
    ok = len(fc) == 1 and len(rets) >= 1 and all(holds(e, is_ptr_end) and holds(e, is_no_error) for e in rets)
    emp = [b for b in pf.blocks.values() if b.cond is not None and any(op == "==" and key_of(l) == pb and key_of(rr) == pe for (op, l, rr) in common.cmp_both(strip_casts(b.cond)))]
    ok = ok and len(emp) == 1
    r.expect(ok, pf, None, "parseFullUInt strictness", "HttpClient::parseFullUInt no longer requires a non-empty range, errc{} and full consumption", okdesc="parseFullUInt: non-empty, no error, ptr == end")
    # server: conflicting Content-Length and CL+TE reach a rejecting exit before framing
    h = fn(ctx, HS, "handleIncomingData", HSF)
    store = [e for e in h.stmts() if asg(e.node) and key_of(asg(e.node)[0]) == "contentLength" and key_of(asg(e.node)[1]) == "parsedLength"]
    conf = [b for b in h.blocks.values() if b.cond is not None and common.cmp_parts(b.cond) and common.cmp_parts(b.cond)[0] == "!=" and {key_of(common.cmp_parts(b.cond)[1]), key_of(common.cmp_parts(b.cond)[2])} == {"parsedLength", "contentLength"}]
    has = [b for b in h.blocks.values() if b.cond is not None and key_of(b.cond) == "hasContentLength" and b.term.get("k") == "BinaryOperator"]
    r.instance()
    ok = len(store) == 1 and len(conf) == 1 and dominated_by_not_both(h, store[0], has, conf[0])
    tb = h.blocks[conf[0].succs[0]] if conf else None
    ok = ok and tb is not None and any(e.kind == "stmt" and e.node.get("k") == "throw" for e in tb.elems)
    r.expect(ok, h, store[0] if store else None, "conflicting Content-Length", "a repeated Content-Length with a different value is not rejected before it replaces the first (the last one wins: request smuggling between two parsers)",
             okdesc="differing repeated Content-Length → throw → 400")
    hset = [e for e in h.stmts() if asg(e.node) and key_of(asg(e.node)[0]) == "hasContentLength" and const_value(strip_casts(asg(e.node)[1])) == 1]
    r.instance()
    r.expect(len(hset) == 1 and store and hset[0].block is store[0].block, h, None, "hasContentLength", "hasContentLength is not set together with contentLength", okdesc="hasContentLength set with the value")
    dec = [e for e in h.stmts() if (e.node.get("k") == "mcall" and last(e.node.get("callee", "")) == "findChunkedRequestEnd") or
           (e.node.get("k") == "decl" and any(v["n"] == "totalExpectedLength" for v in e.node["vars"]))]
    pa = flag_abs(h, {"isChunked": "ch", "hasContentLength": "cl"})
    r.instance()
    ok = len(dec) == 2 and all(pa.entails(e, Not(And(A("ch"), A("cl")))) for e in dec)
    rej = [e for e in h.stmts() if e.node.get("k") == "mcall" and last(e.node.get("callee", "")) == "sendErrorResponse" and pa.reachable(e) and pa.entails(e, And(A("ch"), A("cl")))]
    ok = ok and len(rej) >= 1 and all(any(x.kind == "stmt" and x.node.get("k") == "ret" for x in e.block.elems[e.idx:]) for e in rej)
    r.expect(ok, h, None, "Content-Length with Transfer-Encoding", "a request carrying both Content-Length and Transfer-Encoding reaches a framing decision instead of the 400 exit (RFC 9112 §6.3: smuggling vector)",
             okdesc="CL+TE → 400 before any framing decision")
    # the catch-all of the numeric parse answers 400 and leaves
    st = [e for (f, e) in sites if f is h]
    r.instance()
    ok = False
    if st and st[0].try_id:
        hb = [b for b in h.blocks.values() if b.label and b.label.get("k") == "catch" and b.label.get("try") == st[0].try_id]
        ok = bool(hb) and all(any(e.kind == "stmt" and e.node.get("k") == "mcall" and last(e.node.get("callee", "")) in ("sendErrorResponse", "closeSession") for e in _reach_until_ret(h, b.id)) and
                              search(h, ("block", b.id), lambda x: x in dec, eh=False) is None for b in hb)
    r.expect(ok, h, st[0] if st else None, "invalid length handler", "an invalid Content-Length does not end in an error response / close before framing", okdesc="invalid Content-Length → 400, return")
    # client siblings
    pcl = fn(ctx, HC, "parseContentLength", HCF)
    thr = [e for e in pcl.stmts() if e.node.get("k") == "throw" and "root" in e.raw]
    cb = [b for b in pcl.blocks.values() if b.cond is not None and common.cmp_parts(b.cond) and common.cmp_parts(b.cond)[0] == "!=" and {key_of(_undo_deref(common.cmp_parts(b.cond)[1])), key_of(_undo_deref(common.cmp_parts(b.cond)[2]))} == {"val", "result"}]
    if len(cb) != 1 and any(common.cmp_parts(x) and common.cmp_parts(x)[0] == "!=" and {key_of(_undo_deref(common.cmp_parts(x)[1])), key_of(_undo_deref(common.cmp_parts(x)[2]))} == {"val", "result"}
                            for e in pcl.stmts() for x in walk(e.node) if isinstance(x, dict)):
        raise AnalysisBroken("parseContentLength: the differing-member test `val != result` is computed as a value (a named condition), not branched on directly — a shape this clause does not follow")
    r.instance()
    r.expect(len(thr) >= 3 and len(cb) == 1 and any(e.kind == "stmt" and e.node.get("k") == "throw" for e in _reach_until_ret(pcl, cb[0].succs[0])[:6]), pcl, None, "client Content-Length list",
             "HttpClient::parseContentLength no longer rejects differing list members", okdesc="client: differing Content-Length list members → HttpFramingError")
    phb = fn(ctx, HC, "parseHeaderBlock", HCF)
    dup = [b for b in phb.blocks.values() if b.cond is not None and common.cmp_parts(b.cond) and common.cmp_parts(b.cond)[0] == "!=" and {key_of(strip_views(_undo_deref(common.cmp_parts(b.cond)[1]))), key_of(strip_views(_undo_deref(common.cmp_parts(b.cond)[2])))} == {"value", "clValue"}]
    r.instance()
    r.expect(len(dup) == 1 and any(e.kind == "stmt" and e.node.get("k") == "throw" for e in _reach_until_ret(phb, dup[0].succs[0])[:8]), phb, None, "client duplicate Content-Length",
             "HttpClient::parseHeaderBlock no longer rejects a differing duplicate Content-Length", okdesc="client: differing duplicate Content-Length → HttpFramingError")


def flag_abs(f, flags, ghosts=None):
    """predicate abstraction over local bool flags (name -> atom) and ghost atoms set by elements (ghosts: Elem -> atom)"""
    ghosts = ghosts or {}
    vocab = Vocab(sorted(set(flags.values()) | set(ghosts.values())))

    def leaf(n):
        if n.get("k") == "var" and n["n"] in flags:
            return A(flags[n["n"]])
        return None

    def effects(e):
        ops = []
        if e in ghosts:
            ops.append(("set", ghosts[e], True))
        if e.kind != "stmt":
            return ops
        n = e.node
        if n.get("k") == "decl":
            for v in n["vars"]:
                if v["n"] in flags:
                    cv = const_value(strip_casts(v.get("init") or {}))
                    ops.append(("set", flags[v["n"]], bool(cv)) if cv is not None else ("havoc", flags[v["n"]]))
        a = asg(n)
        if a and key_of(a[0]) in flags:
            cv = const_value(strip_casts(a[1]))
            ops.append(("set", flags[key_of(a[0])], bool(cv)) if cv is not None else ("havoc", flags[key_of(a[0])]))
        return ops
    init = And(*[Not(A(g)) for g in set(ghosts.values())]) if ghosts else T
    return PredAbs(f, vocab, leaf, effects, init=init)


def dominated_by_not_both(f, e, has_blocks, conf_block):
    """e is reachable only via `!(hasContentLength && parsed != content)`: i.e. not via the true edge of the comparison"""
    return search(f, ("block", conf_block.succs[0]), lambda x: x is e, eh=False, stop=lambda x: x.kind == "stmt" and x.node.get("k") == "throw") is None and \
        search(f, ("entry",), lambda x: x is e, eh=False, edge_ok=lambda b, si: not (b is conf_block and si == 1) and not (b in has_blocks and si == 1)) is None


def _reach_until_ret(f, bid):
    out, seen, work = [], set(), [bid]
    while work:
        b = work.pop()
        if b is None or b in seen:
            continue
        seen.add(b)
        els = f.blocks[b].elems
        out.extend(els)
        if any(e.kind == "stmt" and e.node.get("k") in ("ret", "throw") and "root" in e.raw for e in els):
            continue
        work.extend(f.blocks[b].succs)
    return out


def r3(ctx, r):
    fb = ctx.fb()
    h = fn(ctx, HS, "handleIncomingData", HSF)
    # appends to the session buffer
    is_sbuf = lambda x: x is not None and show(x).endswith(".buffer")
    apps = [e for e in h.stmts() if grows(e.node, is_sbuf)]
    # the test of the ACCUMULATED size against the buffer limit (other tests may mention the constant too, e.g. the 413 decision)
    capb = [b for b in h.blocks.values() if b.cond is not None and (lambda co: co is not None and "buffer.size()" in show(co[1]))(common.cmp_oriented(b.cond, lambda x: "MAX_BUFFER_SIZE" in show(x)))]
    r.instance()
    ok = len(apps) == 1 and len(capb) == 1
    if ok:
        op, l, rr = common.cmp_oriented(capb[0].cond, lambda x: "MAX_BUFFER_SIZE" in show(x))
        fm = show(l)
        ok = op in (">", ">=") and "buffer.size()" in fm and "dataStr.size()" in fm and dominated_by_edge(h, apps[0], capb[0], 1, eh=False)
    r.expect(ok, h, apps[0] if apps else None, "buffer append uncapped", "the per-connection buffer is appended to on a path that did not pass `buffer.size() + incoming > MAX_BUFFER_SIZE` (a peer that never completes a request grows it without bound)",
             okdesc="session buffer grows only behind MAX_BUFFER_SIZE")
    others = []
    for f in fb.in_file(HSF):
        if not f.ok:
            continue
        for e in f.stmts():
            n = e.node
            if (n.get("k") == "opcall" and n.get("op") == "+=" or n.get("k") == "mcall" and last(n.get("callee", "")) in ("append", "push_back", "insert")) and \
                    show(strip_casts((n.get("args") or [n.get("obj")])[0] if n.get("k") == "opcall" else n.get("obj"))).endswith(".buffer") and e not in apps:
                others.append((f, e))
    r.instance()
    r.expect(not others, others[0][0] if others else h, others[0][1] if others else None, "second buffer append", "SessionInfo::buffer is appended to outside the capped site", okdesc="one append site")
    hdrb = [b for b in h.blocks.values() if b.cond is not None and (common.cmp_oriented(b.cond, lambda x: "MAX_HEADER_SIZE" in show(x)) or (None, None))[1] is not None
            and key_of(common.cmp_oriented(b.cond, lambda x: "MAX_HEADER_SIZE" in show(x))[1]) == "headerEnd"]
    hs = [e for e in h.stmts() if "root" in e.raw and "headerSection" in show(e.node) and "headerEnd" in show(e.node)]
    r.instance()
    r.expect(len(hdrb) == 1 and len(hs) == 1 and dominated_by_edge(h, hs[0], hdrb[0], 1, eh=False), h, None, "header cap", "the header block is parsed without the MAX_HEADER_SIZE test", okdesc="MAX_HEADER_SIZE before header parsing")
    # body cap: part of R1's bound; here: the rejecting edge leaves
    bodb = [b for b in h.blocks.values() if b.cond is not None and common.cmp_parts(b.cond) and "MAX_BODY_SIZE" in show(b.cond)]
    r.instance()
    r.expect(len(bodb) == 1 and any(e.kind == "stmt" and e.node.get("k") == "ret" for e in _reach_until_ret(h, bodb[0].succs[0])) and
             any(e.kind == "stmt" and e.node.get("k") == "mcall" and last(e.node.get("callee", "")) in ("closeSession", "sendErrorResponse") for e in _reach_until_ret(h, bodb[0].succs[0])), h, None, "body cap",
             "an over-long Content-Length does not close the connection", okdesc="Content-Length > MAX_BODY_SIZE → close")
    # client
    ex = fn(ctx, HC, "executeRequest", HCF)
    app = [e for e in ex.stmts() if e.node.get("k") == "mcall" and last(e.node.get("callee", "")) == "append" and key_of(e.node.get("obj")) == "responseData"]
    def cap_test(b):
        co = common.cmp_oriented(b.cond, lambda x: key_of(x) == "effectiveCap") if b.cond is not None else None
        return co if co and "responseData.size()" in show(co[1]) else None
    capb = [b for b in ex.blocks.values() if cap_test(b)]
    fr = [e for e in ex.stmts() if e.node.get("k") == "mcall" and last(e.node.get("callee", "")) == "frameResponse"]
    r.instance()
    ok = len(app) == 1 and len(capb) == 1 and len(fr) == 1
    if ok:
        ok = cap_test(capb[0])[0] in (">", ">=") and dominated_by_edge(ex, fr[0], capb[0], 1, eh=False) and search(ex, app[0], lambda x: x is app[0], stop=lambda x: x.block is capb[0], eh=False) is None \
            and any(e.kind == "stmt" and e.node.get("k") == "throw" for e in _reach_until_ret(ex, capb[0].succs[0]))
    r.expect(ok, ex, app[0] if app else None, "client response cap", "the client appends received bytes and frames / receives again without testing the accumulated size against effectiveCap", okdesc="client: cap tested after every append, before framing")
    # that one test bounds everything only because the raw buffer keeps every byte of the message: the decoded chunked body
    # (ChunkState::decoded) grows without a test of its own and is at most as long as the raw bytes it was decoded from.  So the
    # raw buffer is never shrunk while a message is being framed — except when a whole interim (1xx) response is discarded.
    frx = fn(ctx, HC, "frameResponse", HCF)
    raw = next((p_["n"] for p_ in frx.params if p_["t"].startswith("std::basic_string<char> &")), None)
    nsh = 0
    for g in (frx, fn(ctx, HC, "advanceChunked", HCF), ex):
        names = ({raw, "responseData"} | {p_["n"] for p_ in g.params if p_["t"].startswith(("std::basic_string<char> &", "const std::basic_string<char> &"))}) if g is not ex else {"responseData"}
        for e in g.stmts():
            n = e.node
            if n.get("k") == "mcall" and last(n.get("callee", "")) in ("erase", "clear", "resize", "assign", "swap", "pop_back", "shrink_to_fit") and key_of(n.get("obj")) in names:
                nsh += 1
                r.instance()
                interim = any(t and any(const_value(q[2]) in (100, 200) and "statusCode" in show(q[1]) for q in common.cmp_both(c)) for (c, t) in dominating_facts(g, e))
                r.expect(interim, g, e, "raw response buffer shrunk during framing", "%s removes bytes from the raw receive buffer (`%s`) while a message is being framed: the only size test on receipt is on that buffer, so "
                         "after this the decoded chunked body (ChunkState::decoded) grows without bound — a chunked response far beyond the configured cap is buffered and returned" % (last(g.name), show(n)[:50]),
                         okdesc="%s: raw buffer shrunk only to discard an interim response" % last(g.name))
    grow = [e for e in fn(ctx, HC, "advanceChunked", HCF).stmts() if e.node.get("k") == "mcall" and last(e.node.get("callee", "")) == "append" and "decoded" in show(e.node.get("obj") or {})]
    if nsh < 1 or not grow:
        raise AnalysisBroken("client framing: raw-buffer shrink sites (%d) / decoded-body growth (%d) not found" % (nsh, len(grow)))
    others = [e for e in ex.stmts() if e not in app and ((e.node.get("k") == "mcall" and last(e.node.get("callee", "")) in ("append", "push_back", "insert") and key_of(e.node.get("obj")) == "responseData") or
                                                       (e.node.get("k") == "opcall" and e.node.get("op") == "+=" and key_of(e.node["args"][0]) == "responseData"))]
    r.instance()
    r.expect(not others, ex, others[0] if others else None, "second response append", "responseData grows at a second, uncapped site", okdesc="one append site (client)")
    # the receive size is the local buffer's size
    rc = [e for e in ex.stmts() if e.node.get("k") == "mcall" and last(e.node.get("callee", "")) == "receiveSync"]
    ln = [v for e in ex.stmts() if e.node.get("k") == "decl" for v in e.node["vars"] if v["n"] == "len"]
    r.instance()
    r.expect(len(rc) == 1 and ln and strip_casts(ln[0].get("init") or {}).get("k") == "sizeof", ex, rc[0] if rc else None, "receive length", "receiveSync is not given sizeof(buffer) as capacity", okdesc="receive capacity = sizeof(buffer)")


# what each throwing primitive can throw (std hierarchy: invalid_argument, out_of_range < logic_error < exception)
THROWS = {
    "stoul": {"std::invalid_argument", "std::out_of_range"}, "stoull": {"std::invalid_argument", "std::out_of_range"},
    "stoi": {"std::invalid_argument", "std::out_of_range"}, "stol": {"std::invalid_argument", "std::out_of_range"}, "stoll": {"std::invalid_argument", "std::out_of_range"},
    "stod": {"std::invalid_argument", "std::out_of_range"}, "at": {"std::out_of_range"},
}
BASES = {"std::invalid_argument": {"std::invalid_argument", "std::logic_error", "std::exception"}, "std::out_of_range": {"std::out_of_range", "std::logic_error", "std::exception"},
         "std::runtime_error": {"std::runtime_error", "std::exception"}}


def handler_covers(handlers, exc):
    for h in handlers:
        t = h.replace("const ", "").replace(" &", "").replace("&", "").strip()
        if t == "..." or t in BASES.get(exc, {exc, "std::exception"}):
            return True
    return False


def covering_try(f, e, exc):
    """some enclosing try of element e has a handler for exc"""
    tid = e.try_id
    seen = 0
    while tid and seen < 16:
        t = f.trys.get(tid)
        if t is None:
            break
        if handler_covers(t.get("handlers", []), exc):
            return True
        tid = t.get("parent", 0)
        seen += 1
    return False


def r4(ctx, r):
    fb, cg = ctx.fb(), ctx.cg()
    start = fn(ctx, HS, "start", HSF) if [f for f in fb.funcs(HS + "::start", HSF)] else None
    # roots: lambdas handed to Transport::onData / onAccept / onClose inside HttpServer
    roots = []
    for f in fb.in_file(HSF):
        if not f.ok:
            continue
        for (ln, lf) in f.lambdas:
            role = cg.lambda_role.get(lf.name) if hasattr(cg, "lambda_role") else None
            par = f.nodes.get(f.parent.get(ln.get("id")))
            hops = 0
            while par is not None and par.get("k") not in ("mcall", "call") and hops < 6:
                par = f.nodes.get(f.parent.get(par.get("id")))
                hops += 1
            if par is not None and par.get("k") == "mcall" and last(par.get("callee", "")) in ("onData", "onAccept", "onClose", "onConnect", "onError") and "Transport" in par.get("callee", ""):
                roots.append((last(par["callee"]), lf))
    if len(roots) < 3:
        raise AnalysisBroken("only %d transport callbacks registered by HttpServer found (floor 3)" % len(roots))
    # reachable functions in the server file up to the thread-pool hand-off (lambdas passed to tryEnqueue are not followed)
    seen, work = {}, [(lf, what) for (what, lf) in roots]
    while work:
        f, what = work.pop()
        if f.name in seen and seen[f.name][0] is f:
            continue
        seen[f.name + "#" + str(f.line)] = (f, what)
        seen[f.name] = (f, what)
        for e in f.stmts():
            n = e.node
            if n.get("k") in ("mcall", "call"):
                for g in fb.funcs(n.get("callee", ""), HSF) if n.get("callee", "").startswith(HS) else []:
                    if g.ok and g.name not in seen:
                        work.append((g, what))
        # a lambda kept in a local of a reached function and invoked there (`while (dispatchNext()) {}`), or invoked on the spot, runs on
        # the same thread as that function; lambdas handed to other calls (the thread-pool hand-off) are not followed
        for (ln, lf) in f.lambdas:
            role = (cg.lambda_role.get(lf.name) or {}).get("role") if hasattr(cg, "lambda_role") else None
            if lf.ok and role in ("local", "immediate") and lf.name not in seen:
                work.append((lf, what))
    funcs = {id(v[0]): v for v in seen.values()}
    if not any(last(v[0].name) == "handleIncomingData" for v in funcs.values()) or not any(last(v[0].name) == "findChunkedRequestEnd" for v in funcs.values()):
        raise AnalysisBroken("handleIncomingData / findChunkedRequestEnd not reachable from the transport data callback")
    n_sites = 0
    for (f, what) in funcs.values():
        for e in f.stmts():
            n = e.node
            nm = last(n.get("callee", "")) if n.get("k") in ("call", "mcall") else None
            excs = None
            if n.get("k") == "call" and nm in THROWS and n.get("callee", "").startswith("std::"):
                excs = THROWS[nm]
            elif n.get("k") == "mcall" and nm == "at" and n.get("callee", "").startswith("std::"):
                excs = THROWS["at"]
            elif n.get("k") == "throw" and "root" in e.raw:
                t = (strip_casts(n.get("v") or {}).get("cls") or strip_casts(n.get("v") or {}).get("t") or "std::exception")
                excs = {t if t.startswith("std::") else "std::exception"}
                if n.get("v") is None:
                    excs = None      # rethrow inside a handler: covered by the outer analysis of the original site
            if not excs:
                continue
            n_sites += 1
            for exc in sorted(excs):
                r.instance()
                r.expect(covering_try(f, e, exc), f, e, "uncaught %s from %s" % (last(exc), nm or "throw"),
                         "%s runs on the transport's I/O thread (reached from the %s callback) and %s can throw %s, which no enclosing try block catches: a peer-chosen input ends the I/O thread for every connection"
                         % (short(f.name), what, ("std::" + nm) if nm else "the throw expression", exc), okdesc="%s: %s → %s caught" % (last(f.name), nm or "throw", last(exc)))
    if n_sites < 2:
        raise AnalysisBroken("only %d throwing primitives found on the I/O-thread path (floor 2)" % n_sites)
    r.note("I/O-thread functions analysed: " + ", ".join(sorted({last(v[0].name) for v in funcs.values()})))


def _flag_exits(fb, f):
    """CFG edges that cannot lie on a cycle because of a loop flag: `while (more) { …; if (more) { pos = comma + 1; } }` — the `more == false` edge of the
    inner test leads, with no write to `more` on the way, back to the loop condition `more`, which then ends the loop.  {(block id, successor id)}.
    Only for a plain bool local tested as the whole condition of a while/for, and only when the stretch from the edge to the loop condition is loop-free."""
    out = set()
    loops = {}
    for b in f.blocks.values():
        if b.term and b.term.get("k") in ("WhileStmt", "ForStmt") and b.cond is not None and len(b.succs) == 2:
            c, st, sf = common.branch(b)
            if c is not None and c.get("k") == "var" and "bool" in (c.get("t") or "") and st == b.succs[0]:
                loops.setdefault(_vid(c), []).append(b)
    if not loops:
        return out
    for b in f.blocks.values():
        if b.cond is None or len(b.succs) != 2 or (b.term or {}).get("k") in ("WhileStmt", "ForStmt"):
            continue
        c, st, sf = common.branch(b)
        if c is None or c.get("k") != "var" or _vid(c) not in loops or sf is None:
            continue
        defs = {id(e) for (e, _) in var_defs(fb, f).get(_vid(c), [])}
        for L in loops[_vid(c)]:
            # from the false edge: no write to the flag before the loop condition, and no loop of its own in between
            seen, work, ok = set(), [sf], True
            while work and ok:
                x = work.pop()
                if x == L.id or x in seen:
                    continue
                seen.add(x)
                if any(id(e) in defs for e in f.blocks[x].elems):
                    ok = False
                work.extend(y for y in f.blocks[x].succs if y is not None)
            if ok and L.id not in seen and not any(y in seen for x in seen for y in f.blocks[x].succs if y is not None and y != L.id and _reaches(f, y, x, seen)):
                if not any(id(e) in defs for e in L.elems):
                    out.add((b.id, sf))
    return out


def _reaches(f, a, b, within):
    seen, work = set(), [a]
    while work:
        x = work.pop()
        if x == b:
            return True
        if x in seen or x not in within:
            continue
        seen.add(x)
        work.extend(y for y in f.blocks[x].succs if y is not None)
    return False


def _cycles(f, avoid, drop=()):
    """back edges of the CFG with the blocks in `avoid` (and the edges in `drop`) removed: [(from block, to block)]"""
    import sys
    sys.setrecursionlimit(max(sys.getrecursionlimit(), 10000))
    color, cyc = {}, []

    def dfs(b):
        color[b] = 1
        for s_ in f.blocks[b].succs:
            if s_ is None or s_ in avoid or (b, s_) in drop:
                continue
            if color.get(s_) == 1:
                cyc.append((b, s_))
            elif s_ not in color:
                dfs(s_)
        color[b] = 2
    for b in f.blocks:
        if b not in color and b not in avoid:
            dfs(b)
    return cyc


def _on_cycle(f, bid):
    seen, work = set(), [x for x in f.blocks[bid].succs if x is not None]
    while work:
        b = work.pop()
        if b == bid:
            return True
        if b in seen:
            continue
        seen.add(b)
        work.extend(x for x in f.blocks[b].succs if x is not None)
    return False


BIG = 10 ** 6


def _nonneg(n):
    """an expression over unsigned variables / fields and non-negative constants with + and * only (wrap-around is C15-R1's subject)"""
    for x in walk(n):
        k = x.get("k")
        if k in ("var", "member"):
            if "unsigned" not in (x.get("t") or ""):
                return False
        elif k == "bin":
            if x.get("op") not in ("+", "*"):
                return False
        elif k == "cast":
            pass
        elif const_value(x) is not None and const_value(x) >= 0:
            pass
        else:
            return False
    return True


def _ahead(fb, f, n, P, at, depth=0):
    """least k for which `n >= (old value of the scan position P) + k` is evident, None if it is not: P itself (0); the result of a
    search that started at P (>= P); a named sub-expression (its initialiser); both arms of a conditional; sums with constants /
    unsigned values; the end of the scanned buffer when the loop runs `while (P < X.size())` (then the loop is left: BIG)"""
    n = strip_casts(n)
    if n is None or depth > 8:
        return None
    if _pkey(n) == P:
        return 0
    k = n.get("k")
    if k == "var":
        ss = match_results(fb, f).get(_vid(n))
        if ss:
            return 0 if all(_pkey(sc["start"]) == P for sc in ss) else None
        si = single_init(fb, f, n)
        if si is not None and not _redefined_between(fb, f, si[0], at, si[1]):
            return _ahead(fb, f, si[1], P, si[0], depth + 1)
        return None
    if k == "cond":
        a, b = _ahead(fb, f, n.get("t"), P, at, depth + 1), _ahead(fb, f, n.get("f"), P, at, depth + 1)
        return None if a is None or b is None else min(a, b)
    if _is_size_call(n):
        X = key_of(n.get("obj"))
        if X and any(sc["buf"] == X and _pkey(sc["start"]) == P for sc in scans(fb, f)) and \
                any(op == "<" and _pkey(l) == P and _is_size_call(rr) and key_of(strip_casts(rr).get("obj")) == X for b in f.blocks.values() if b.cond is not None for (op, l, rr) in common.cmp_both(strip_casts(b.cond))):
            return BIG
        return None
    if k == "bin" and n.get("op") == "+":
        for x, y in ((n["lhs"], n["rhs"]), (n["rhs"], n["lhs"])):
            a = _ahead(fb, f, x, P, at, depth + 1)
            if a is not None:
                fm = lin_x(fb, f, y, at)        # named constants (`constexpr size_t CRLF = 2`) and named sub-expressions count with their value
                if fm is not None and not fm[1]:
                    return a + fm[0] if fm[0] >= 0 else None
                if fm is not None and fm[0] >= 0 and _nonneg(y):
                    return a + fm[0]
                return a if _nonneg(y) else None
        return None
    if k == "bin" and n.get("op") == "-":
        a, cv = _ahead(fb, f, n["lhs"], P, at, depth + 1), const_value(strip_casts(n["rhs"]))
        return a - cv if a is not None and cv is not None and cv >= 0 else None
    return None


def is_progress(fb, f, e):
    """the element consumes input: it moves a scan position strictly forward (P = <something >= P> + k, k >= 1; P += k + …; ++i on a
    counter a loop condition bounds), removes a non-empty prefix (X.erase(0, k + …), X = X.substr(n)) or reads a line from a stream.
    Decided from the data flow between the search and the assignment; no variable is known by name.
    Returns (what is moved / shortened, description) or None."""
    n = e.node
    k = n.get("k")
    a = asg(n)
    if a:
        P = _pkey(a[0])
        if P:
            d = _ahead(fb, f, a[1], P, e)
            if d is not None and d >= 1:
                return P, "%s = <at least %s + %s>" % (P, P, "end of buffer" if d >= BIG else d)
            v = strip_views(a[1])
            if v is not None and v.get("k") == "mcall" and last(v.get("callee", "")) == "substr" and key_of(v.get("obj")) == P and len([x for x in v.get("args", []) if not x.get("def")]) == 1:
                return P, "%s = %s.substr(n)" % (P, P)
    if k == "bin" and n.get("op") == "+=" and _pkey(n["lhs"]):
        fm = lin_x(fb, f, n["rhs"], e)
        if fm is not None and fm[0] >= 1:
            return _pkey(n["lhs"]), "%s += <at least %d>" % (_pkey(n["lhs"]), fm[0])
    if k == "un" and "++" in n.get("op", "") and key_of(n.get("v")):
        v = key_of(n["v"])
        if any(op in ("<", "<=", ">", ">=", "!=") and v in (key_of(l), key_of(rr)) for b in f.blocks.values() if b.cond is not None for x in walk(b.cond) for (op, l, rr) in common.cmp_both(x)[:1]):
            return v, "++%s" % v
    if k == "mcall" and last(n.get("callee", "")) == "erase" and n.get("callee", "").startswith("std::basic_string"):
        args = [x for x in n.get("args", []) if not x.get("def")]
        if len(args) == 2 and const_value(strip_casts(args[0])) == 0:
            fm = lin_x(fb, f, args[1], e)
            if fm is not None and fm[0] >= 1:
                return key_of(n.get("obj")), "%s.erase(0, <at least %d>)" % (key_of(n.get("obj")), fm[0])
    if k == "call" and last(n.get("callee", "")) == "getline":
        return None, "getline"
    return None


def r5(ctx, r):
    fb = ctx.fb()
    # progress statements per loop (a cycle that avoids all of them does not consume input).  The framing functions, and every helper
    # of the same class they hand the scanned buffer to (a loop moved into a helper is still checked)
    roots = [fn(ctx, HS, "findChunkedRequestEnd", HSF), fn(ctx, HC, "advanceChunked", HCF), fn(ctx, HC, "frameResponse", HCF), fn(ctx, HS, "handleIncomingData", HSF),
             fn(ctx, HC, "parseContentLength", HCF), fn(ctx, HC, "parseHeaderBlock", HCF)]
    todo, names = [], set()
    for f in roots:
        for g in [f] + list(scan_helpers(fb, f).values()):
            if g.name not in names:
                names.add(g.name)
                todo.append((g, g in roots))
    for (f, is_root) in todo:
        descs, moved = {}, set()
        for e in f.stmts():
            d = is_progress(fb, f, e)
            if d:
                descs.setdefault(e.block.id, d[1])
                moved.add(d[0])
        prog = set(descs)
        desc = " | ".join(sorted(set(descs.values()))[:4])
        has_cycle = _cycles(f, set())
        if not prog:
            # a loop that searches the buffer from a position and contains nothing that moves a position forward searches the same bytes
            # again: that is the defect itself, not an unknown shape
            spin = [sc for sc in scans(fb, f) if _on_cycle(f, sc["e"].block.id)] if has_cycle else []
            if spin:
                r.instance()
                r.fail(f, spin[0]["e"], "loop without progress", "%s searches `%s` from `%s` in a loop (line %d) in which no statement moves a scan position forward or removes input: the same bytes are examined again forever"
                       % (last(f.name), spin[0]["buf"], show(spin[0]["start"]), spin[0]["e"].line))
                continue
            if is_root or has_cycle:
                raise AnalysisBroken("%s: no statement that consumes input recognised%s" % (last(f.name), " although it loops" if has_cycle else ""))
            continue
        cyc = _cycles(f, prog, _flag_exits(fb, f))
        r.instance()
        if cyc:
            # a call on the cycle that is handed a scan position / scanned buffer / consumed variable by non-const reference (and is not one
            # of the helpers followed above) may be where the input is consumed: that shape is refused, not reported
            tracked = {_pkey(sc["start"]) for sc in scans(fb, f)} | {sc["buf"] for sc in scans(fb, f)} | (moved - {None})
            maybe = {e.block.id: e for e in f.stmts() if e.node.get("k") in ("call", "mcall") and e.node.get("callee", "") not in names and
                     any(_pkey(a_) in tracked for a_ in _out_args(fb, e.node))}
            if maybe and not _cycles(f, prog | set(maybe), _flag_exits(fb, f)):
                e_ = list(maybe.values())[0]
                raise AnalysisBroken("%s: the loop hands `%s` by reference to %s, which this rule does not follow — it cannot see whether that call consumes input" % (last(f.name), ", ".join(sorted(_pkey(a_) for a_ in _out_args(fb, e_.node) if _pkey(a_) in tracked)), last(e_.node.get("callee", ""))))
            b = f.blocks[cyc[0][1]]
            ln = next((e.line for e in b.elems if e.line), f.line)
            r.fail(f, ln, "loop without progress", "%s has a loop iteration (through B%d, line %d) that neither leaves nor consumes input (none of: %s): the same bytes are examined again forever" % (last(f.name), b.id, ln, desc))
        else:
            r.ok("%s: every cycle passes one of `%s`" % (last(f.name), desc))
    # requestEndPos >= 1: both definitions are a position past the header terminator
    h = fn(ctx, HS, "handleIncomingData", HSF)
    tot = [v for e in h.stmts() if e.node.get("k") == "decl" for v in e.node["vars"] if v["n"] == "totalExpectedLength"]
    r.instance()
    fm = lin(tot[0]["init"]) if tot and tot[0].get("init") is not None else None
    if tot and fm is None and any(x.get("k") in ("call", "mcall") and (x.get("callee") or "").startswith("iora::") for x in walk(tot[0].get("init") or {})):
        raise AnalysisBroken("handleIncomingData: the consumed length is computed by a helper this clause does not follow (`%s`)" % show(tot[0]["init"])[:60])
    r.expect(fm is not None and fm[0] >= 1 and "headerEnd" in fm[1], h, None, "request end position", "the consumed length is not headerEnd + k + contentLength with k >= 1", okdesc="consumed length >= headerEnd + 4")


def r6(ctx, r):
    fb = ctx.fb()
    h = fn(ctx, HS, "handleIncomingData", HSF)
    # after the append the callback's segment (data, len) is dead: every decision reads the accumulated buffer
    app = [e for e in h.stmts() if grows(e.node, lambda x: x is not None and show(x).endswith(".buffer"))]
    whole = [e for e in h.stmts() if asg(e.node) and key_of(asg(e.node)[0]) == "dataStr" and show(strip_views(asg(e.node)[1])).endswith(".buffer")]
    r.instance()
    ok = len(app) == 1 and len(whole) == 1 and elem_dominates(h, app[0], whole[0], eh=False)
    if ok:
        segs = {p["n"] for p in h.params[1:]}
        late = [e for e in h.stmts() if any(x.get("k") == "var" and x["n"] in segs and x.get("parm") is not None for x in walk(e.node)) and search(h, whole[0], lambda x, e=e: x is e, eh=False) is not None and "root" in e.raw]
        ok = not late
    r.expect(ok, h, None, "decision on the segment", "handleIncomingData reads the arriving segment (data/len) after it was appended: a framing decision depends on how the stream was cut", okdesc="after the append only the accumulated buffer is read")
    finds = [e for e in h.stmts() if e.node.get("k") == "mcall" and last(e.node.get("callee", "")) == "find" and key_of(e.node.get("obj")) == "dataStr"]
    r.instance()
    ok = len(finds) >= 1 and len(whole) == 1
    if ok:
        pa = flag_abs(h, {"bufferLimitExceeded": "lim"}, {whole[0]: "whole"})
        ok = all(pa.entails(e, A("whole")) for e in finds)
    r.expect(ok, h, finds[0] if finds else None, "terminator search", "the header terminator is searched on a path where dataStr does not hold the whole accumulated buffer", okdesc="terminator searched in the accumulated buffer")
    # per-request framing state: the variables that carry one request's length information are re-initialised before the
    # framing decision of every request extracted from the same buffer (pipelining)
    dec = [e for e in h.stmts() if (e.node.get("k") == "mcall" and last(e.node.get("callee", "")) == "findChunkedRequestEnd") or
           (e.node.get("k") == "decl" and any(v["n"] == "totalExpectedLength" for v in e.node["vars"]))]
    for var in ("contentLength", "hasContentLength", "isChunked"):
        # (a declaration WITH an initialiser on the way is a re-initialisation whatever the value: the variable is created afresh for this request,
        #  e.g. `const bool isChunked = hasTE && transferEncodingIsChunked(te)` inside the loop; a hoisted declaration is not on the way)
        inits = [e for e in h.stmts() if (e.node.get("k") == "decl" and any(v["n"] == var and v.get("init") is not None for v in e.node["vars"]))
                 or (asg(e.node) and key_of(asg(e.node)[0]) == var and const_value(strip_casts(asg(e.node)[1])) == 0)]
        r.instance()
        w = None
        for d in dec:
            for d2 in dec:
                w = w or search(h, d, lambda x, d2=d2: x is d2, stop=lambda x: x in inits, eh=False)
        r.expect(bool(inits) and w is None, h, inits[0] if inits else None, "framing state carried over: %s" % var, "`%s` is not re-initialised on the way from one request's framing decision to the next request extracted from the same buffer: "
                 "a pipelined request inherits the previous request's length information (a GET after a POST waits for a body, or is rejected as conflicting) — framing then depends on how the stream was cut into reads" % var,
                 witness=witness_str(h, w), okdesc="`%s` re-initialised for every extracted request" % var)
    # consume exactly [0, requestEndPos)
    req = [v for e in h.stmts() if e.node.get("k") == "decl" for v in e.node["vars"] if v["n"] == "requestData"]
    # two spellings each: the request is X.substr(0, E) or std::string(X, 0, E); the remainder is X = X.substr(E) or X.erase(0, E)
    def prefix_of(n):
        n = strip_views(n)
        if n is None:
            return None
        a = [x for x in n.get("args", []) if not x.get("def")]
        if n.get("k") == "mcall" and last(n.get("callee", "")) == "substr" and len(a) == 2 and const_value(strip_casts(a[0])) == 0:
            return key_of(n.get("obj")), key_of(a[1])
        if n.get("k") == "ctor" and n.get("cls") == "std::basic_string" and len(a) == 3 and const_value(strip_casts(a[1])) == 0:
            return key_of(strip_views(a[0])), key_of(a[2])
        return None

    def drops_prefix(n):
        a = asg(n)
        if a and key_of(a[0]):
            v = strip_views(a[1])
            va = [x for x in (v or {}).get("args", []) if not x.get("def")]
            if v is not None and v.get("k") == "mcall" and last(v.get("callee", "")) == "substr" and key_of(v.get("obj")) == key_of(a[0]) and len(va) == 1:
                return key_of(a[0]), key_of(va[0])
        if n.get("k") == "mcall" and last(n.get("callee", "")) == "erase" and n.get("callee", "").startswith("std::basic_string"):
            va = [x for x in n.get("args", []) if not x.get("def")]
            if len(va) == 2 and const_value(strip_casts(va[0])) == 0:
                return key_of(n.get("obj")), key_of(va[1])
        return None
    rest = [e for e in h.stmts() if (drops_prefix(e.node) or (None,))[0] == "dataStr"]
    back = [e for e in h.stmts() if asg(e.node) and show(strip_casts(asg(e.node)[0])).endswith(".buffer") and key_of(strip_views(asg(e.node)[1])) == "dataStr"]
    r.instance()
    ok = len(req) == 1 and len(rest) == 1 and len(back) == 1
    if ok:
        reqe = [e for e in h.stmts() if e.node.get("k") == "decl" and req[0] in e.node["vars"]][0]
        ok = prefix_of(req[0]["init"]) == ("dataStr", "requestEndPos") and drops_prefix(rest[0].node) == ("dataStr", "requestEndPos") and elem_dominates(h, rest[0], back[0], eh=False) and \
            elem_dominates(h, reqe, rest[0], eh=False)
    r.expect(ok, h, None, "consumed range", "the dispatched request is not dataStr[0, requestEndPos) with the remainder dataStr[requestEndPos, …) written back to the session buffer (bytes lost or duplicated between pipelined requests)",
             okdesc="request = [0, end), buffer = [end, …)")
    resume_rule(r, fb)


def persisted_origins(fb, f, n, seen=None, depth=0):
    """where the value of a scan start comes from, as far as it outlives the call: [(kind, key, node, function)] with kind 'field' (a
    member reached through this / a reference or pointer: key = qualified field name) or 'ref' (a by-reference parameter of `function`:
    key = its name).  Looks through local copies, std::max / std::min, ?:, position arithmetic, and — for a by-value parameter — the
    argument at every call site in the same file (a scan moved into a helper is still traced to the state it resumes from)."""
    seen = seen if seen is not None else set()
    n = strip_casts(n)
    if n is None or depth > 10:
        return []
    k = n.get("k")
    if k == "member":
        root = n
        while root is not None and root.get("k") == "member":
            root = strip_casts(root.get("b"))
        if root is not None and (root.get("k") == "this" or (root.get("k") == "var" and ("&" in (root.get("t") or "") or "*" in (root.get("t") or "")))) and field_of(n):
            return [("field", field_of(n), n, f)]
        return []
    if k == "var":
        if "&" in (n.get("t") or "") and "const " not in (n.get("t") or ""):
            return [("ref", n["n"], n, f)]
        if (f.name, _vid(n)) in seen:
            return []
        seen.add((f.name, _vid(n)))
        out = []
        for (_, v) in var_defs(fb, f).get(_vid(n), []):
            if v is not None:
                out += persisted_origins(fb, f, v, seen, depth + 1)
        if n.get("parm") is not None:
            for g in fb.functions:
                if not g.ok or g.file != f.file or g is f:
                    continue
                for x in g.nodes.values():
                    if x.get("k") in ("call", "mcall") and x.get("callee") == f.name and len(x.get("args", [])) > n["parm"]:
                        out += persisted_origins(fb, g, x["args"][n["parm"]], seen, depth + 1)
        return out
    if k == "call" and n.get("callee") in ("std::max", "std::min"):
        return [o for a in n.get("args", []) for o in persisted_origins(fb, f, a, seen, depth + 1)]
    if k == "cond":
        return persisted_origins(fb, f, n.get("t"), seen, depth + 1) + persisted_origins(fb, f, n.get("f"), seen, depth + 1)
    if k == "bin" and n.get("op") in ("+", "-"):
        return persisted_origins(fb, f, n["lhs"], seen, depth + 1) + persisted_origins(fb, f, n["rhs"], seen, depth + 1)
    return []


def boundary_uses(fb, f, sc):
    """reads of the scan start that treat it as the START OF A RECORD rather than as a mere lower bound of the search:
      (a) it is compared with an expression built on a match result (the empty-line test `nl - 1 == tp`, `lineEnd == pos`);
      (b) it addresses text: inside an index `X[..]`, an argument of substr / compare / append / assign, added to X.data() / begin();
      (c) it is handed to a helper of the same class;
      (d) it is copied (possibly +- a constant) into another local (`p = st.pos`), which then stands for the record start.
    A search merely skips what is before its start; a record start decides how the bytes after it are interpreted.  Comparisons with
    the buffer size, assertions and log statements are not such uses.  Returns [(Elem, use node)]."""
    S = _pkey(sc["start"])
    if S is None:
        return []
    starts = {id(x["start"]) for x in scans(fb, f)}
    mids = set(match_results(fb, f))
    out = []

    def has_match(n):
        return any(x.get("k") == "var" and _vid(x) in mids for x in walk(n))

    def is_s(n):
        n = strip_casts(n)
        return n is not None and n.get("k") in ("var", "member") and show(n) == S and id(n) not in starts

    def mentions_s(n):
        return any(is_s(x) for x in walk(n))
    for e in f.stmts():
        n = e.node
        k = n.get("k")
        for (op, l, rr) in common.cmp_both(n):
            if mentions_s(l) and has_match(rr) and not mentions_s(rr):
                out.append((e, n))                                                                    # (a)
        if k == "idx" or (k == "opcall" and n.get("op") == "[]"):
            ie = n.get("i") or n.get("index") or (n.get("args") or [None, None])[1]
            if ie is not None and mentions_s(ie):
                out.append((e, n))                                                                    # (b)
        if k == "mcall" and last(n.get("callee", "")) in ("substr", "compare", "append", "assign", "at") and n.get("callee", "").startswith("std::basic_string") and any(mentions_s(a) for a in n.get("args", [])):
            out.append((e, n))                                                                        # (b)
        if k == "bin" and n.get("op") in ("+", "-") and mentions_s(n) and any(x.get("k") == "mcall" and last(x.get("callee", "")) in ("data", "c_str", "begin", "cbegin") for x in walk(n)):
            out.append((e, n))                                                                        # (b)
        if k in ("call", "mcall") and same_class_callee(fb, f, n) is not None and any(mentions_s(a) for a in n.get("args", [])):
            out.append((e, n))                                                                        # (c)
        vals = [v.get("init") for v in n["vars"]] if k == "decl" else ([asg(n)[1]] if asg(n) and key_of(asg(n)[0]) and _pkey(asg(n)[0]) != S else [])
        for v in vals:
            fm = lin(v) if v is not None else None
            if fm is not None and fm[1] == (S,) and mentions_s(v):
                out.append((e, n))                                                                    # (d)
    return out


def boundary_value(fb, g, v, at, depth=0):
    """is the value a VALIDATED RECORD BOUNDARY?  (True, '') when it is 0 (start of the buffer), or a sum that contains the result R of a
    terminator search plus at least that terminator's length (the byte after a terminator just found: `nl + 1`, `he + 4`, also with a
    verified length on top: `nl + 1 + chunkSize + 2`), or is built on a position that is itself always one (another persisted
    position, a variable all of whose values are).  (False, why) when it is derived from the END OF THE DATA (size()/length()) —
    where the data ends depends on how the stream was cut into reads — or stops inside the terminator.  (None, why) when it cannot
    be classified."""
    v = strip_casts(v)
    if v is None or depth > 6:
        return None, "value not understood"
    if const_value(v) == 0:
        return True, ""
    if v.get("k") == "cond":
        res = [boundary_value(fb, g, v.get(x), at, depth + 1) for x in ("t", "f")]
        for (ok, why) in res:
            if ok is not True:
                return ok, why
        return True, ""
    if v.get("k") == "call" and v.get("callee") in ("std::max", "std::min"):
        res = [boundary_value(fb, g, a, at, depth + 1) for a in v.get("args", [])]
        for (ok, why) in res:
            if ok is not True:
                return ok, why
        return True, ""
    nodes = {}
    fm = lin_x(fb, g, v, at, nodes)
    if fm is None:
        if any(_is_size_call(x) for x in walk(v)):
            return False, "it is derived from the end of the data (`%s`)" % show(v)[:50]
        return None, "`%s` is not a sum of positions and constants" % show(v)[:50]
    keys = length_keys(fb, g)
    anchors_, bad = [], None
    for sym in fm[1]:
        x = nodes.get(sym)
        if x is None:
            return None, "`%s` not resolved" % sym
        if _is_size_call(x):
            return False, "it is the end of the data received so far (`%s`), which is wherever the last read happened to stop" % sym
        if x.get("k") == "var":
            ms = match_results(fb, g).get(_vid(x))
            if ms:
                Ls = [m["L"] for m in ms]
                if None in Ls:
                    return None, "terminator of the search that yields `%s` is not a literal" % sym
                anchors_.append((sym, max(Ls)))
                continue
            if sym in keys:
                continue       # a parsed length (its own terminator is verified by C15-R8's CRLF clause)
            vals = [(e, val) for (e, val) in var_defs(fb, g).get(_vid(x), [])]
            if vals and all(val is not None for (_, val) in vals) and (x.get("parm") is None or "&" in (x.get("t") or "")):
                for (e, val) in vals:
                    ok, why = boundary_value(fb, g, val, e, depth + 1)
                    if ok is not True:
                        return ok, why
                anchors_.append((sym, 0))
                continue
            return None, "`%s` is a value this function receives / computes in a way the rule cannot follow" % sym
        if x.get("k") == "member":
            if persisted_origins(fb, g, x):
                anchors_.append((sym, 0))       # another persisted position: its own writes are judged by this rule
                continue
            return None, "`%s` not understood" % sym
        return None, "`%s` not understood" % sym
    if not anchors_:
        return None, "`%s` contains no position" % show(v)[:50]
    need = min(L for (_, L) in anchors_)
    if fm[0] < need:
        return False, "it is %d byte(s) past the match `%s` of a %d-byte terminator, i.e. inside the terminator / the line" % (fm[0], anchors_[0][0], need)
    return True, ""


def resume_rule(r, fb):
    """Segmentation independence of every scan that RESUMES from a position kept between calls (a field reached through this / a
    reference, or a by-reference parameter): where the scan restarts must not depend on where the previous read ended.
      (a) the position is only the lower bound of a terminator search: every value stored into it is 0, a match-derived position, or
          backs up at least len(terminator)-1 bytes from the end of the data (a terminator cut by the read boundary is still found);
      (b) the position is ALSO used as the start of a record (compared with the match, start of the text parsed): every value stored
          into it must be a validated record boundary — match position + terminator length (+ verified lengths) — never the end of
          the data or any other offset inside a line: `resume = buf.size()` makes `nl - 1 == resume` (the empty-line test) and the
          chunk-size parse start depend on whether a read ended in the middle of a line."""
    n = 0
    for f in fb.functions:
        if not f.ok or not f.file.endswith((HSF, HCF)):
            continue
        for sc in scans(fb, f):
            origins = persisted_origins(fb, f, sc["start"])
            if not origins:
                continue
            buses = boundary_uses(fb, f, sc)
            done = set()
            for (kind, key, onode, of) in origins:
                if (kind, key) in done:
                    continue
                done.add((kind, key))
                targets = []      # (function, write elem, lhs text, rhs)
                if kind == "ref":
                    for w in of.stmts():
                        a = asg(w.node)
                        if a and key_of(a[0]) == key:
                            targets.append((of, w, key, a[1]))
                else:
                    # every write to that field anywhere in the file counts
                    for g in fb.functions:
                        if not g.ok or g.file != f.file:
                            continue
                        for w in g.stmts():
                            a = asg(w.node)
                            if a and strip_casts(a[0]).get("k") == "member" and field_of(strip_casts(a[0])) == key:
                                targets.append((g, w, show(strip_casts(a[0])), a[1]))
                if not targets:
                    continue
                n += 1
                L = sc["L"]
                for (g, w, lhs, rhs) in targets:
                    r.instance()
                    nm = last(lhs.replace("->", ".").split(".")[-1])
                    if buses:
                        ok, why = boundary_value(fb, g, rhs, w)
                        if ok is None:
                            raise AnalysisBroken("%s: value `%s` stored into the resume position %s cannot be classified (%s)" % (last(g.name), show(rhs)[:60], lhs, why))
                        use = buses[0]
                        r.expect(ok, g, w, "resume position is not a record boundary: %s" % nm, "%s stores `%s` into `%s`, the position from which %s resumes its scan of `%s` when more bytes have arrived, and %s also uses that position as "
                                 "the START OF A RECORD (`%s`, line %d); %s — so whether the terminator / empty line is recognised depends on where a read ended (a CRLF cut between CR and LF is never seen as the empty line: "
                                 "the message waits for ever; a read ending before a field line's CRLF is taken for the empty line)" % (last(g.name), show(rhs)[:60], lhs, last(f.name), sc["buf"], last(f.name), show(use[0].node)[:60], use[0].line, why),
                                 okdesc="%s: %s = %s is a validated record boundary" % (last(g.name), lhs, show(rhs)[:40]))
                    else:
                        if L is None:
                            raise AnalysisBroken("%s: the terminator searched from the persisted position %s is not a literal" % (last(f.name), lhs))
                        ok, why = resume_value_ok(rhs, sc["buf"], L)
                        r.expect(ok, g, w, "resume position: %s" % nm, "%s stores `%s` as the position from which the search for the %d-byte terminator %r resumes after more bytes arrive; %s — a terminator cut by a read boundary "
                                 "is never found (the message is lost until timeout, or a later blank line inside the body is taken for the end of the headers)" % (last(g.name), show(rhs)[:60], L, sc["term"], why),
                                 okdesc="%s: resume position backs up >= %d bytes" % (last(g.name), L - 1))
    if n < 2:
        raise AnalysisBroken("only %d persisted resume positions found (expected the client's header scan position and its chunk-decoder position)" % n)


def resume_value_ok(v, buf, L):
    v = strip_casts(v)
    if const_value(v) == 0:
        return True, ""
    if v.get("k") == "cond":
        a = v.get("t") if isinstance(v.get("t"), dict) else v.get("a")
        b = v.get("f") if isinstance(v.get("f"), dict) else v.get("b")
        oa, wa = resume_value_ok(a, buf, L)
        ob, wb = resume_value_ok(b, buf, L)
        return oa and ob, wa or wb
    if v.get("k") == "bin" and v.get("op") == "-" and "size()" in show(v["lhs"]) or (v.get("k") == "bin" and v.get("op") == "-" and "length()" in show(v["lhs"])):
        k = const_value(strip_casts(v["rhs"]))
        if k is not None and k >= L - 1:
            return True, ""
        return False, "it backs up only %s byte(s), fewer than len-1 = %d" % (k, L - 1)
    fm = lin(v)
    if fm is not None and not any("size()" in s or "length()" in s for s in fm[1]):
        return True, ""      # a position derived from a match (e.g. he + 4): not a resume-at-end value
    return False, "it is the end of the data (no back-up at all)"


def r7(ctx, r):
    f = fn(ctx, HC, "determineFraming", HCF)
    vocab = Vocab(["nobody", "te", "cl"])

    fb = ctx.fb()
    hits = {"te": 0, "cl": 0}

    def field_lit(x):
        """the header-field name an expression looks up: the one string literal in it, or in the initialiser of the (iterator) local it reads"""
        lits = [y.get("v") for y in walk(x) if y.get("k") == "str"]
        if not lits:
            for y in walk(x):
                si = single_init(fb, f, y) if y.get("k") == "var" else None
                if si is not None:
                    lits += [z.get("v") for z in walk(si[1]) if z.get("k") == "str"]
        return lits[0] if len(lits) == 1 else None

    def leaf(n):
        # presence of a header field, however it is asked: find(F) != end(), count(F) != 0 / > 0 (and the negations == end(), == 0); the field is
        # identified by its name literal, the locals involved may be called anything
        for (op, l, rr) in common.cmp_both(n):
            rs = strip_casts(rr)
            if op in ("!=", "==", ">") and (const_value(rs) == 0 or (rs is not None and rs.get("k") == "mcall" and last(rs.get("callee", "")) in ("end", "cend"))):
                a = {"Transfer-Encoding": "te", "Content-Length": "cl"}.get(field_lit(l))
                if a:
                    hits[a] += 1
                    return A(a) if op in ("!=", ">") else Not(A(a))
        return None
    pa = PredAbs(f, vocab, leaf, lambda e: None, track_bools=True)
    rets = []
    for e in common.returns(f):
        # (a return may name two modes: `return {finalIsChunked ? Chunked : CloseDelimited, 0}` — each must be allowed where the return stands)
        for m_ in dict.fromkeys(last(x["n"]) for x in walk(e.node) if x.get("k") == "enum"):
            rets.append((e, m_))
    if len(rets) < 5:
        raise AnalysisBroken("determineFraming: %d returns with a BodyMode (floor 5)" % len(rets))
    if not hits["te"] or not hits["cl"]:
        raise AnalysisBroken("determineFraming: the tests for the presence of Transfer-Encoding / Content-Length were not recognised")
    TE, CL = A("te"), A("cl")
    nob = [b for b in f.blocks.values() if b.cond is not None and common.cmp_parts(b.cond) and const_value(common.cmp_parts(b.cond)[2]) in (204, 304)]
    first_nobody = [e for e, m in rets if m == "NoBody"]
    for (e, m) in rets:
        r.instance()
        if m == "NoBody":
            # rule 1 precedes the header look-ups
            look = [x for x in f.stmts() if x.node.get("k") == "mcall" and last(x.node.get("callee", "")) == "find" and "headers" in show(x.node.get("obj"))]
            ok = bool(look) and all(search(f, x, lambda y: y is e, eh=False) is None for x in look)
            r.expect(ok, f, e, "NoBody order", "the no-body rule (HEAD/1xx/204/304) is evaluated after header-based rules", okdesc="rule 1 (no body) first")
        elif m == "Chunked":
            r.expect(pa.entails(e, And(TE, Not(CL))), f, e, "Chunked decision", "Chunked framing is chosen on a path where Transfer-Encoding is absent or Content-Length is also present (%s)" % ", ".join(pa.describe(e)),
                     okdesc="Chunked ⇒ TE ∧ ¬CL")
        elif m == "ContentLength":
            r.expect(pa.entails(e, And(CL, Not(TE))), f, e, "ContentLength decision", "Content-Length framing is chosen although Transfer-Encoding is present (%s): TE must take precedence / both must be rejected" % ", ".join(pa.describe(e)),
                     okdesc="ContentLength ⇒ CL ∧ ¬TE")
        elif m == "CloseDelimited":
            r.expect(pa.entails(e, Or(And(TE, Not(CL)), And(Not(TE), Not(CL)))), f, e, "CloseDelimited decision", "close-delimited framing is chosen although a Content-Length is present (%s)" % ", ".join(pa.describe(e)),
                     okdesc="CloseDelimited ⇒ ¬CL")
    # both present → throw
    thr = [e for e in f.stmts() if e.node.get("k") == "throw" and "root" in e.raw and "both" in show(e.node)]
    r.instance()
    r.expect(len(thr) == 1 and pa.entails(thr[0], And(TE, CL)) and all(pa.entails(e, Not(And(TE, CL))) for e, m in rets if m != "NoBody"), f, None, "both present", "a response with both Content-Length and Transfer-Encoding is not rejected before a framing mode is chosen",
             okdesc="TE ∧ CL → HttpFramingError")
    # every header block is parsed into a fresh Response: fields of a discarded interim response must not leak into the final one
    frx = fn(ctx, HC, "frameResponse", HCF)
    phs = [e for e in frx.stmts() if e.node.get("k") == "mcall" and last(e.node.get("callee", "")) == "parseHeaderBlock"]
    r.instance()
    okf = len(phs) == 1
    if okf:
        tgt = key_of(phs[0].node["args"][1])
        resets = [e for e in frx.stmts() if asg(e.node) and key_of(asg(e.node)[0]) == tgt and strip_casts(strip_wrappers(asg(e.node)[1])).get("k") in ("ctor", "ilist") and
                  not [x for x in strip_casts(strip_wrappers(asg(e.node)[1])).get("args", []) if not x.get("def")]]
        phb = fn(ctx, HC, "parseHeaderBlock", HCF)
        clears = [e for e in phb.stmts() if e.node.get("k") == "mcall" and last(e.node.get("callee", "")) == "clear" and "headers" in show(e.node.get("obj") or {})]
        self_clearing = bool(clears) and all(search(phb, ("entry",), lambda x: x.kind == "stmt" and asg(x.node) is not None and "headers" in show(asg(x.node)[0]), stop=lambda x: x in clears, eh=False) is None for _ in [0])
        okf = self_clearing or (bool(resets) and search(frx, ("entry",), lambda x: x is phs[0], stop=lambda x: x in resets, eh=False) is None and search(frx, phs[0], lambda x: x is phs[0], stop=lambda x: x in resets, eh=False) is None)
    r.expect(okf, frx, phs[0] if phs else None, "interim headers leak", "frameResponse parses a header block into `%s` without resetting it first (and parseHeaderBlock does not clear the header map): after an interim 1xx response is discarded its "
             "fields (Link, Content-Length: 0, …) are merged into the final response — wrong header fields, and determineFraming sees length information the final response never sent" % (key_of(phs[0].node["args"][1]) if phs else "resp"),
             okdesc="each header block parsed into a fresh Response")
    # interim responses skipped before framing
    fr = fn(ctx, HC, "frameResponse", HCF)
    df = [e for e in fr.stmts() if e.node.get("k") == "mcall" and last(e.node.get("callee", "")) == "determineFraming"]
    ib = [b for b in fr.blocks.values() if b.cond is not None and common.cmp_parts(b.cond) and const_value(common.cmp_parts(b.cond)[2]) == 200 and "statusCode" in show(b.cond)]
    r.instance()
    r.expect(len(df) == 1 and len(ib) == 1 and search(fr, ("block", ib[0].succs[0]), lambda x: x is df[0], stop=lambda x: x.kind == "stmt" and x.node.get("k") == "mcall" and last(x.node.get("callee", "")) == "erase", eh=False) is None, fr, None,
             "interim response framed", "a 1xx interim response reaches determineFraming instead of being discarded", okdesc="1xx discarded before framing")


def r8(ctx, r):
    h = fn(ctx, HS, "handleIncomingData", HSF)
    p = fn(ctx, HS, "processHttpRequest", HSF)
    # the recognition predicate of framing and of decoding agree: substring "chunked" of the lower-cased Transfer-Encoding value
    def chunk_tests(f):
        out = []
        for b in f.blocks.values():
            c = b.cond
            if c is None:
                continue
            cp = common.cmp_parts(c)
            if cp and cp[0] == "!=" and "npos" in show(cp[2]):
                a = strip_casts(strip_wrappers(cp[1]))
                if a.get("k") == "mcall" and last(a.get("callee", "")) == "find" and [x.get("v") for x in walk(a["args"][0]) if x.get("k") == "str"] == ["chunked"]:
                    out.append((b, key_of(a.get("obj"))))
        return out
    th, tp = chunk_tests(h), chunk_tests(p)
    # a substring test is the defect: `xchunkedx`, `chunked, gzip` (chunked not final) and a later `identity` line all "contain" it
    for (f, lst) in ((h, th), (p, tp)):
        for (b, v) in lst:
            r.instance()
            r.fail(f, b.elems[-1] if b.elems else None, "transfer coding recognised by substring", "%s recognises the chunked coding with `%s.find(\"chunked\")`: `Transfer-Encoding: xchunkedx`, `chunked, gzip` (chunked not the "
                   "final coding) and repeated field lines are framed by guesswork instead of being rejected" % (last(f.name), v))
    # the framing decision: one helper over ALL Transfer-Encoding field lines, exact token comparison, anything else → 400
    helpers = [g for g in ctx.fb().methods_of(HS) if g.ok and any(x.get("k") == "str" and x.get("v") == "chunked" for x in g.nodes.values()) and g not in (h, p)]
    r.instance()
    if len(helpers) != 1:
        raise AnalysisBroken("HttpServer: transfer-coding helper not identified (%d candidates)" % len(helpers))
    H = helpers[0]
    eqs = [x for x in H.nodes.values() if x.get("k") in ("opcall", "bin") and x.get("op") == "==" and any(y.get("k") == "str" and y.get("v") == "chunked" for y in walk(x))]
    finds = [x for x in H.nodes.values() if x.get("k") == "mcall" and last(x.get("callee", "")) in ("find", "rfind", "compare", "starts_with", "ends_with") and any(y.get("k") == "str" and y.get("v") == "chunked" for y in walk(x))]
    lower = any(x.get("k") == "call" and last(x.get("callee", "")) == "transform" and "tolower" in show(x) for x in H.nodes.values())
    split = any(x.get("k") == "call" and last(x.get("callee", "")) == "getline" and any(y.get("k") == "char" and y.get("cv") == 44 for y in walk(x)) for x in H.nodes.values())
    rets = common.returns(H)
    single = any(any(const_value(strip_casts(q[2])) == 1 and q[0] == "==" for q in common.cmp_both(y)) for e in rets for y in walk(e.node) if y.get("k") in ("bin", "opcall"))
    r.expect(len(eqs) == 1 and not finds and lower and split and single, H, None, "transfer coding helper", "%s does not decide 'the coding list is exactly the single token chunked' (comma-split: %s, lower-cased: %s, exact "
             "comparison: %d, substring tests: %d, single-coding test: %s)" % (last(H.name), split, lower, len(eqs), len(finds), single), okdesc="%s: comma-split, case-folded, == \"chunked\", exactly one coding" % last(H.name))
    calls = [e for e in h.stmts() if e.node.get("k") in ("call", "mcall") and e.node.get("callee") == H.name]
    r.instance()
    if len(calls) != 1:
        raise AnalysisBroken("handleIncomingData: %d calls of %s" % (len(calls), last(H.name)))
    argv = key_of(strip_views(calls[0].node["args"][0]))
    accum = [e for e in h.stmts() if grows(e.node, lambda x: key_of(x) == argv)]       # `list += v + ","` or `list.append(v).append(",")`
    # every Transfer-Encoding line feeds the list: the accumulation sits in the header loop behind the field-name test only
    okacc = len(accum) == 1 and any(any(x.get("k") == "str" and x.get("v") == "transfer-encoding" for x in walk(c)) and t for (c, t) in dominating_facts(h, accum[0]))
    r.expect(okacc, h, accum[0] if accum else calls[0], "transfer coding list", "the argument of %s is not the concatenation of every Transfer-Encoding field line: with repeated lines framing looks at one of them only" % last(H.name),
             okdesc="all Transfer-Encoding lines form one list")
    # the decision variable, the rejection of everything else, and its use as THE decoding decision
    # (assigned, or declared with the helper's result in its initialiser: `const bool isChunked = hasTE && helper(list)`)
    dv = [e for e in h.stmts() if asg(e.node) and any(x is calls[0].node for x in walk(asg(e.node)[1]))]
    flag = key_of(asg(dv[0].node)[0]) if dv else None
    if not dv:
        for e in h.stmts():
            if e.node.get("k") == "decl":
                for v in e.node["vars"]:
                    if v.get("init") is not None and any(x is calls[0].node for x in walk(v["init"])) and "bool" in (v.get("t") or ""):
                        dv, flag = [e], v["n"]
    r.instance()
    okrej = False
    if flag:
        for b in h.blocks.values():
            bc, bst, bsf = common.branch(b) if b.cond is not None else (None, None, None)
            if bc is not None and bsf is not None and key_of(bc) == flag and search(h, dv[0], lambda x, b=b: x.block is b, eh=False) is not None:
                arm = _reach_until_ret(h, bsf)
                is400 = lambda x: x.kind == "stmt" and x.node.get("k") == "mcall" and last(x.node.get("callee", "")) == "sendErrorResponse" and const_value(strip_casts(x.node["args"][1])) == 400
                # EVERY way on from the `not chunked` side passes the 400 (a later `if (isChunked) … else <frame by Content-Length>` does not qualify)
                if any(is400(x) for x in arm) and any(x.kind == "stmt" and x.node.get("k") == "ret" for x in arm) and search(h, ("block", bsf), "exit", stop=is400, eh=False) is None:
                    okrej = True
    r.expect(okrej, h, dv[0] if dv else None, "unsupported transfer coding framed", "a Transfer-Encoding that is not exactly `chunked` does not end in 400 + return: its body length is guessed", okdesc="Transfer-Encoding ≠ chunked → 400")
    # (the handler's request object is recognised by the field written — HttpServer::Request::body —, not by what the local is called)
    is_body = lambda x: (field_of(strip_casts(x)) or "").endswith("HttpServer::Request::body")
    dec = [e for e in p.stmts() if asg(e.node) and is_body(asg(e.node)[0]) and "parseChunkedBody" in show(asg(e.node)[1])]
    r.instance()
    bparams = [p_["n"] for p_ in p.params if p_["t"] == "bool"]
    okdec = len(dec) == 1 and len(bparams) == 1 and any(key_of(c) == bparams[0] and t for (c, t) in dominating_facts(p, dec[0]))
    if okdec:
        plain = [e for e in p.stmts() if asg(e.node) and is_body(asg(e.node)[0]) and e is not dec[0]]
        okdec = len(plain) == 1 and elem_dominates(p, plain[0], dec[0], eh=False)
        # the argument handed over is the framing decision
        lams = [lf for (ln, lf) in h.lambdas if any(x.get("k") == "mcall" and x.get("callee") == p.name for x in lf.nodes.values())]
        okdec = okdec and bool(lams) and all(any(key_of(strip_casts(x["args"][-1])) == flag for x in lf.nodes.values() if x.get("k") == "mcall" and x.get("callee") == p.name) for lf in lams)
    r.expect(okdec, p, dec[0] if dec else None, "chunked body not decoded", "the decoding decision of processHttpRequest is not the framing decision of handleIncomingData (a bool handed over with the request): a request framed as "
             "chunked can reach Request::body still chunk-encoded, or a body framed by Content-Length be chunk-decoded", okdesc="decode ⇔ framing decision (passed along); plain body assigned first")
    # chunk data is followed by CRLF: checked by both siblings before the position moves past it.  The advance is found by data flow
    # (a scan position receives a value that contains the parsed length); the two bytes that must have been compared with CR and LF are
    # the two bytes just before the new position, whatever the sub-expressions are called
    fb = ctx.fb()
    for (f_, label) in ((fn(ctx, HS, "findChunkedRequestEnd", HSF), "server"), (fn(ctx, HC, "advanceChunked", HCF), "client")):
        keys = length_keys(fb, f_)
        starts = {_pkey(sc["start"]) for sc in scans(fb, f_)}
        advs = []
        for e in f_.stmts():
            n_ = e.node
            a = asg(n_)
            if a and _pkey(a[0]) in starts:
                fm = lin_x(fb, f_, a[1], e)
                if fm is not None and any(s_ in keys for s_ in fm[1]):
                    advs.append((e, fm))
            elif n_.get("k") == "bin" and n_.get("op") == "+=" and _pkey(n_["lhs"]) in starts:
                fm = lin_x(fb, f_, n_["rhs"], e)
                if fm is not None and any(s_ in keys for s_ in fm[1]):
                    advs.append((e, (fm[0], tuple(sorted(fm[1] + (_pkey(n_["lhs"]),))))))
        r.instance()
        if not advs:
            raise AnalysisBroken("%s: advance past the chunk data not found" % last(f_.name))
        for (adv, A_) in advs:
            seen = set()
            for (c, truth) in dominating_facts(f_, adv):
                cp = common.cmp_parts(strip_casts(c))
                if not cp:
                    continue
                idx = [x for x in walk(cp[1]) if (x.get("k") == "idx" or (x.get("k") == "opcall" and x.get("op") == "[]"))]
                cv = const_value(cp[2])
                if len(idx) == 1 and cv in (13, 10) and ((cp[0] == "!=" and not truth) or (cp[0] == "==" and truth)):
                    ie = idx[0].get("i") or idx[0].get("index") or (idx[0].get("args") or [None, None])[1]
                    fm = lin_x(fb, f_, ie, adv)
                    if fm is not None and fm[1] == A_[1]:
                        seen.add((A_[0] - fm[0], cv))
            r.expect({(2, 13), (1, 10)} <= seen, f_, adv, "chunk data terminator unchecked (%s)" % label, "%s moves its position past a chunk's data (`%s`) without having found CR LF in the two bytes just before the new position: "
                     "`5 CRLF helloXX 0 CRLF CRLF` is framed as a valid body (the sibling endpoint rejects it) — framing by guesswork" % (last(f_.name), show(adv.node)[:50]), okdesc="%s: CRLF after chunk data verified" % label)
    # trailer section: the last-chunk arm returns a position only behind an empty-line test — `the line end just found is where the line
    # started` (match result == the position its search started from), in this function or in the helper the arm returns through
    f = fn(ctx, HS, "findChunkedRequestEnd", HSF)
    keys = length_keys(fb, f)
    zb = [(b, 0 if op == "==" else 1) for b in f.blocks.values() if b.cond is not None and len(b.succs) == 2 for (op, l, rr) in common.cmp_both(strip_casts(b.cond))[:1] if op in ("==", "!=") and key_of(l) in keys and const_value(rr) == 0]
    r.instance()
    if r.expect(len(zb) == 1, f, None, "last chunk arm", "findChunkedRequestEnd has no `<chunk size> == 0` arm"):
        arm = _reach_until_ret(f, zb[0][0].succs[zb[0][1]])
        rets = [(f, e) for e in arm if e.kind == "stmt" and e.node.get("k") == "ret" and "npos" not in show(e.node)]
        four = any(x.get("k") == "str" and x.get("v") == "\r\n\r\n" for y in arm if y.kind == "stmt" for x in walk(y.node))
        through = []
        for (_, e) in list(rets):
            g = same_class_callee(fb, f, strip_casts(e.node.get("v") or {}) or {})
            if g is not None:
                rets.remove((f, e))
                through.append(g)
                rets += [(g, x) for x in common.returns(g) if "root" in x.raw and "npos" not in show(x.node)]
                four = four or any(x.get("k") == "str" and x.get("v") == "\r\n\r\n" for x in g.nodes.values())
        r.instance()
        ok = bool(rets)
        for (fx, e) in rets:
            empty_line = False
            for (c, truth) in dominating_facts(fx, e):
                for (op, l, rr) in common.cmp_both(strip_casts(c)):
                    if not ((op == "==" and truth) or (op == "!=" and not truth)):
                        continue
                    nodes = {}
                    fm = lin_x(fb, fx, l, e, nodes)
                    if fm is None or len(fm[1]) != 1 or fm[0] > 0 or nodes.get(fm[1][0], {}).get("k") != "var":
                        continue
                    ms = match_results(fb, fx).get(_vid(nodes[fm[1][0]]))
                    if ms and all(_pkey(m["start"]) is not None and _pkey(m["start"]) == _pkey(rr) for m in ms):
                        empty_line = True
            ok = ok and (empty_line or four)
        r.expect(ok, rets[0][0] if rets else f, rets[0][1] if rets else None, "trailer section not consumed", "after the last chunk findChunkedRequestEnd%s returns the position after the FIRST line break: with a trailer section (`0 CRLF field: v CRLF CRLF`) the request ends "
                 "one line early and the remaining CRLF is parsed as the start of the next pipelined request (the client's advanceChunked loops to the empty line)" % ((" (through %s)" % ", ".join(last(g.name) for g in through)) if through else ""),
                 okdesc="last chunk: trailer lines consumed through the empty line")


def anchors(ctx, r):
    # (findChunkedRequestEnd, advanceChunked, frameResponse, parseFullUInt: no names — their rules find positions, match results, parsed
    # lengths and buffers by data flow)
    tab = [(fn(ctx, HS, "handleIncomingData", HSF), ["contentLength", "parsedLength", "hasContentLength", "isChunked", "totalExpectedLength", "invalidChunkSize", "dataStr", "headerEnd", "headerSection", "requestData", "requestEndPos", "value"]),
           (fn(ctx, HC, "parseContentLength", HCF), ["val", "result"]), (fn(ctx, HC, "parseHeaderBlock", HCF), ["value", "clValue"]), (fn(ctx, HC, "executeRequest", HCF), ["responseData", "effectiveCap", "len"])]
    for f, names in tab:
        common.require_names(f, names)
        r.instance()
        r.ok("%s: %s" % (last(f.name), ", ".join(names)))


# ------------------------------------------------------------------ R9: a separator-delimited list is scanned to its last element

def r9(ctx, r):
    """A loop that walks a separator-delimited header value (`sep = X.find(<char>, pos)` … `pos = sep + k`) must examine the element BEHIND
    the last separator as well — for Content-Length that element decides whether `5,` or `5, ` is a framing error.  After `pos = sep + k`
    with sep a position find() returned (sep < X.size()), the loop's continuation test is evaluated exactly for every size 0..8 and every
    such sep: it has to hold, otherwise the scan leaves without having validated the last element."""
    from ..finite import compile_expr, NotPure
    fb = ctx.fb()
    seen = set()
    judged = []
    for f in [g for sfx in (HSF, HCF, HMF) for g in fb.in_file(sfx) if g.ok]:
        if (f.file, f.line) in seen:
            continue
        finds = {}                  # d of the separator position -> (object text, d of the start position)
        for e in f.stmts():
            n = e.node
            pairs = [(v["d"], v.get("init")) for v in n["vars"]] if n.get("k") == "decl" else []
            if is_assign(n):
                lhs, op, rhs = _ap(n)
                if op == "=" and strip_casts(lhs).get("k") == "var":
                    pairs.append((strip_casts(lhs)["d"], rhs))
            for d, init in pairs:
                i0 = strip_casts(init) if isinstance(init, dict) else None
                if i0 is not None and i0.get("k") == "mcall" and last(i0.get("callee", "")) == "find" and len(i0.get("args", [])) == 2 \
                        and strip_casts(i0["args"][0]).get("k") == "char" and strip_casts(i0["args"][1]).get("k") == "var":
                    finds[d] = (show(strip_casts(i0.get("obj"))), strip_casts(i0["args"][1])["d"], strip_casts(i0["args"][1])["n"])
        for e in f.stmts():
            n = e.node
            if not is_assign(n):
                continue
            lhs, op, rhs = _ap(n)
            l0, r0 = strip_casts(lhs), strip_casts(rhs)
            if not (op == "=" and l0.get("k") == "var" and r0 is not None and r0.get("k") == "bin" and r0.get("op") == "+"):
                continue
            sd = strip_casts(r0["lhs"]).get("d") if strip_casts(r0["lhs"]).get("k") == "var" else None
            k = const_value(strip_casts(r0["rhs"]))
            if sd not in finds or finds[sd][1] != l0["d"] or not isinstance(k, int) or k < 1:
                continue
            obj, pd, pn = finds[sd]
            seen.add((f.file, f.line))
            # the loop tests that read the position and lie on a cycle through this assignment
            heads = [b for b in f.blocks.values() if b.term and b.term.get("k") in ("WhileStmt", "ForStmt", "DoStmt") and b.cond is not None
                     and any(x.get("k") == "var" and x.get("d") == pd for x in walk(b.cond))]
            r.instance()
            if not heads:
                r.expect(True, f, e, "list scan", "", okdesc="%s: the scan loop has no exit on the position" % short(f.name))
                if any(x.node.get("k") == "throw" for x in f.stmts()):
                    judged.append(short(f.name))        # a rejecting scan that can only leave by break / return: every element is examined
                continue
            for b in heads:
                # the loop's body: blocks reachable from the true edge without passing the test again, from which the test is reachable
                def reach(start, stop):
                    out, todo = set(), [start]
                    while todo:
                        x = todo.pop()
                        if x is None or x in out or x == stop:
                            continue
                        out.add(x)
                        todo.extend(y for y in f.blocks[x].succs if y is not None)
                    return out
                fwd = reach(b.succs[0], b.id)
                after = reach(b.succs[1], None) if len(b.succs) > 1 else set()          # where `break` and the false edge go
                rejecting = [x for bid in fwd - after for x in f.blocks[bid].elems if x.kind == "stmt" and x.node is not None and "root" in x.raw and
                             (x.node.get("k") == "throw" or (x.node.get("k") == "ret" and const_value(strip_casts(x.node.get("v") or {})) == 0))]
                if not rejecting:
                    # a scan that only collects (e.g. remembers the last token): an empty last element changes nothing; not judged
                    r.expect(True, f, e, "list scan", "", okdesc="%s: the scan rejects nothing (collects only) — an empty last element cannot matter" % short(f.name))
                    continue
                def sub(x):
                    if isinstance(x, dict):
                        if x.get("k") == "mcall" and last(x.get("callee", "")) in ("size", "length") and show(strip_casts(x.get("obj"))) == obj:
                            return {"k": "var", "n": "__n", "t": "unsigned long", "d": -1}
                        return {kk: sub(vv) for kk, vv in x.items()}
                    if isinstance(x, list):
                        return [sub(y) for y in x]
                    return x
                try:
                    fnc = compile_expr(sub(strip_casts(b.cond)), [pn, "__n"])[0]
                except NotPure as ex:
                    raise AnalysisBroken("%s: the list-scan loop test `%s` is outside the pure fragment (%s)" % (short(f.name), show(b.cond)[:50], ex))
                judged.append(short(f.name))
                bad = [(nn, sp) for nn in range(0, 9) for sp in range(0, nn) if not fnc(sp + k, nn)]
                r.expect(not bad, f, b.elems[-1] if b.elems else e, "list scan stops before the last element",
                         "%s: after `%s` the loop test `%s` is false for a separator at position %s of a %s-byte value: the element behind the last separator "
                         "(an empty one: `5,`) is never validated and the list is accepted" % (short(f.name), show(n)[:40], show(b.cond)[:40], bad[0][1] if bad else "", bad[0][0] if bad else ""),
                         okdesc="%s: `%s` holds after every `%s` (sizes 0..8, every separator position)" % (short(f.name), show(b.cond)[:40], show(n)[:30]))
    if not judged:
        raise AnalysisBroken("no rejecting separator-delimited list scan with a test on the position was found (confirmed on the pinned tree: HttpClient::parseContentLength)")
    r.floor(1, "separator-delimited list scans")


def run(ctx, ck):
    r0 = ck.run_rule("C15-R0", "the local names the rules are anchored on exist (a rename makes the analysis refuse — exit 2 — instead of raising a false alarm)", "anchor table", lambda r: anchors(ctx, r))
    if r0.broken:
        return
    ck.run_rule("C15-R1", "peer-supplied lengths are bounded before they enter position arithmetic", "A8 predicate abstraction (one within-bounds atom per length)", lambda r: r1(ctx, r))
    ck.run_rule("C15-R2", "strict numeric parse; conflicting / duplicate length information reaches a rejecting exit before framing", "A8 + A11 sibling agreement", lambda r: r2(ctx, r))
    ck.run_rule("C15-R3", "receive buffers grow only behind their caps", "A2 dominance", lambda r: r3(ctx, r))
    ck.run_rule("C15-R4", "no exception leaves the transport data callback", "A9 exception-escape over the callback call graph with handler-type coverage", lambda r: r4(ctx, r))
    ck.run_rule("C15-R5", "every framing loop iteration consumes input or leaves", "A2 cycle analysis against progress statements recognised by data flow (position := match from that position + k, k >= 1); helpers given the scanned buffer followed", lambda r: r5(ctx, r))
    ck.run_rule("C15-R6", "decisions use the accumulated buffer only; exact consumption; resume positions back up len-1 / are validated record boundaries", "A2 + dataflow (segment dead after append) + resume-scan rule (origin tracing of scan starts)", lambda r: r6(ctx, r))
    ck.run_rule("C15-R7", "client framing decision follows RFC 9112 §6.3 order", "A5 predicate abstraction", lambda r: r7(ctx, r))
    ck.run_rule("C15-R8", "recognised chunked coding is decoded before Request::body; trailer section consumed", "A10 sibling agreement + A2", lambda r: r8(ctx, r))
    ck.run_rule("C15-R9", "a separator-delimited length list is scanned to its last element (the element behind the last separator is validated)", "A6 exact finite-domain evaluation of the loop test after `pos = sep + k`", lambda r: r9(ctx, r))
