"""C01 — TCP/TLS sessions deliver sent bytes exactly once and in order (DESIGN.md §2 C01)."""
from .. import access
from ..cfg import search, witness_str, elem_dominates
from ..expr import show, walk, last, field_of, strip_wrappers, strip_casts, short, const_value, access_path
from ..facts import AnalysisBroken
from ..predabs import Vocab, PredAbs, A, Not, And, Or, T, translate, known_when, total
from ..rules import common

TITLE = "TCP/TLS sessions deliver sent bytes exactly once and in order"
TECHNIQUE = 'custom static analysis over clang-14 CFG facts: who-may-call over write primitives, must-pass-through (dominance) with ghost-atom predicate abstraction for pending/armed obligations, must-lockset'
TE = "iora::network::TcpEngine"
SESS = TE + "::Session"
FILE = "iora/network/detail/tcp_engine.hpp"
WRITE_CALLS = ("send", "SSL_write", "write", "sendto", "sendmsg", "writev", "pwrite", "sendfile")
READ_CALLS = ("recv", "SSL_read", "read", "recvfrom", "recvmsg")

EXPLANATION = (
    "Static obligations over tcp_engine.hpp: R1 the only functions that write a session's descriptor/SSL object are doSend and "
    "writePending (who-may-call); R2 commands are queued only in the _cmdMutex section that saw the queue open, leave the queue only by "
    "whole-deque swap and are processed front to back, the direct write that bypasses the per-session queue happens only when that queue "
    "is empty, whole payloads are queued at the back; R3 on every path after a write call the function either queued the unsent tail "
    "built from [begin+n,end) of the very result variable (front of the queue), queued the whole payload, closed the session, or the write "
    "was complete (predicate abstraction over {n>=0, n<size}); in writePending the queue front loses exactly [begin,begin+n) on a short "
    "write and is popped exactly on a full one; R4 every path that leaves data queued re-arms EPOLLOUT through updateInterest, and "
    "updateInterest sets EPOLLOUT whenever the queue is non-empty; R5 the raw ::send is reachable only when the session has no TLS "
    "(with the checked invariant tlsMode!=None ⇒ tlsState∈{Handshake,Open}); R6 the read loop hands every n>0 result to the data "
    "callback with that n and keeps reading until would-block/close; R7 the oldest queued buffer is dropped only when closeOnBackpressure is off.")
NOT_DECIDED = ["that the kernel / OpenSSL deliver what they accepted", "(int)size truncation for buffers > 2 GiB",
               "interleavings of application threads beyond 'order = order of _cmdMutex acquisition'", "byte-exactness as such"]


def _fn(ctx, name):
    return ctx.fb().func(TE + "::" + name, file_suffix=FILE)


def _wq(n, methods=None):
    """member call on Session::wq"""
    if n.get("k") != "mcall" or field_of(n.get("obj")) != SESS + "::wq":
        return None
    m = last(n.get("callee", ""))
    return m if (methods is None or m in methods) else None


def _write_calls(f):
    return [e for e in f.stmts() if e.node.get("k") == "call" and e.node.get("callee") in WRITE_CALLS]


def _result_var(f, call_elem):
    """the local variable that receives the call's result (n = send(...); int n = send(...))"""
    pid = f.parent.get(call_elem.node["id"])
    while pid is not None:
        p = f.nodes[pid]
        if p.get("k") == "cast":
            pid = f.parent.get(pid)
            continue
        if p.get("k") == "bin" and p["op"] == "=" and p["lhs"].get("k") == "var":
            return p["lhs"]["n"]
        if p.get("k") == "decl":
            for v in p["vars"]:
                if v.get("init") is not None and any(x is call_elem.node for x in walk(v["init"])):
                    return v["n"]
        return None
    return None


# ------------------------------------------------------------------ R1

def r1(ctx, r):
    fb = ctx.fb()
    allowed = {TE + "::doSend", TE + "::writePending"}
    n = 0
    for f in fb.in_file(FILE):
        if not f.ok:
            continue
        for e in _write_calls(f):
            a0 = e.node["args"][0] if e.node["args"] else None
            fld = field_of(a0) if a0 is not None else None
            if fld in (TE + "::_eventFd",):
                r.note("%s: write to _eventFd (wake-up descriptor, not a session)" % short(f.name))
                continue
            n += 1
            r.instance()
            r.expect(f.name in allowed, f, e, "%s outside the write path" % e.node["callee"],
                     "%s(%s…) writes to a session descriptor outside doSend/writePending: bytes reach the wire that are not the queue's" % (
                         e.node["callee"], show(a0)), okdesc="%s: %s(%s, …)" % (short(f.name), e.node["callee"], show(a0)))
    r.floor(4, "session write sites")
    # the write path is entered only through the command queue (doSend from process, writePending from the epoll handler):
    # a direct call from send()/a callback path would overtake commands that were accepted earlier
    cg = ctx.cg()
    for callee, allowed_callers in ((TE + "::doSend", {TE + "::process"}), (TE + "::writePending", {TE + "::onSession"})):
        callers = {f.name for (f, e, n) in cg.callers.get(callee, [])}
        r.instance()
        r.expect(bool(callers) and callers <= allowed_callers, callee, None, "%s called outside the dispatch" % last(callee),
                 "%s is called from %s; it may only be reached through %s — any other entry bypasses the FIFO command queue that defines the order of accepted sends" % (
                     last(callee), sorted(short(c) for c in callers - allowed_callers), sorted(short(c) for c in allowed_callers)),
                 okdesc="%s called only from %s" % (last(callee), ",".join(short(c) for c in allowed_callers)))
    # send() itself only copies and enqueues
    snd = fb.func(TE + "::send", file_suffix=FILE)
    r.instance()
    enq = [e for e in snd.stmts() if e.node.get("k") == "mcall" and e.node.get("callee") == TE + "::enqueue"]
    w = search(snd, ("entry",), "exit", stop=lambda x: x in enq, eh=False, edge_ok=lambda b, si: not (b.cond is not None and show(b.cond).replace(" ", "") in ("n==0",) and b.edge_label(si) is True))
    r.expect(bool(enq) and w is None, snd, None, "send does not enqueue", "a path through TcpEngine::send accepts data without enqueueing a send command", witness=witness_str(snd, w),
             okdesc="send(): every non-empty payload is enqueued")
    # … and as ONE command: the command queue's lock is taken per enqueue, so a payload spread over several commands can be
    # interleaved with another thread's send on the same session
    r.instance()
    w2 = None
    for a in enq:
        w2 = w2 or search(snd, a, lambda x: x in enq, eh=False)
    r.expect(w2 is None, snd, enq[0] if enq else None, "one send, several commands", "a path through TcpEngine::send enqueues more than one command for one payload (%s): _cmdMutex is released between them, so another thread's send "
             "on the same session can land in between — the peer receives the two payloads interleaved" % (witness_str(snd, w2) if w2 else ""), okdesc="send(): at most one command per call")


# ------------------------------------------------------------------ R2

def r2(ctx, r):
    fb, la = ctx.fb(), ctx.locks()
    CM, CMDS = TE + "::_cmdMutex", TE + "::_cmds"
    # (a) pushes under the lock that saw the queue open
    pushes = 0
    for f in fb.funcs(TE + "::enqueue", FILE):
        vocab = Vocab(["closed"])

        def leaf(n):
            if n.get("k") == "member" and n["n"] == TE + "::_cmdsClosed":
                return A("closed")
            return None

        def effects(e):
            if e.kind == "dtor" and e.raw.get("t", "").startswith(("std::lock_guard", "std::unique_lock")):
                return [("havoc", "closed")]
            return None
        pa = PredAbs(f, vocab, leaf, effects)
        for e in common.member_calls_on(f, CMDS):
            m = last(e.node["callee"])
            if m in ("push_back", "emplace_back"):
                pushes += 1
                r.instance()
                r.expect(la.holds(f, e, CM) and pa.entails(e, Not(A("closed"))), f, e, "push without closed test",
                         "a command is queued without _cmdMutex held or without having seen _cmdsClosed false in that critical section",
                         okdesc="enqueue: push_back under _cmdMutex after !_cmdsClosed")
            elif m in access.MUTATORS:
                r.instance()
                r.fail(f, e, "_cmds.%s in enqueue" % m, "commands must enter the queue at the back only")
    if pushes < 2:
        raise AnalysisBroken("enqueue overloads: %d push sites found, expected 2" % pushes)
    # (b) commands leave the queue only by whole-deque swap in process / shutdownDrain
    for (f, e, n, kind) in access.accesses(fb, CMDS, [FILE]):
        if kind not in ("write", "rw") or f.name == TE + "::enqueue":
            continue
        r.instance()
        par = f.nodes.get(f.parent.get(n["id"]))
        isswap = par is not None and par.get("k") == "mcall" and last(par.get("callee", "")) == "swap"
        r.expect(isswap and f.name in (TE + "::process", TE + "::shutdownDrain") and la.holds(f, e, CM), f, e, "_cmds mutated",
                 "the command queue is modified by something other than enqueue's push_back or the whole-deque swap in process()/shutdownDrain() under _cmdMutex",
                 okdesc="%s: _cmds swapped out whole under _cmdMutex" % short(f.name))
    proc = _fn(ctx, "process")
    begins = [e for e in proc.stmts() if e.node.get("k") == "mcall" and last(e.node.get("callee", "")) in ("begin", "rbegin", "cbegin", "crbegin")
              and (e.node.get("obj") or {}).get("k") == "var"]
    r.instance()
    r.expect(len(begins) >= 1 and all(last(e.node["callee"]) in ("begin", "cbegin") for e in begins), proc, begins[0] if begins else None,
             "dispatch order", "process() does not iterate the swapped-out commands front to back", okdesc="process(): range-for from begin()")
    # (c)+(d) in doSend
    ds = _fn(ctx, "doSend")
    vocab = Vocab(["wqempty"])

    def leaf2(n):
        if _wq(n, ("empty",)):
            return A("wqempty")
        return None

    def eff2(e):
        if e.kind == "stmt" and _wq(e.node) in access.MUTATORS:
            return [("havoc", "wqempty")]
        return None
    pa = PredAbs(ds, vocab, leaf2, eff2)
    for e in _write_calls(ds):
        r.instance()
        r.expect(pa.entails(e, A("wqempty")), ds, e, "direct write with queued data",
                 "doSend writes the new payload straight to the socket although earlier payloads may still be queued: bytes overtake queued ones",
                 okdesc="direct %s only when wq is empty" % e.node["callee"])
    ins = [e for e in ds.stmts() if _wq(e.node, ("emplace_back", "push_back", "emplace_front", "push_front", "insert", "emplace"))]
    if len(ins) < 3:
        r.fail(ds, None, "payload not queued", "doSend has fewer than three queueing sites (handshake, tail after partial write, would-block)")
    for e in ins:
        m = _wq(e.node)
        arg = strip_wrappers(e.node["args"][0]) if e.node["args"] else None
        whole = arg is not None and (access_path(arg) or ("",))[-1].endswith("SendReq::payload")
        r.instance()
        if whole:
            r.expect(m in ("emplace_back", "push_back"), ds, e, "payload queued at front",
                     "a whole new payload is queued with %s: it would be sent before payloads accepted earlier" % m, okdesc="whole payload queued at the back")
        else:
            r.expect(m in ("emplace_front", "push_front") and pa.entails(e, A("wqempty")), ds, e, "tail not at front",
                     "the unsent tail of a partially written payload is queued with %s %s: it must go to the front of an otherwise empty queue" % (
                         m, "" if pa.entails(e, A("wqempty")) else "(queue not known empty)"), okdesc="unsent tail queued at the front of the empty queue")


# ------------------------------------------------------------------ R3

def _pos_partial_leaf(nvar, sizeexpr_pred):
    def leaf(n):
        if n.get("k") == "bin" and n["op"] in (">", ">=", "<", "<=", "=="):
            l, rr = strip_casts(n["lhs"]), strip_casts(n["rhs"])
            if l.get("k") == "var" and l["n"] == nvar:
                z = const_value(rr)
                if z == 0 and rr.get("k") == "int":
                    if n["op"] in (">", ">="):
                        return A("pos")
                    if n["op"] in ("<",):
                        return Not(A("pos"))      # n < 0  (n <= 0 says nothing about n == 0 for send)
                    if n["op"] == "<=":
                        return None
                if sizeexpr_pred(rr):
                    if n["op"] == "<":
                        return A("partial")
                    if n["op"] in (">=", "=="):
                        return Not(A("partial"))
        return None
    return leaf


def r3(ctx, r):
    ds = _fn(ctx, "doSend")

    def is_payload_size(x):
        return x.get("k") == "mcall" and last(x.get("callee", "")) == "size" and (access_path(x.get("obj")) or ("",))[-1].endswith("SendReq::payload")
    for w in _write_calls(ds):
        nv = _result_var(ds, w)
        if nv is None:
            r.instance()
            r.fail(ds, w, "write result dropped", "the result of %s is not kept: a short or refused write cannot be handled" % w.node["callee"])
            continue
        vocab = Vocab(["pos", "partial", "pending"])
        leaf = _pos_partial_leaf(nv, is_payload_size)

        def handled(e):
            if e.kind != "stmt":
                return False
            if _wq(e.node, ("emplace_back", "push_back", "emplace_front", "push_front")):
                return True
            return e.node.get("k") == "mcall" and e.node.get("callee") == TE + "::closeNow"

        def effects(e, w=w, nv=nv):
            if e is w:
                # ghost atom: bytes handed to the write call are not yet accounted for
                return [("havoc_all", ["pos", "partial"]), ("set", "pending", True)]
            if e.kind == "stmt" and e.node.get("k") == "bin" and e.node["op"] == "=" and e.node["lhs"].get("k") == "var" and e.node["lhs"]["n"] == nv and \
                    not any(x is w.node for x in walk(e.node)):
                return [("havoc_all", ["pos", "partial"])]
            if handled(e):
                return [("set", "pending", False)]
            return None
        pa = PredAbs(ds, vocab, leaf, effects, init=Not(A("pending")))
        # at the function exit: nothing pending, unless the write was complete (n >= 0 and not short)
        r.instance()
        goal = Or(Not(A("pending")), And(A("pos"), Not(A("partial"))))
        bad = None
        for ret in common.returns(ds):
            if not pa.entails(ret, goal):
                bad = ret
                break
        if bad is None and not pa.exit_entails(goal):
            bad = "end"
        r.expect(bad is None, ds, bad if bad not in (None, "end") else w, "%s: bytes dropped" % w.node["callee"],
                 "after %s the function can return (line %s) with the payload neither queued, nor the session closed, nor the write known complete "
                 "(known there: %s): bytes of an accepted send are lost" % (w.node["callee"], getattr(bad, "line", "end"),
                                                                          ",".join(pa.describe(bad)) if bad not in (None, "end") else ",".join(pa.describe_exit())),
                 okdesc="after %s every exit queued the rest, closed, or the write was complete" % w.node["callee"])
        # the tail buffer is [payload.begin()+n, payload.end()) of this very n, built on the partial edge
        tails = []
        for e in ds.stmts():
            if e.node.get("k") == "decl":
                for v in e.node["vars"]:
                    i = v.get("init")
                    if i is not None and i.get("k") == "ctor" and len([a for a in i["args"] if not a.get("def")]) == 2 and "vector" in v["t"]:
                        if search(ds, w, lambda x, e=e: x is e, eh=False, stop=lambda x: x is not w and x in _write_calls(ds)) is not None:
                            tails.append((e, v))
        r.instance()
        if len(tails) != 1:
            r.fail(ds, w, "no tail buffer", "no buffer holding the unsent tail is built after %s (found %d)" % (w.node["callee"], len(tails)))
            continue
        te, tv = tails[0]
        a0, a1 = [show(strip_wrappers(a)).replace(" ", "") for a in tv["init"]["args"][:2]]
        ok = a0 in ("sr.payload.begin()+%s" % nv, "%s+sr.payload.begin()" % nv) and a1 == "sr.payload.end()"
        r.expect(ok, ds, te, "tail range", "the re-queued tail is [%s, %s) instead of [payload.begin()+%s, payload.end()): bytes are duplicated or lost" % (a0, a1, nv),
                 okdesc="tail = [begin+%s, end)" % nv)
        r.instance()
        r.expect(pa.entails(te, And(A("pos"), A("partial"))), ds, te, "tail on wrong edge", "the tail buffer is not built exactly on the short-write edge (known: %s)" % ",".join(pa.describe(te)),
                 okdesc="tail built only when 0 <= n < size")
        # and it is the thing queued
        q = [e for e in ds.stmts() if _wq(e.node, ("emplace_front", "push_front")) and tv["n"] in show(e.node) and elem_dominates(ds, te, e)]
        r.instance()
        r.expect(bool(q), ds, te, "tail not queued", "the tail buffer is built but not put at the front of the write queue", okdesc="tail buffer queued at the front")
    # writePending
    wp = _fn(ctx, "writePending")

    def is_front_size(x):
        return x.get("k") == "mcall" and last(x.get("callee", "")) == "size" and (x.get("obj") or {}).get("k") == "var"
    ws = _write_calls(wp)
    if len(ws) < 2:
        raise AnalysisBroken("writePending: %d write calls found" % len(ws))
    nvs = {_result_var(wp, w) for w in ws}
    if len(nvs) != 1 or None in nvs:
        raise AnalysisBroken("writePending: write results are not kept in one variable")
    nv = nvs.pop()
    vocab = Vocab(["pos", "partial"])
    leaf = _pos_partial_leaf(nv, is_front_size)

    def eff(e):
        if e in ws or (e.kind == "stmt" and e.node.get("k") == "decl" and any(v["n"] == nv for v in e.node["vars"])):
            return [("havoc_all", ["pos", "partial"])]
        return None
    pa = PredAbs(wp, vocab, leaf, eff)
    # which local is the queue front?
    fronts = [v for e in wp.stmts() if e.node.get("k") == "decl" for v in e.node["vars"] if v.get("init") is not None and _wq(strip_wrappers(v["init"]), ("front",))]
    if len(fronts) != 1:
        raise AnalysisBroken("writePending: cannot identify the reference to wq.front()")
    dn = fronts[0]["n"]
    muts = 0
    for e in wp.stmts():
        n = e.node
        if n.get("k") == "mcall" and (n.get("obj") or {}).get("k") == "var" and n["obj"]["n"] == dn and last(n["callee"]) in access.MUTATORS:
            muts += 1
            r.instance()
            m = last(n["callee"])
            if m == "erase":
                a = [show(strip_wrappers(x)).replace("__normal_iterator", "").replace(" ", "") for x in n["args"]]
                ok = len(a) == 2 and a[0] in ("(%s.begin())" % dn, "%s.begin()" % dn) and a[1] in ("(%s.begin()+%s)" % (dn, nv), "%s.begin()+%s" % (dn, nv))
                r.expect(ok and pa.entails(e, And(A("pos"), A("partial"))), wp, e, "front erase range",
                         "on a short write the front buffer loses %s instead of exactly [begin, begin+%s) (or not only on the short-write edge)" % (a, nv),
                         okdesc="short write: erase(begin, begin+%s)" % nv)
            else:
                r.fail(wp, e, "front buffer %s" % m, "the partially written front buffer is modified by %s" % m)
        if _wq(n) in access.MUTATORS:
            muts += 1
            r.instance()
            m = _wq(n)
            r.expect(m == "pop_front" and pa.entails(e, And(A("pos"), Not(A("partial")))), wp, e, "wq.%s" % m,
                     "the write queue is changed by %s on a path where the front buffer was not written completely (known: %s)" % (m, ",".join(pa.describe(e))),
                     okdesc="pop_front only after a complete write of the front buffer")
    if muts < 2:
        r.fail(wp, None, "queue never consumed", "writePending no longer removes written bytes from the queue (erase on short write, pop_front on full write)")
    # the bytes written are the front buffer's
    for w in ws:
        r.instance()
        a = [show(strip_wrappers(x)) for x in w.node["args"]]
        r.expect(any(x == dn + ".data()" for x in a) and any(dn + ".size()" in x for x in a), wp, w, "writes other bytes",
                 "%s is not given the front buffer's data()/size()" % w.node["callee"], okdesc="%s(front.data(), front.size())" % w.node["callee"])


# ------------------------------------------------------------------ R4

def r4(ctx, r):
    ds, wp = _fn(ctx, "doSend"), _fn(ctx, "writePending")

    def rearm(e):
        return e.kind == "stmt" and e.node.get("k") == "mcall" and e.node.get("callee") in (TE + "::updateInterest", TE + "::closeNow")
    for e in ds.stmts():
        if _wq(e.node, ("emplace_back", "push_back", "emplace_front", "push_front")):
            r.instance()
            w = search(ds, e, "exit", stop=rearm, eh=False)
            r.expect(w is None, ds, e, "queued without re-arm", "data is left in the write queue on a path that returns without updateInterest(): with edge-triggered epoll the tail is never sent",
                     witness=witness_str(ds, w), okdesc="doSend: queueing is followed by updateInterest/closeNow")
    vocab = Vocab(["wqempty", "armed"])

    def leaf(n):
        if _wq(n, ("empty",)):
            return A("wqempty")
        return None
    wcalls = _write_calls(wp)

    def eff(e):
        if e.kind != "stmt":
            return None
        if e in wcalls:
            return [("set", "armed", False)]      # ghost: the socket state changed, interest must be recomputed
        if rearm(e):
            return [("set", "armed", True)]
        if _wq(e.node) in access.MUTATORS:
            return [("havoc", "wqempty")]
        return None
    pa = PredAbs(wp, vocab, leaf, eff, init=A("armed"))
    r.instance(len(wcalls))
    bad = [ret for ret in common.returns(wp) if not pa.entails(ret, A("armed"))]
    r.expect(not bad and pa.exit_entails(A("armed")), wp, bad[0] if bad else None, "write without re-arm",
             "after a write call a path leaves writePending without updateInterest(): EPOLLOUT interest is stale (a stalled tail in edge-triggered mode, or a busy loop)",
             okdesc="writePending: every exit after a write passes updateInterest/closeNow")
    # updateInterest: EPOLLOUT whenever the queue is non-empty
    ui = _fn(ctx, "updateInterest")
    vocab = Vocab(["nonempty", "need"])

    def leaf2(n):
        if n.get("k") == "var" and n["n"] == "needWrite":
            return A("need")
        if _wq(n, ("empty",)):
            return Not(A("nonempty"))
        return None

    def eff2(e):
        if e.kind != "stmt":
            return None
        n = e.node
        if n.get("k") == "decl":
            for v in n["vars"]:
                if v["n"] == "needWrite" and v.get("init") is not None:
                    fm = translate(v["init"], leaf2)
                    # need is at least (known disjuncts): nonempty -> need when `!wq.empty()` is a disjunct
                    txt = show(v["init"])
                    if "||" in txt and "!s->wq.empty()" in txt.replace(" ", "").replace("wq.empty()", "wq.empty()"):
                        return [("havoc", "need"), ("assume", Or(Not(A("nonempty")), A("need")))]
                    return [("havoc", "need")]
        if n.get("k") == "bin" and n["op"] in ("=", "|=") and n["lhs"].get("k") == "var" and n["lhs"]["n"] == "needWrite":
            rhs = strip_casts(n["rhs"])
            if n["op"] == "|=" or (rhs.get("k") == "bin" and rhs["op"] == "||" and strip_casts(rhs["lhs"]).get("k") == "var" and strip_casts(rhs["lhs"])["n"] == "needWrite"):
                return None    # monotone: need stays true if it was
            return [("havoc", "need")]
        return None
    pa2 = PredAbs(ui, vocab, leaf2, eff2, init=A("nonempty"))
    mods = [e for e in ui.stmts() if e.node.get("k") == "mcall" and e.node.get("callee") == TE + "::modEpoll"]
    sets = [e for e in ui.stmts() if e.node.get("k") == "bin" and e.node["op"] == "|=" and any(x.get("mac") == "EPOLLOUT" or x.get("cv") == 4 and x.get("k") in ("int", "enum") for x in walk(e.node["rhs"]))]
    r.instance()
    if not mods or not sets:
        r.fail(ui, None, "updateInterest shape", "updateInterest no longer computes EPOLLOUT interest and applies it with modEpoll")
    else:
        w = search(ui, ("entry",), lambda x: x in mods, stop=lambda x: x in sets, eh=False, edge_ok=lambda b, si: pa2.edge_feasible(b, si))
        r.expect(w is None, ui, mods[0], "EPOLLOUT not armed", "with a non-empty write queue updateInterest can reach modEpoll without EPOLLOUT: queued bytes are never flushed",
                 witness=witness_str(ui, w), okdesc="updateInterest: wq non-empty ⇒ EPOLLOUT set before modEpoll")
        w2 = search(ui, ("entry",), "exit", stop=lambda x: x in mods, eh=False)
        r.instance()
        r.expect(w2 is None, ui, None, "modEpoll skipped", "a path through updateInterest does not call modEpoll", witness=witness_str(ui, w2), okdesc="modEpoll on every path")


# ------------------------------------------------------------------ R5

def tls_leaf(n):
    if n.get("k") == "mcall" and n.get("callee") == TE + "::driveHandshake":
        return A("dh_ok")
    if n.get("k") == "bin" and n["op"] in ("==", "!="):
        l, rr = strip_casts(n["lhs"]), strip_casts(n["rhs"])
        f = field_of(l) if l.get("k") == "member" else None
        en = rr["n"] if rr.get("k") == "enum" else None
        if f == SESS + "::tlsMode" and en and en.endswith("TlsMode::None"):
            return Not(A("tls")) if n["op"] == "==" else A("tls")
        if f == SESS + "::tlsState" and en:
            a = {"Handshake": "hs", "Open": "open"}.get(last(en))
            if a:
                return A(a) if n["op"] == "==" else Not(A(a))
            if last(en) == "None":
                fm = And(Not(A("hs")), Not(A("open")))
                return fm if n["op"] == "==" else Not(fm)
    return None


TLS_AXIOM = And(Or(Not(A("tls")), A("hs"), A("open")), Not(And(A("hs"), A("open"))))


def tls_effects(fb):
    def eff(e):
        if e.kind != "stmt":
            return None
        n = e.node
        if n.get("k") == "bin" and n["op"] == "=" and n["lhs"].get("k") == "member":
            f = field_of(n["lhs"])
            rr = strip_casts(n["rhs"])
            if f == SESS + "::tlsState" and rr.get("k") == "enum":
                v = last(rr["n"])
                return [("set", "hs", v == "Handshake"), ("set", "open", v == "Open")]
            if f == SESS + "::tlsMode":
                return [("havoc", "tls")]
        if n.get("k") == "mcall" and n.get("callee") == TE + "::driveHandshake":
            # summary (checked in r5): driveHandshake returns true only with tlsState == Open
            return [("havoc_all", ["hs", "open", "dh_ok"]), ("assume", TLS_AXIOM), ("assume", Or(Not(A("dh_ok")), And(A("open"), Not(A("hs")))))]
        if n.get("k") == "mcall" and n.get("callee") in (TE + "::readAvail", TE + "::closeNow"):
            return None
        return None
    return eff


def r5(ctx, r):
    fb = ctx.fb()
    vocab = Vocab(["tls", "hs", "open", "dh_ok"])
    # invariant: tlsMode != None  =>  tlsState in {Handshake, Open}
    n_mode = 0
    for f in fb.in_file(FILE):
        if not f.ok:
            continue
        for (e, node, kind) in common.field_writes(f, SESS + "::tlsMode"):
            n_mode += 1
            r.instance()

            def sets_state(x):
                return x.kind == "stmt" and x.node.get("k") == "bin" and x.node["op"] == "=" and field_of(x.node["lhs"]) == SESS + "::tlsState" and \
                    strip_casts(x.node["rhs"]).get("k") == "enum" and last(strip_casts(x.node["rhs"])["n"]) in ("Handshake", "Open")

            def inserted(x):
                return x.kind == "stmt" and x.node.get("k") == "mcall" and field_of(x.node.get("obj")) == TE + "::_sessions" and last(x.node["callee"]) in ("emplace", "insert", "try_emplace")
            def new_session(x):
                return x.kind == "stmt" and x.node.get("k") == "call" and x.node.get("callee") == "std::make_unique" and "Session" in x.node.get("t", "")
            w = search(f, e, inserted, stop=lambda x: sets_state(x) or new_session(x), eh=False)
            r.expect(w is None, f, e, "tlsMode without tlsState", "a session gets a TLS mode and becomes visible in _sessions without its tlsState set to Handshake/Open: "
                     "the write path would treat it as plaintext", witness=witness_str(f, w), okdesc="%s: tlsMode set ⇒ tlsState = Handshake before insertion" % short(f.name))
        for (e, node, kind) in common.field_writes(f, SESS + "::tlsState"):
            r.instance()
            v = common.assigned_value(f, node)
            v = strip_casts(v) if v else None
            r.expect(v is not None and v.get("k") == "enum" and last(v["n"]) in ("Handshake", "Open"), f, e, "tlsState reset",
                     "tlsState is assigned something other than Handshake/Open", okdesc="%s: tlsState = %s" % (short(f.name), last(v["n"]) if v else "?"))
    if n_mode < 2:
        raise AnalysisBroken("expected tlsMode to be assigned in onListener and doConnect")
    eff = tls_effects(fb)
    # summary of driveHandshake: `return true` only with the session Open
    dh = _fn(ctx, "driveHandshake")
    pa_dh = PredAbs(dh, vocab, tls_leaf, eff, init=TLS_AXIOM)
    for ret in common.returns(dh):
        if const_value(ret.node.get("v") or {}) == 1:
            r.instance()
            r.expect(pa_dh.entails(ret, And(A("open"), Not(A("hs")))), dh, ret, "handshake summary", "driveHandshake returns true on a path where tlsState is not Open",
                     okdesc="driveHandshake: return true ⇒ tlsState == Open")
    ds = _fn(ctx, "doSend")
    pa = PredAbs(ds, vocab, tls_leaf, eff, init=TLS_AXIOM)
    for e in _write_calls(ds):
        if e.node["callee"] == "SSL_write":
            r.instance()
            r.expect(pa.entails(e, And(A("tls"), A("open"))), ds, e, "SSL_write outside Open", "SSL_write reachable when the TLS session is not established",
                     okdesc="doSend: SSL_write only when tls && Open")
        else:
            r.instance()
            r.expect(pa.entails(e, Not(A("tls"))), ds, e, "plaintext on TLS session",
                     "the raw ::%s on the session descriptor is reachable for a session with TLS (known: %s): application bytes would leave in clear text or corrupt the handshake" % (
                         e.node["callee"], ",".join(pa.describe(e)) or "nothing"), okdesc="doSend: raw send only when tlsMode == None")
    # writePending: caller context from onSession
    os_ = _fn(ctx, "onSession")
    pa_os = PredAbs(os_, vocab, tls_leaf, eff, init=TLS_AXIOM)
    calls = [e for e in os_.stmts() if e.node.get("k") == "mcall" and e.node.get("callee") == TE + "::writePending"]
    callers = {f.name for (f, e, n) in ctx.cg().callers.get(TE + "::writePending", [])}
    r.instance()
    r.expect(callers == {TE + "::onSession"} and calls, os_, None, "writePending callers", "writePending is called from %s; its TLS-state precondition is established only in onSession" % sorted(callers),
             okdesc="writePending called only from onSession")
    pre = Not(And(A("tls"), A("hs")))
    for c in calls:
        r.instance()
        r.expect(pa_os.entails(c, pre), os_, c, "writePending during handshake", "onSession can call writePending while the TLS handshake is still in progress",
                 okdesc="onSession: writePending only after the handshake branch")
    wp = _fn(ctx, "writePending")
    pa_wp = PredAbs(wp, vocab, tls_leaf, eff, init=And(TLS_AXIOM, pre))
    for e in _write_calls(wp):
        r.instance()
        if e.node["callee"] == "SSL_write":
            r.expect(pa_wp.entails(e, And(A("tls"), A("open"))), wp, e, "SSL_write outside Open", "SSL_write reachable when not Open", okdesc="writePending: SSL_write only when tls && Open")
        else:
            r.expect(pa_wp.entails(e, Not(A("tls"))), wp, e, "plaintext on TLS session",
                     "the raw ::%s in writePending is reachable for a TLS session (known: %s)" % (e.node["callee"], ",".join(pa_wp.describe(e)) or "nothing"),
                     okdesc="writePending: raw send only when tlsMode == None")


# ------------------------------------------------------------------ R6

def r6(ctx, r):
    ra = _fn(ctx, "readAvail")
    reads = [e for e in ra.stmts() if e.node.get("k") == "call" and e.node.get("callee") in READ_CALLS]
    if len(reads) < 2:
        raise AnalysisBroken("readAvail: %d read calls" % len(reads))
    nvs = {_result_var(ra, w) for w in reads}
    if len(nvs) != 1 or None in nvs:
        raise AnalysisBroken("readAvail: read results are not kept in one variable")
    nv = nvs.pop()
    invs = [(e, t) for (e, t) in common.fn_invocations(ra)]
    r.instance()
    if len(invs) != 1:
        r.fail(ra, None, "data callback sites", "readAvail invokes the data callback at %d sites, expected exactly one per iteration" % len(invs))
        return
    inv = invs[0][0]
    bv = common.bufferview_args(inv.node)
    r.expect(bv == ["buf.data()", nv], ra, inv, "callback payload",
             "the data callback is not given (buf.data(), %s) of the read that just returned: %s" % (nv, show(inv.node)[:120]), okdesc="onData(buf.data(), n)")
    vocab = Vocab(["npos", "cb"])

    def leaf(n):
        if n.get("k") == "bin" and n["op"] in (">", "<=", "<", "=="):
            l, rr = strip_casts(n["lhs"]), strip_casts(n["rhs"])
            if l.get("k") == "var" and l["n"] == nv and const_value(rr) == 0:
                return {">": A("npos"), "<=": Not(A("npos")), "<": Not(A("npos")), "==": Not(A("npos"))}[n["op"]]
        if n.get("k") == "mcall" and last(n.get("callee", "")).startswith("operator bool") and (n.get("obj") or {}).get("k") == "var" and "std::function" in n["obj"].get("t", ""):
            return A("cb")
        return None

    def eff(e):
        if e in reads:
            return [("havoc", "npos")]
        return None
    pa = PredAbs(ra, vocab, leaf, eff, init=A("cb"))
    # a positive read always reaches the callback before the next read / the exit
    for rd in reads:
        r.instance()

        def goal(x):
            return (x in reads or False)
        w = None
        # paths from this read with npos to (next read | exit) that avoid the callback
        pa_pos = pa

        def edge_ok(b, si):
            return pa.edge_feasible(b, si)
        # force n > 0 after this read: separate abstraction
        def eff_pos(e, rd=rd):
            if e is rd:
                return [("set", "npos", True)]
            if e in reads:
                return [("havoc", "npos")]
            return None
        pa2 = PredAbs(ra, vocab, leaf, eff_pos, init=A("cb"))
        w = search(ra, rd, lambda x: x in reads, stop=lambda x: x is inv, eh=False, edge_ok=lambda b, si: pa2.edge_feasible(b, si))
        w = w or search(ra, rd, "exit", stop=lambda x: x is inv, eh=False, edge_ok=lambda b, si: pa2.edge_feasible(b, si))
        r.expect(w is None, ra, rd, "positive read not delivered", "bytes returned by %s (n > 0) can be discarded without reaching the data callback" % rd.node["callee"],
                 witness=witness_str(ra, w), okdesc="%s: n > 0 always reaches the data callback" % rd.node["callee"])
    # after delivering, the loop keeps reading (edge-triggered: drain until would-block)
    r.instance()
    w = search(ra, inv, "exit", stop=lambda x: x in reads or (x.kind == "stmt" and x.node.get("k") == "mcall" and x.node.get("callee") == TE + "::closeNow"), eh=False)
    r.expect(w is None, ra, inv, "read loop stops early", "after delivering a chunk readAvail can return without reading again: with edge-triggered epoll the rest of the data is never read",
             witness=witness_str(ra, w), okdesc="after onData the loop reads again")


# ------------------------------------------------------------------ R7

def r7(ctx, r):
    fb = ctx.fb()
    ds = _fn(ctx, "doSend")
    vocab = Vocab(["cob"])

    def leaf(n):
        if n.get("k") == "member" and n["n"].endswith("::closeOnBackpressure"):
            return A("cob")
        return None
    pa = PredAbs(ds, vocab, leaf, lambda e: None)
    pops = [e for e in ds.stmts() if _wq(e.node, ("pop_front", "pop_back", "erase", "clear"))]
    for e in pops:
        r.instance()
        r.expect(pa.entails(e, Not(A("cob"))), ds, e, "silent drop under default policy",
                 "queued data is dropped (wq.%s) on a path where closeOnBackpressure may be on: accepted bytes vanish without the session being reported closed" % _wq(e.node),
                 okdesc="oldest buffer dropped only when closeOnBackpressure is off")
    # default of the policy
    r.instance()
    dflt = common.field_default(fb, "TransportConfig", "closeOnBackpressure")
    r.expect(dflt == 1, ds, None, "closeOnBackpressure default", "TransportConfig::closeOnBackpressure does not default to true (found %r)" % dflt,
             okdesc="TransportConfig::closeOnBackpressure defaults to true")


def r8(ctx, r):
    """Sockets are edge-triggered: an event returned by epoll_wait is reported once.  In batched mode the events of one
    epoll_wait pass through EventBatchProcessor::processBatch — each must reach the special handler or the general handler,
    none may be dropped between collection and dispatch (a dropped EPOLLOUT strands a queued tail, a dropped EPOLLIN strands
    bytes the peer wrote, with the session open)."""
    fb = ctx.fb()
    EB = "iora::network::EventBatchProcessor"
    fs = [f for f in fb.funcs(EB + "::processBatch") if f.ok]
    if not fs:
        raise AnalysisBroken("EventBatchProcessor::processBatch not found")
    f = fs[0]
    params = {p_["n"]: p_ for p_ in f.params}
    gen = [n for n, p_ in params.items() if "EventHandler" in p_["t"] or n.lower().startswith("general")]
    spec = [n for n in params if n.lower().startswith("special")]
    if len(gen) != 1 or len(spec) != 1:
        raise AnalysisBroken("processBatch: general/special handler parameters not identified (%s)" % sorted(params))

    def calls_of(name):
        out = []
        for e in f.stmts():
            n = e.node
            if n.get("k") == "opcall" and n.get("op") == "()" and strip_casts(n["args"][0]).get("n") == name:
                out.append(e)
            if n.get("k") == "call" and strip_casts(n.get("fn") or {}).get("n") == name:
                out.append(e)
        return out
    gcalls, scalls = calls_of(gen[0]), calls_of(spec[0])
    if not gcalls or not scalls:
        raise AnalysisBroken("processBatch: handler invocations not found (%d general, %d special)" % (len(gcalls), len(scalls)))
    # the staging container: local vector filled in the collection loop and iterated by the dispatch loop
    fills = [e for e in f.stmts() if e.node.get("k") == "mcall" and last(e.node.get("callee", "")) in ("emplace_back", "push_back") and strip_casts(e.node.get("obj") or {}).get("k") == "var"
             and "vector" in (strip_casts(e.node["obj"]).get("t") or "")]
    r.instance()
    if not fills:
        # direct dispatch inside the collection loop: every iteration reaches one of the handlers
        raise AnalysisBroken("processBatch: no staging vector — a dispatch form this rule does not know")
    V = strip_casts(fills[0].node["obj"])
    # (a) in the collection loop an event not taken by the special handler is always staged
    for sc in scalls:
        r.instance()
        loops = [b for b in f.blocks.values() if b.term and b.term.get("k") in ("ForStmt", "WhileStmt", "CXXForRangeStmt") and b.cond is not None]
        w = search(f, sc, lambda x: x.kind == "stmt" and x.node.get("k") in ("un", "opcall") and x.node.get("op") in ("++", "pre++", "post++"), stop=lambda x: x in fills, eh=False,
                   edge_ok=lambda b, si, sc=sc: not (b.cond is not None and any(x.get("id") == sc.node.get("id") for x in walk(b.cond)) and si == 0))
        r.expect(w is None, f, sc, "event neither special nor staged", "an event the special handler declined can reach the next loop iteration without being staged for the general handler (%s)" % witness_str(f, w),
                 okdesc="declined events are always staged")
    # (b) nothing removes staged events before they are dispatched
    for e in f.stmts():
        n = e.node
        if n.get("k") == "mcall" and strip_casts(n.get("obj") or {}).get("d") == V.get("d") and last(n.get("callee", "")) in ("clear", "erase", "pop_back", "resize", "swap", "assign", "shrink_to_fit"):
            r.instance()
            r.fail(f, e, "staged events discarded", "processBatch calls %s.%s() between collecting the batch and dispatching it: the socket events in it are dropped — with edge-triggered polling they are never reported "
                   "again, so a queued tail is never written / bytes the peer wrote are never read while the session stays open" % (V.get("n"), last(n["callee"])))
        if n.get("k") in ("opcall", "bin") and n.get("op") == "=" and strip_casts(n["args"][0] if n.get("k") == "opcall" else n["lhs"]).get("d") == V.get("d"):
            r.instance()
            r.fail(f, e, "staged events discarded", "processBatch overwrites %s between collection and dispatch" % V.get("n"))
    # (c) the dispatch loop hands every staged element to the general handler: the call is on every path of the loop body
    for gc in gcalls:
        r.instance()
        lb = [b for b in f.blocks.values() if b.term and b.term.get("k") == "CXXForRangeStmt" and b.cond is not None and search(f, ("block", b.succs[0]), lambda x, gc=gc: x is gc, stop=lambda x, b=b: x.block is b, eh=False) is not None]
        if not lb:
            raise AnalysisBroken("processBatch: dispatch loop not identified")
        w = search(f, ("block", lb[0].succs[0]), lambda x, b=lb[0]: x.block is b, stop=lambda x, gc=gc: x is gc, eh=False)
        r.expect(w is None, f, gc, "staged event skipped", "the dispatch loop can pass over a staged event without calling the general handler (%s)" % witness_str(f, w), okdesc="every staged event reaches the general handler")


def run(ctx, ck):
    ck.run_rule("C01-R1", "only doSend/writePending write to a session's descriptor or SSL object", "A3 who-may-call", lambda r: r1(ctx, r))
    ck.run_rule("C01-R2", "accepted order = command-queue order = wire order", "A1 + A5 + A10", lambda r: r2(ctx, r))
    ck.run_rule("C01-R3", "nothing is lost or duplicated on a short or refused write", "A5 predicate abstraction + range shape", lambda r: r3(ctx, r))
    ck.run_rule("C01-R4", "every path that leaves data queued re-arms EPOLLOUT", "A2 must-pass + A5", lambda r: r4(ctx, r))
    ck.run_rule("C01-R5", "no plaintext write on a TLS session; SSL_write only when established", "A5 with checked session invariant", lambda r: r5(ctx, r))
    ck.run_rule("C01-R6", "the read loop delivers every positive read and drains until would-block", "A2 + A5", lambda r: r6(ctx, r))
    ck.run_rule("C01-R8", "batched mode: every event of an epoll batch reaches a handler exactly once", "A2 must-pass + who-may-mutate the staging vector", lambda r: r8(ctx, r))
    ck.run_rule("C01-R7", "queued data is dropped only when closeOnBackpressure is off (default on)", "A5 + A10", lambda r: r7(ctx, r))
