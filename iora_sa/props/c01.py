"""C01 — TCP/TLS sessions deliver sent bytes exactly once and in order (DESIGN.md §2 C01)."""
from .. import access
from ..cfg import search, witness_str, elem_dominates
from ..expr import show, walk, last, field_of, strip_wrappers, strip_casts, short, const_value, access_path
from ..facts import AnalysisBroken
from ..predabs import Vocab, PredAbs, A, Not, And, Or, T, translate, known_when, total
from ..rules import common

TITLE = "TCP/TLS sessions deliver sent bytes exactly once and in order"
TECHNIQUE = 'custom static analysis over clang-14 CFG facts: who-may-call over write primitives, must-pass-through (dominance) with ghost-atom predicate abstraction for pending/armed obligations, must-lockset'
TE = "iora::network::TcpEngine"
SESS = TE + "::Session"
FILE = "iora/network/detail/tcp_engine.hpp"
WRITE_CALLS = ("send", "SSL_write", "write", "sendto", "sendmsg", "writev", "pwrite", "sendfile")
READ_CALLS = ("recv", "SSL_read", "read", "recvfrom", "recvmsg")

EXPLANATION = (
    "Static obligations over tcp_engine.hpp: R1 the only functions that write a session's descriptor/SSL object are doSend and "
    "writePending (who-may-call); R2 commands are queued only in the _cmdMutex section that saw the queue open, leave the queue only by "
    "whole-deque swap and are processed front to back, the direct write that bypasses the per-session queue happens only when that queue "
    "is empty, whole payloads are queued at the back; R3 on every path after a write call the function either queued the unsent tail "
    "built from [begin+n,end) of the very result variable (front of the queue), queued the whole payload, closed the session, or the write "
    "was complete (predicate abstraction over {n>=0, n<size}); in writePending the queue front loses exactly [begin,begin+n) on a short "
    "write and is popped exactly on a full one; R4 every path that leaves data queued re-arms EPOLLOUT through updateInterest, and "
    "updateInterest sets EPOLLOUT whenever the queue is non-empty; R5 the raw ::send is reachable only when the session has no TLS "
    "(with the checked invariant tlsMode!=None ⇒ tlsState∈{Handshake,Open}); R6 the read loop hands every n>0 result to the data "
    "callback with that n and keeps reading until would-block/close; R7 the oldest queued buffer is dropped only when closeOnBackpressure is off. "
    "R2–R4 and R7 read doSend/writePending together with the non-virtual TcpEngine helpers and in-place lambdas they call: values are traced through "
    "parameters, lambda captures (a by-value copy taken before the variable is assigned is reported as stale), named locals and pure predicate helpers.")
# rules whose verdict stays a verdict when the code runs through helpers the inventory has never seen (report.py's guard does not
# downgrade their violations): they enter non-virtual TcpEngine helpers and in-place lambdas themselves (_events/_does/_may),
# bind parameters / captures / named locals to the caller's values (_resolve), and refuse (AnalysisBroken) where an anchor
# construct — the write call, the reference to wq.front(), the mask computation — is not where they can read it.
FOLLOWS_HELPERS = {
    "C01-R2": "(a)/(b) quantify over every access to _cmds in the header; the dispatch loop, the wq.empty() guard of the direct write and every wq insertion are followed into helpers and local lambdas with arguments bound to doSend's variables",
    "C01-R3": "queueing / closing / erasing statements are found in doSend's and writePending's helpers and local lambdas; the tail's range operands and the erase range are traced back through parameters, captures (by-value copies checked for staleness) and named locals to the write's own result variable",
    "C01-R4": "re-arm obligations follow a queue insertion out of the helper that holds it into its callers, and count a helper as re-arming only if every path through it does",
    "C01-R6": "the data-callback invocation is found in readAvail or in the helper it hands the chunk to; pointer and length are traced through the helper's parameters to the read's buffer and result; the read calls themselves must be in readAvail (else refusal)",
    "C01-R7": "queue removals are enumerated in doSend and every helper it enters; the policy test is carried into the helper from its call site",
}
NOT_DECIDED = ["that the kernel / OpenSSL deliver what they accepted", "(int)size truncation for buffers > 2 GiB",
               "interleavings of application threads beyond 'order = order of _cmdMutex acquisition'", "byte-exactness as such"]


def _fn(ctx, name):
    return ctx.fb().func(TE + "::" + name, file_suffix=FILE)


def _wq(n, methods=None):
    """member call on Session::wq"""
    if n.get("k") != "mcall" or field_of(n.get("obj")) != SESS + "::wq":
        return None
    m = last(n.get("callee", ""))
    return m if (methods is None or m in methods) else None


def _write_calls(f):
    return [e for e in f.stmts() if e.node.get("k") == "call" and e.node.get("callee") in WRITE_CALLS]


def _result_var(f, call_elem):
    """the local variable that receives the call's result (n = send(...); int n = send(...)): {"n": name, "d": declaration id}"""
    pid = f.parent.get(call_elem.node["id"])
    while pid is not None:
        p = f.nodes[pid]
        if p.get("k") == "cast":
            pid = f.parent.get(pid)
            continue
        if p.get("k") == "bin" and p["op"] == "=" and p["lhs"].get("k") == "var":
            return {"n": p["lhs"]["n"], "d": p["lhs"].get("d")}
        if p.get("k") == "decl":
            for v in p["vars"]:
                if v.get("init") is not None and any(x is call_elem.node for x in walk(v["init"])):
                    return {"n": v["n"], "d": v.get("d")}
        return None
    return None


# ------------------------------------------------------------------ following the code through helpers and named locals
#
# General mechanisms (nothing here knows a helper's or a local's name):
#  * _Frame / _enter / _events: a call to a non-virtual member function of TcpEngine defined in the same header, or to a lambda that is
#    defined in the calling function and invoked in place, is entered: its statements count as statements of the caller ("the helper
#    does X" = every path through it does X, _must; "may do X" = some statement in it does, _may).
#  * _resolve: a value written inside a helper or through a named local is expressed by what it was computed from — parameter ->
#    the caller's argument, by-reference capture -> the captured variable, by-value capture -> the captured variable IF nothing
#    assigns it between the creation of the lambda and the call (otherwise the copy is stale, and that is reported as such), local
#    that is never re-assigned -> its initialiser IF nothing the initialiser reads is changed between the declaration and the use.
#  * _inl: a condition spelled through a pure predicate function (`static bool f(const Session*) { return <expr>; }`) is read as
#    that expression.
#  * _Through: a predicate abstraction continued into a helper (entry state of the helper = what is known at its call).
#  * _PA: PredAbs plus local bool variables as atoms, identified by declaration and followed through `b = b || x`.

# functions whose role the rules state themselves (their bodies are judged by their own clauses, not re-read at each call)
_ATOMIC = {TE + "::" + x for x in ("closeNow", "updateInterest", "modEpoll", "driveHandshake", "doSend", "writePending", "readAvail", "process",
                                   "onSession", "enqueue", "send", "loop")}
_MAXDEPTH = 4
WQ_INSERTS = ("emplace_back", "push_back", "emplace_front", "push_front", "insert", "emplace")


class _Frame:
    """one activation on a chain of helper calls that starts in a rule's anchor function"""

    def __init__(self, fb, f, parent=None, call=None):
        self.fb, self.f, self.parent, self.call = fb, f, parent, call
        self.depth = 0 if parent is None else parent.depth + 1
        self.kids = {}

    def top(self, e):
        """the element of the anchor function during which element e of this frame runs"""
        fr, x = self, e
        while fr.parent is not None:
            fr, x = fr.parent, fr.call
        return x

    def root(self):
        fr = self
        while fr.parent is not None:
            fr = fr.parent
        return fr

    def where(self, e):
        s = "%s:%s" % (last(self.f.name.split("::$lambda")[0]) + ("::λ" if self.f.kind == "lambda" else ""), getattr(e, "line", 0))
        if self.parent is not None:
            s += " (called at %s)" % self.parent.where(self.call)
        return s


def _enter(fr, e):
    """the helper a call element enters, as a new frame; None for everything that is not followed"""
    if e.kind != "stmt" or fr.depth >= _MAXDEPTH:
        return None
    key = (e.block.id, e.idx)
    if key in fr.kids:
        return fr.kids[key]
    n, g = e.node, None
    k, c = n.get("k"), n.get("callee") or ""
    if k == "opcall" and n.get("op") == "()" and "$lambda" in c:
        for (ln, lf) in fr.f.lambdas:
            if lf.name == c and lf.ok:
                g = lf
        if g is None and c.startswith(TE + "::"):
            # a lambda invoked outside the function that defines it: what its captures denote cannot be established
            raise AnalysisBroken("%s invokes a lambda that is not defined in it (%s): the rule cannot bind its captures" % (short(fr.f.name), last(c)))
    elif k in ("mcall", "call") and c.startswith(TE + "::") and c not in _ATOMIC and not n.get("virt") and "$lambda" not in c:
        if k == "call" or strip_casts(n.get("obj") or {}).get("k") == "this":
            cands = [x for x in fr.fb.by_name.get(c, []) if x.ok and x.file.endswith(FILE) and len(x.params) == len(n.get("args", []))]
            if len({(x.file, x.line) for x in cands}) == 1:
                g = cands[0]
            elif cands:
                raise AnalysisBroken("call to %s: overloads cannot be told apart by arity" % short(c))
    if g is not None:
        a = fr
        while a is not None:        # recursion is not unrolled
            if a.f is g:
                g = None
                break
            a = a.parent
    ch = _Frame(fr.fb, g, fr, e) if g is not None else None
    fr.kids[key] = ch
    return ch


def _events(fr):
    """(frame, element) for every statement of the frame's function and, recursively, of the helpers it enters"""
    for e in fr.f.stmts():
        yield fr, e
        ch = _enter(fr, e)
        if ch is not None:
            for x in _events(ch):
                yield x


def _does(fr, e, pred):
    """element e does `pred` itself, or is a call into a helper every path of which does"""
    if pred(e):
        return True
    ch = _enter(fr, e)
    return ch is not None and _must(ch, pred)


def _must(fr, pred):
    c = fr.__dict__.setdefault("_must", {})
    if pred not in c:
        c[pred] = search(fr.f, ("entry",), "exit", stop=lambda x: _does(fr, x, pred), eh=False) is None
    return c[pred]


def _may(fr, e, pred):
    """element e does `pred` itself, or enters a helper some statement of which does"""
    if pred(e):
        return True
    ch = _enter(fr, e)
    return ch is not None and any(pred(x) for (_, x) in _events(ch))


def _decls(f):
    c = f.__dict__.get("_c01_decls")
    if c is None:
        c = {}
        for e in f.stmts():
            if e.node.get("k") == "decl":
                for v in e.node["vars"]:
                    c.setdefault(v.get("d"), (e, v))
        f.__dict__["_c01_decls"] = c
    return c


def _moved_from(f, n):
    """the variable / field node n is (part of) the operand of std::move"""
    pid, child = f.parent.get(n.get("id")), n
    while pid is not None:
        p = f.nodes[pid]
        if p.get("k") == "cast" or (p.get("k") == "member" and p.get("b") is child):
            child, pid = p, f.parent.get(pid)
            continue
        return p.get("k") == "call" and p.get("callee") in ("std::move", "std::forward")
    return False


def _kills(f, vs=(), flds=(), skip=None, through=True):
    """elements of f that may change one of the locals `vs` (declaration ids) or one of the fields `flds`: assignment, ++/--,
    mutating member call, address taken, moved from, written inside a lambda that captures it by reference.  through=False: a
    write to a sub-object reached through the variable (`s->x = …`, `sr.a.clear()`) is not a change of the variable (it is found
    through `flds` when the field matters)"""
    inside = {id(x) for x in walk(skip)} if skip is not None else set()
    out = []
    for n in f.nodes.values():
        k = n.get("k")
        if not ((k == "var" and n.get("d") in vs) or (k == "member" and n.get("n") in flds)) or id(n) in inside:
            continue
        if k == "var" and not through:
            par = f.nodes.get(f.parent.get(n.get("id")))
            if par is not None and par.get("k") == "member" and par.get("b") is n:
                continue
        if access.classify(f, n) in ("write", "rw", "addr") or _moved_from(f, n):
            e = f.elem_for(n)
            if e is not None:
                out.append(e)
    for (ln, lf) in f.lambdas:
        for c in ln.get("caps", []):
            if c.get("d") in vs and c.get("by") == "ref" and lf.ok:
                if any(x.get("k") == "var" and x.get("cap") and x.get("n") == c.get("n") and
                       (access.classify(lf, x) in ("write", "rw", "addr") or _moved_from(lf, x)) for x in lf.nodes.values()):
                    e = f.elem_for(ln)
                    if e is not None:
                        out.append(e)
    return out


def _own_kills(f, node_or_var):
    """elements that change what the variable itself holds / denotes: none for a reference (it cannot be re-bound; writes through it
    change the object it aliases, which is what its initialiser / argument denotes too), re-assignment only for a pointer, any
    write for a value"""
    t = (node_or_var.get("t") or "").rstrip()
    if t.endswith("&"):
        return []
    return _kills(f, vs={node_or_var.get("d")}, through=not t.endswith("*"))


def _between(f, a, k, b):
    """element k can run after a and before b (on a path that does not pass a again)"""
    if k is a or k is b:
        return False
    if k.kind == "stmt" and b.kind == "stmt" and isinstance(k.node, dict) and isinstance(b.node, dict) and k.node.get("id") is not None and b.node.get("id") is not None:
        rk, rb = f.root_elem(k.node), f.root_elem(b.node)
        if rk is not None and rk is rb:
            return False        # same full statement (`q.push(std::move(x))`: x is read by the statement that moves from it)
    return search(f, a, lambda x: x is k, stop=lambda x: x is b, eh=False) is not None and \
        search(f, k, lambda x: x is b, stop=lambda x: x is a, eh=False) is not None


def _resolve(fr, node, at=None):
    """(frame, node, at, stale): `node` (evaluated at element `at` of frame `fr`) expressed by what it was computed from — see the
    section comment.  stale is None, or a description when the value is a by-value lambda capture of a variable that is assigned
    between the creation of the lambda and this invocation (the copy does not hold the variable's current value)."""
    stale = None
    if at is None and node is not None and node.get("id") is not None:
        at = fr.f.elem_for(node)
    for _ in range(24):
        node = strip_wrappers(node)
        if node is None:
            break
        if node.get("k") == "ctor" and node.get("copy"):
            args = [a for a in node.get("args", []) if not a.get("def")]
            if len(args) == 1:
                node = args[0]
                continue
        if node.get("k") != "var":
            break
        f = fr.f
        if node.get("cap"):
            if f.kind != "lambda" or fr.parent is None or getattr(f, "lambda_node", None) is None:
                break
            cap = next((c for c in f.lambda_node.get("caps", []) if c.get("n") == node["n"] and "d" in c), None)
            if cap is None or (cap.get("by") == "copy" and _own_kills(f, node)):
                break
            pf = fr.parent.f
            if cap.get("by") == "copy":
                made = pf.elem_for(f.lambda_node)
                ws = [k for k in _kills(pf, vs={cap["d"]}, through="*" not in (node.get("t") or "")) if made is not None and _between(pf, made, k, fr.call)]
                if made is None:
                    break
                if ws:
                    stale = {"var": cap["n"], "captured_at": made.line or f.line, "assigned_at": sorted({k.line for k in ws}), "invoked_at": fr.call.line}
            node = {"k": "var", "n": cap["n"], "d": cap["d"], "t": node.get("t")}
            at, fr = fr.call, fr.parent
            if stale:
                break
            continue
        if "parm" in node:
            if fr.parent is None or _own_kills(f, node):
                break
            args = fr.call.node.get("args", [])
            if f.kind == "lambda":
                args = args[1:]
            if node["parm"] >= len(args):
                break
            node, at, fr = args[node["parm"]], fr.call, fr.parent
            continue
        dv = _decls(f).get(node.get("d"))
        if dv is None or at is None:
            break
        de, v = dv
        init = v.get("init")
        if init is None:
            break       # (a reference local is an alias of what it was bound to: same treatment, same checks)
        if any(k is not de and _between(f, de, k, at) for k in _own_kills(f, v)):
            break
        vs = {x["d"] for x in walk(init) if x.get("k") == "var" and "d" in x}
        flds = {x["n"] for x in walk(init) if x.get("k") == "member"}
        if any(_between(f, de, k, at) for k in _kills(f, vs=vs, flds=flds, skip=init, through=False)):
            break
        node = init
    return fr, node, at, stale


def _val(fr, node, at=None):
    """_resolve, value only (casts removed); None when the value is a stale copy"""
    fr2, n2, at2, stale = _resolve(fr, node, at)
    return None if stale else strip_casts(n2)


def _is_var(fr, node, var, at=None):
    """node holds, where it is evaluated, the current value of local `var` ({"n","d"}) of the anchor function"""
    fr2, n2, at2, stale = _resolve(fr, node, at)
    n2 = strip_casts(n2)
    return stale is None and fr2.parent is None and n2 is not None and n2.get("k") == "var" and n2.get("d") == var["d"] and n2.get("n") == var["n"]


def _is_field(fr, node, suffix, at=None):
    """node denotes (through parameters, captures, copies) an object reached through the field …suffix"""
    n2 = _val(fr, node, at)
    return n2 is not None and n2.get("k") == "member" and n2.get("n", "").endswith(suffix)


def _unwrap_iter(n):
    while True:
        n = strip_wrappers(n)
        if n is not None and n.get("k") == "ctor" and "__normal_iterator" in (n.get("cls") or "") + (n.get("t") or ""):
            args = [a for a in n.get("args", []) if not a.get("def")]
            if len(args) == 1:
                n = args[0]
                continue
        return n


def _range_start(n):
    """(container expression, offset expression | None) of `C.begin()`, `C.begin() + N`, `N + C.begin()`, `std::next(C.begin(), N)`"""
    n = _unwrap_iter(n)
    if n is None:
        return None

    def begin_of(x):
        x = _unwrap_iter(x)
        if x is not None and x.get("k") == "mcall" and last(x.get("callee", "")) in ("begin", "cbegin") and not [a for a in x.get("args", []) if not a.get("def")]:
            return x.get("obj")
        return None
    c = begin_of(n)
    if c is not None:
        return c, None
    parts = None
    if n.get("k") == "opcall" and n.get("op") == "+" and len(n.get("args", [])) == 2:
        parts = n["args"]
    elif n.get("k") == "bin" and n.get("op") == "+":
        parts = [n["lhs"], n["rhs"]]
    elif n.get("k") == "call" and n.get("callee") in ("std::next", "std::advance") and len([a for a in n["args"] if not a.get("def")]) == 2:
        parts = n["args"][:2]
    if parts:
        for (a, b) in ((parts[0], parts[1]), (parts[1], parts[0])):
            c = begin_of(a)
            if c is not None:
                return c, b
    return None


def _range_end(n):
    n = _unwrap_iter(n)
    if n is not None and n.get("k") == "mcall" and last(n.get("callee", "")) in ("end", "cend") and not [a for a in n.get("args", []) if not a.get("def")]:
        return n.get("obj")
    return None


_PRED_BODY = {}


def _subst_params(n, args):
    if not isinstance(n, dict):
        return n
    if n.get("k") == "var" and "parm" in n and not n.get("cap"):
        return args[n["parm"]] if n["parm"] < len(args) else n
    out = {}
    for k, v in n.items():
        if k == "id":
            continue        # the copy belongs to no function: nothing may look it up by id
        if isinstance(v, dict):
            out[k] = _subst_params(v, args)
        elif isinstance(v, list):
            out[k] = [_subst_params(x, args) if isinstance(x, dict) else x for x in v]
        else:
            out[k] = v
    return out


def _pred_body(fb, call):
    """return expression of a pure predicate helper (bool, one statement: `return <expr>;`) with the call's arguments substituted"""
    c, args = call.get("callee") or "", call.get("args", [])
    key = (id(fb), c, len(args))
    if key not in _PRED_BODY:
        body = None
        cands = [g for g in fb.by_name.get(c, []) if g.ok and g.file.endswith(FILE) and len(g.params) == len(args) and g.raw.get("ret") == "bool"]
        if len({(g.file, g.line) for g in cands}) == 1:
            roots = [e for e in cands[0].stmts() if "root" in e.raw]
            if len(roots) == 1 and roots[0].node.get("k") == "ret" and isinstance(roots[0].node.get("v"), dict):
                body = roots[0].node["v"]
        _PRED_BODY[key] = body
    body = _PRED_BODY[key]
    return None if body is None else _subst_params(body, args)


def _inl(fb, leaf):
    """leaf that reads a call to a pure predicate helper as the helper's return expression"""
    depth = [0]

    def leaf2(n):
        r = leaf(n)
        if r is not None:
            return r
        if n.get("k") in ("call", "mcall") and (n.get("callee") or "").startswith(TE + "::") and n.get("callee") not in _ATOMIC and not n.get("virt") and depth[0] < 3:
            body = _pred_body(fb, n)
            if body is not None:
                depth[0] += 1
                try:
                    return translate(body, leaf2)
                finally:
                    depth[0] -= 1
        return None
    return leaf2


class _PA(PredAbs):
    """PredAbs with one more effect, ('assign2', atom, may_true, may_false): the atom becomes true in the states (before the
    assignment) that satisfy may_true and false in those that satisfy may_false; a state may satisfy both (unknown operand)"""

    def _apply(self, st, ops):
        v = self.v
        for op in ops or ():
            if op[0] == "assign2":
                st = v.set(st & v.mask(op[2]), op[1], True) | v.set(st & v.mask(op[3]), op[1], False)
            else:
                st = PredAbs._apply(self, st, [op])
        return st


def _with_bools(f, atoms, leaf, effects):
    """(vocab, leaf, effects) extended by one atom per local bool of f — identified by its declaration, whatever it is called —
    that follows initialisation and re-assignment (`b = b || x`, `b |= x`) exactly as far as the operands are known"""
    bools = {}
    for e in f.stmts():
        if e.node.get("k") == "decl":
            for v in e.node["vars"]:
                if (v.get("t") or "").replace("const", "").strip() == "bool" and v.get("d") is not None:
                    bools[v["d"]] = "b%s" % v["d"]
    if len(atoms) + len(bools) > 11:
        raise AnalysisBroken("%s: %d local bool variables — more than the predicate abstraction tracks" % (short(f.name), len(bools)))

    def leaf2(n):
        r = leaf(n)
        if r is None and n.get("k") == "var" and n.get("d") in bools and not n.get("cap"):
            return A(bools[n["d"]])
        return r

    def assign(atom, fm):
        if fm is None:
            return ("havoc", atom)
        return ("assign2", atom, known_when(fm, True), known_when(fm, False))

    def eff(e):
        ops = list(effects(e) or [])
        if e.kind != "stmt":
            return ops
        n = e.node
        if n.get("k") == "decl":
            for v in n["vars"]:
                a = bools.get(v.get("d"))
                if a:
                    ops.append(assign(a, translate(v["init"], leaf2)) if v.get("init") is not None else ("havoc", a))
        elif n.get("k") == "bin" and n["op"] in ("=", "|=", "&=", "^=") and strip_casts(n["lhs"]).get("k") == "var" and strip_casts(n["lhs"]).get("d") in bools:
            a = bools[strip_casts(n["lhs"])["d"]]
            rhs = translate(n["rhs"], leaf2)
            if n["op"] == "=":
                ops.append(assign(a, rhs))
            elif n["op"] == "|=":
                ops.append(assign(a, ("or?", A(a), rhs)))
            elif n["op"] == "&=":
                ops.append(assign(a, ("and?", A(a), rhs)))
            else:
                ops.append(("havoc", a))
        return ops
    return Vocab(list(atoms) + sorted(bools.values())), leaf2, eff


class _Through:
    """a predicate abstraction continued into helpers: mk(frame, init) builds the abstraction of one frame; the entry state of a
    helper's frame is what is known just before its call"""

    def __init__(self, mk):
        self.mk, self.c = mk, {}

    def pa(self, fr):
        if id(fr) not in self.c:
            init = None
            if fr.parent is not None:
                # (atoms of the caller's own bool locals — "b:name:decl", PredAbs track_bools — mean nothing in the helper)
                lits = [x for x in self.pa(fr.parent).describe(fr.call) if not x.lstrip("!").startswith("b:")]
                init = And(*[Not(A(x[1:])) if x.startswith("!") else A(x) for x in lits])
            self.c[id(fr)] = self.mk(fr, init)
        return self.c[id(fr)]

    def entails(self, fr, e, fm):
        return self.pa(fr).entails(e, fm)

    def describe(self, fr, e):
        return self.pa(fr).describe(e)


def _at_most(fr, x, at, is_size):
    """x is the size expression itself or std::min(…) of it and anything else: a length that cannot exceed the buffer (writing
    less than everything is harmless as long as the short-write test compares with the full size — which the pos/partial atoms check)"""
    x = _val(fr, x, at)
    if x is None:
        return False
    if is_size(fr, x, at):
        return True
    if x.get("k") == "call" and x.get("callee") in ("std::min",):
        return any(_at_most(fr, a, at, is_size) for a in x.get("args", []) if not a.get("def"))
    return False


def _wq_mutates(e):
    return e.kind == "stmt" and _wq(e.node) in access.MUTATORS


def _wq_inserts(e):
    return e.kind == "stmt" and bool(_wq(e.node, WQ_INSERTS))


def _closes(e):
    return e.kind == "stmt" and e.node.get("k") == "mcall" and e.node.get("callee") == TE + "::closeNow"


def _rearms(e):
    return e.kind == "stmt" and e.node.get("k") == "mcall" and e.node.get("callee") in (TE + "::updateInterest", TE + "::closeNow")


def _queues_or_closes(e):
    return e.kind == "stmt" and (bool(_wq(e.node, ("emplace_back", "push_back", "emplace_front", "push_front"))) or _closes(e))


def _queued_what(fr, e):
    """what a write-queue insertion puts into the queue: ('whole',) — the request's payload; ('range', first, last, frame, at) — a
    buffer built from an iterator range; ('other',)"""
    args = [a for a in e.node.get("args", []) if not a.get("def")]
    if _wq(e.node) in ("insert", "emplace") and args:
        args = args[1:]         # position argument
    if len(args) == 1:
        fr2, n2, at2, stale = _resolve(fr, args[0], e)
        n2 = strip_casts(n2)
        if n2 is not None and n2.get("k") == "member" and n2.get("n", "").endswith("SendReq::payload"):
            return ("whole",)
        if n2 is not None and n2.get("k") == "ctor" and "vector" in (n2.get("cls") or "") + (n2.get("t") or ""):
            ca = [a for a in n2.get("args", []) if not a.get("def")]
            if len(ca) == 2:
                return ("range", ca[0], ca[1], fr2, at2)
    elif len(args) == 2 and _wq(e.node) in ("emplace_back", "emplace_front", "emplace"):
        return ("range", args[0], args[1], fr, e)
    return ("other",)


def _entries_outside(fb, cg, callee, root, _seen=None):
    # (root: one qualified name or a collection of them)
    if not isinstance(root, str):
        root = set(root)
        if callee in root:
            return set()
    """names of the functions through which `callee` can be entered other than from `root`: a caller is accepted when it is `root`,
    or a non-public, non-virtual member function of TcpEngine (a helper that holds part of root's body) every caller of which is
    accepted in turn; anything else — a public entry point, a lambda, a function nobody calls, another class — is an outside entry"""
    seen = _seen if _seen is not None else set()
    bad = set()
    callers = {f.name: f for (f, e, n) in cg.callers.get(callee, [])}
    if not callers:
        return {"(no caller)"}
    for name, f in callers.items():
        if name == root or (not isinstance(root, str) and name in root) or name in seen:
            continue
        seen.add(name)
        helper = f.kind != "lambda" and "$lambda" not in name and name.startswith(TE + "::") and f.file.endswith(FILE) and f.access in ("private", "protected") and \
            not f.raw.get("virtual") and not f.raw.get("overrides") and name not in cg.overriders
        if not helper:
            bad.add(name)
            continue
        sub = _entries_outside(fb, cg, name, root, seen)
        bad |= ({name} if sub == {"(no caller)"} else sub)
    return bad


# ------------------------------------------------------------------ R1

def r1(ctx, r):
    fb = ctx.fb()
    allowed = {TE + "::doSend", TE + "::writePending"}
    n = 0
    for f in fb.in_file(FILE):
        if not f.ok:
            continue
        for e in _write_calls(f):
            a0 = e.node["args"][0] if e.node["args"] else None
            fld = field_of(a0) if a0 is not None else None
            if fld in (TE + "::_eventFd",):
                r.note("%s: write to _eventFd (wake-up descriptor, not a session)" % short(f.name))
                continue
            n += 1
            r.instance()
            r.expect(f.name in allowed, f, e, "%s outside the write path" % e.node["callee"],
                     "%s(%s…) writes to a session descriptor outside doSend/writePending: bytes reach the wire that are not the queue's" % (
                         e.node["callee"], show(a0)), okdesc="%s: %s(%s, …)" % (short(f.name), e.node["callee"], show(a0)))
    r.floor(4, "session write sites")
    # the write path is entered only through the command queue (doSend from process, writePending from the epoll handler):
    # a direct call from send()/a callback path would overtake commands that were accepted earlier
    cg = ctx.cg()
    # (a private helper that holds part of the dispatcher's body — `process` -> `dispatchCommand` -> doSend — is the dispatcher as
    # long as nothing else can call it: _entries_outside)
    for callee, root_ in ((TE + "::doSend", TE + "::process"), (TE + "::writePending", TE + "::onSession")):
        outside = _entries_outside(fb, cg, callee, root_)
        r.instance()
        r.expect(not outside, callee, None, "%s called outside the dispatch" % last(callee),
                 "%s is called from %s; it may only be reached through %s — any other entry bypasses the FIFO command queue that defines the order of accepted sends" % (
                     last(callee), sorted(short(c) for c in outside), [short(root_)]),
                 okdesc="%s reached only through %s" % (last(callee), short(root_)))
    # send() itself only copies and enqueues
    snd = fb.func(TE + "::send", file_suffix=FILE)
    r.instance()
    enq = [e for e in snd.stmts() if e.node.get("k") == "mcall" and e.node.get("callee") == TE + "::enqueue"]
    # (the one exception: the guard for an empty payload — a test `<length parameter> == 0`, whatever the parameter is called)
    # the length parameter is the integer parameter that is used together with the data pointer (directly or through a local
    # initialised from it) in one call / construction — memcpy(dst, data, n), ByteBuffer(p, p + n), …
    ptrs = {p_["d"] for p_ in snd.params if "*" in (p_.get("t") or "") and p_.get("d") is not None}
    for (de, v) in _decls(snd).values():
        if v.get("init") is not None and any(x.get("k") == "var" and x.get("d") in ptrs for x in walk(v["init"])):
            ptrs.add(v.get("d"))
    lens = set()
    for x in snd.nodes.values():
        if x.get("k") in ("call", "mcall", "ctor", "opcall"):
            vs = {y.get("d") for a in x.get("args", []) for y in walk(a) if y.get("k") == "var"}
            if vs & ptrs:
                lens |= {p_["d"] for p_ in snd.params if p_.get("d") in vs and "*" not in (p_.get("t") or "") and "&" not in (p_.get("t") or "")}

    def empty_payload_edge(b, si):
        cp = common.cmp_parts(strip_casts(b.cond)) if b.cond is not None else None
        if not cp or cp[0] != "==" or b.edge_label(si) is not True:
            return False
        l, rr = strip_casts(cp[1]), strip_casts(cp[2])
        return l.get("k") == "var" and "parm" in l and l.get("d") in lens and rr.get("k") == "int" and const_value(rr) == 0
    w = search(snd, ("entry",), "exit", stop=lambda x: x in enq, eh=False, edge_ok=lambda b, si: not empty_payload_edge(b, si))
    r.expect(bool(enq) and w is None, snd, None, "send does not enqueue", "a path through TcpEngine::send accepts data without enqueueing a send command", witness=witness_str(snd, w),
             okdesc="send(): every non-empty payload is enqueued")
    # … and as ONE command: the command queue's lock is taken per enqueue, so a payload spread over several commands can be
    # interleaved with another thread's send on the same session
    r.instance()
    w2 = None
    for a in enq:
        w2 = w2 or search(snd, a, lambda x: x in enq, eh=False)
    r.expect(w2 is None, snd, enq[0] if enq else None, "one send, several commands", "a path through TcpEngine::send enqueues more than one command for one payload (%s): _cmdMutex is released between them, so another thread's send "
             "on the same session can land in between — the peer receives the two payloads interleaved" % (witness_str(snd, w2) if w2 else ""), okdesc="send(): at most one command per call")


# ------------------------------------------------------------------ R2

def r2(ctx, r):
    fb, la = ctx.fb(), ctx.locks()
    CM, CMDS = TE + "::_cmdMutex", TE + "::_cmds"
    # (a) pushes under the lock that saw the queue open
    pushes = 0
    for f in fb.funcs(TE + "::enqueue", FILE):
        vocab = Vocab(["closed"])

        def leaf(n):
            if n.get("k") == "member" and n["n"] == TE + "::_cmdsClosed":
                return A("closed")
            return None

        def effects(e):
            if e.kind == "dtor" and e.raw.get("t", "").startswith(("std::lock_guard", "std::unique_lock", "std::scoped_lock", "std::shared_lock")):
                return [("havoc", "closed")]
            return None
        pa = PredAbs(f, vocab, leaf, effects)
        for e in common.member_calls_on(f, CMDS):
            m = last(e.node["callee"])
            if m in ("push_back", "emplace_back"):
                pushes += 1
                r.instance()
                r.expect(la.holds(f, e, CM) and pa.entails(e, Not(A("closed"))), f, e, "push without closed test",
                         "a command is queued without _cmdMutex held or without having seen _cmdsClosed false in that critical section",
                         okdesc="enqueue: push_back under _cmdMutex after !_cmdsClosed")
            elif m in access.MUTATORS:
                r.instance()
                r.fail(f, e, "_cmds.%s in enqueue" % m, "commands must enter the queue at the back only")
    if pushes < 2:
        raise AnalysisBroken("enqueue overloads: %d push sites found, expected 2" % pushes)
    # (b) commands leave the queue only by whole-deque swap in process / shutdownDrain
    for (f, e, n, kind) in access.accesses(fb, CMDS, [FILE]):
        if kind not in ("write", "rw") or f.name == TE + "::enqueue":
            continue
        r.instance()
        par = f.nodes.get(f.parent.get(n["id"]))
        isswap = par is not None and par.get("k") == "mcall" and last(par.get("callee", "")) == "swap"
        takers = (TE + "::process", TE + "::shutdownDrain")
        # (the swap may be held by a private helper — `process` -> `takeAll()` — that nothing else can call: _entries_outside)
        intaker = f.name in takers or (isswap and f.kind != "lambda" and f.access in ("private", "protected") and not _entries_outside(fb, ctx.cg(), f.name, takers))
        r.expect(isswap and intaker and la.holds(f, e, CM), f, e, "_cmds mutated",
                 "the command queue is modified by something other than enqueue's push_back or the whole-deque swap in process()/shutdownDrain() under _cmdMutex",
                 okdesc="%s: _cmds swapped out whole under _cmdMutex" % short(f.name))
    proc = _fn(ctx, "process")
    begins = [e for e in proc.stmts() if e.node.get("k") == "mcall" and last(e.node.get("callee", "")) in ("begin", "rbegin", "cbegin", "crbegin")
              and (e.node.get("obj") or {}).get("k") == "var"]
    if not begins:
        # the dispatch loop may live in a helper that is handed the swapped-out deque: iteration starts found there count when
        # the container they are called on is (through parameters / references) process()'s local deque
        swapped = set()
        for e in proc.stmts():
            if e.node.get("k") == "mcall" and last(e.node.get("callee", "")) == "swap":
                for x in [e.node.get("obj")] + list(e.node.get("args", [])):
                    x = strip_wrappers(x)
                    if x is not None and x.get("k") == "var" and x.get("d") is not None:
                        swapped.add(x["d"])
        for (fr, e) in _events(_Frame(fb, proc)):
            if fr.parent is not None and e.node.get("k") == "mcall" and last(e.node.get("callee", "")) in ("begin", "rbegin", "cbegin", "crbegin"):
                fr2, n2, at2, stale = _resolve(fr, e.node.get("obj"), e)
                n2 = strip_casts(n2)
                if fr2.parent is None and n2 is not None and n2.get("k") == "var" and n2.get("d") in swapped:
                    begins.append(e)
    r.instance()
    r.expect(len(begins) >= 1 and all(last(e.node["callee"]) in ("begin", "cbegin") for e in begins), proc, begins[0] if begins else None,
             "dispatch order", "process() does not iterate the swapped-out commands front to back", okdesc="process(): range-for from begin()")
    # (c)+(d) in doSend — and in whatever helpers / local lambdas doSend runs through (_events)
    ds = _fn(ctx, "doSend")
    root = _Frame(fb, ds)
    vocab = Vocab(["wqempty"])

    def leaf2(n):
        if _wq(n, ("empty",)):
            return A("wqempty")
        return None

    def mk(fr, init):
        def eff2(e):
            if e.kind == "stmt" and _may(fr, e, _wq_mutates):
                return [("havoc", "wqempty")]
            return None
        return PredAbs(fr.f, vocab, _inl(fb, leaf2), eff2, init=init if init is not None else T, track_bools=True)
    thr = _Through(mk)
    for e in _write_calls(ds):
        r.instance()
        r.expect(thr.entails(root, e, A("wqempty")), ds, e, "direct write with queued data",
                 "doSend writes the new payload straight to the socket although earlier payloads may still be queued: bytes overtake queued ones",
                 okdesc="direct %s only when wq is empty" % e.node["callee"])
    ins = [(fr, e) for (fr, e) in _events(root) if _wq_inserts(e)]
    if len(ins) < 3:
        r.fail(ds, None, "payload not queued", "doSend has fewer than three queueing sites (handshake, tail after partial write, would-block)")
    for (fr, e) in ins:
        m = _wq(e.node)
        # what is queued is decided from where the argument comes from (parameter -> argument, capture -> variable, local -> initialiser)
        whole = _queued_what(fr, e)[0] == "whole"
        known_empty = thr.entails(fr, e, A("wqempty"))
        r.instance()
        if whole:
            r.expect(m in ("emplace_back", "push_back"), fr.f, e, "payload queued at front",
                     "a whole new payload is queued with %s: it would be sent before payloads accepted earlier" % m, okdesc="whole payload queued at the back")
        else:
            r.expect(m in ("emplace_front", "push_front") and known_empty, fr.f, e, "tail not at front",
                     "the unsent tail of a partially written payload is queued with %s %s: it must go to the front of an otherwise empty queue%s" % (
                         m, "" if known_empty else "(queue not known empty)", "" if fr.parent is None else " [%s]" % fr.where(e)), okdesc="unsent tail queued at the front of the empty queue")


# ------------------------------------------------------------------ R3

def _pos_partial_leaf(fr, nv, is_size):
    """atoms for the result variable nv ({"n","d"}) of a write call: pos = `nv >= 0`, partial = `nv < <size of what was written>`.
    Both operands are read through casts, named locals and helper parameters (_resolve), so `const size_t sent = size_t(n); if (sent < total)`
    is the same test as `if (size_t(n) < payload.size())`.  is_size(frame, node, at) recognises the size expression."""
    def leaf(n):
        if n.get("k") == "bin" and n["op"] in (">", ">=", "<", "<=", "==", "!="):
            at = fr.f.elem_for(n) if n.get("id") is not None else None
            if not _is_var(fr, n["lhs"], nv, at):
                return None
            rr = _val(fr, n["rhs"], at)
            if rr is None:
                return None
            if rr.get("k") == "int" and const_value(rr) == 0:
                # n > 0 / n == 0 imply n >= 0 but their negations do not refute it (and vice versa for n <= 0): partial formulas
                return {">=": A("pos"), "<": Not(A("pos")), ">": ("and?", A("pos"), None), "==": ("and?", A("pos"), None),
                        "<=": Not(("and?", A("pos"), None)), "!=": Not(("and?", A("pos"), None))}[n["op"]]
            if is_size(fr, rr, at):
                if n["op"] == "<":
                    return A("partial")
                if n["op"] in (">=", "=="):
                    return Not(A("partial"))
                if n["op"] == "!=":
                    return None
        return None
    return leaf


def r3(ctx, r):
    fb = ctx.fb()
    ds = _fn(ctx, "doSend")
    root = _Frame(fb, ds)

    def is_payload_size(fr, x, at):
        return x.get("k") == "mcall" and last(x.get("callee", "")) == "size" and _is_field(fr, x.get("obj"), "SendReq::payload", at)
    wcalls = _write_calls(ds)
    if not wcalls:
        raise AnalysisBroken("doSend: no direct write call found (moved into a helper?) — the short-write clauses have nothing to anchor on")
    for w in wcalls:
        nv = _result_var(ds, w)
        if nv is None:
            r.instance()
            r.fail(ds, w, "write result dropped", "the result of %s is not kept: a short or refused write cannot be handled" % w.node["callee"])
            continue
        # the bytes offered to the socket are the request's payload from its first byte: data() of SendReq::payload and a length that
        # is its size() or min(size(), …) (read through named locals such as `const size_t total = sr.payload.size()`)
        r.instance()
        wa = [_val(root, x, w) for x in w.node["args"]]
        okd = any(x is not None and x.get("k") == "mcall" and last(x.get("callee", "")) == "data" and _is_field(root, x.get("obj"), "SendReq::payload", w) for x in wa)
        oks = any(_at_most(root, x, w, is_payload_size) for x in w.node["args"])
        r.expect(okd and oks, ds, w, "writes other bytes", "%s in doSend is not given the payload's data() and a length bounded by its size() (%s): the short-write handling below counts from the payload's first byte" % (
            w.node["callee"], ", ".join(show(x) for x in w.node["args"][1:3])), okdesc="%s(payload.data(), payload.size())" % w.node["callee"])
        vocab = Vocab(["pos", "partial", "pending"])

        def mk(fr, init, w=w, nv=nv):
            def effects(e):
                if e is w:
                    # ghost atom: bytes handed to the write call are not yet accounted for
                    return [("havoc_all", ["pos", "partial"]), ("set", "pending", True)]
                if fr.parent is None and e.kind == "stmt" and e.node.get("k") == "bin" and e.node["op"].endswith("=") and e.node["op"] not in ("==", "!=", "<=", ">=") and \
                        e.node["lhs"].get("k") == "var" and e.node["lhs"].get("d") == nv["d"] and not any(x is w.node for x in walk(e.node)):
                    return [("havoc_all", ["pos", "partial"])]
                # queued (by the statement itself or by a helper every path of which queues) or closed
                if e.kind == "stmt" and _does(fr, e, _queues_or_closes):
                    return [("set", "pending", False)]
                return None
            return PredAbs(fr.f, vocab, _pos_partial_leaf(fr, nv, is_payload_size), effects, init=init if init is not None else Not(A("pending")), track_bools=True)
        thr = _Through(mk)
        pa = thr.pa(root)
        # at the function exit: nothing pending, unless the write was complete (n >= 0 and not short)
        r.instance()
        goal = Or(Not(A("pending")), And(A("pos"), Not(A("partial"))))
        bad = None
        for ret in common.returns(ds):
            if not pa.entails(ret, goal):
                bad = ret
                break
        if bad is None and not pa.exit_entails(goal):
            bad = "end"
        r.expect(bad is None, ds, bad if bad not in (None, "end") else w, "%s: bytes dropped" % w.node["callee"],
                 "after %s the function can return (line %s) with the payload neither queued, nor the session closed, nor the write known complete "
                 "(known there: %s): bytes of an accepted send are lost" % (w.node["callee"], getattr(bad, "line", "end"),
                                                                          ",".join(pa.describe(bad)) if bad not in (None, "end") else ",".join(pa.describe_exit())),
                 okdesc="after %s every exit queued the rest, closed, or the write was complete" % w.node["callee"])
        # the buffer queued after a short write is [payload.begin()+n, payload.end()) of this very n.  It is found from the queue
        # insertion (in doSend or in a helper / local lambda it calls): the inserted object is traced back to its construction
        # from an iterator range, and the range's operands to doSend's own variables.
        tails = []
        for (fr, e) in _events(root):
            if _wq_inserts(e):
                q = _queued_what(fr, e)
                if q[0] == "range" and (fr.top(e) is w or search(ds, w, lambda x, t=fr.top(e): x is t, eh=False, stop=lambda x: x is not w and x in wcalls) is not None):
                    tails.append((fr, e, q))
        r.instance()
        if len(tails) != 1:
            r.fail(ds, w, "no tail buffer", "no buffer holding the unsent tail is built and queued after %s (found %d)" % (w.node["callee"], len(tails)))
            continue
        fr, te, (_, first, lastit, rfr, rat) = tails[0]
        rs, re_ = _range_start(first), _range_end(lastit)
        why = None
        if rs is None or re_ is None or not _is_field(rfr, rs[0], "SendReq::payload", rat) or not _is_field(rfr, re_, "SendReq::payload", rat):
            why = "is not a range of the request's payload"
        elif rs[1] is None:
            why = "starts at payload.begin(): the bytes already written are queued again (duplicated)"
        else:
            ofr, on, oat, stale = _resolve(rfr, rs[1], rat)
            on = strip_casts(on)
            if stale:
                # the offset is a lambda's by-value copy of the result variable, taken before the write assigned it
                why = ("starts at payload.begin()+%s where `%s` is the lambda's own copy of %s's `%s`, captured BY VALUE at line %s — before the write at line %s "
                       "assigns the byte count (the lambda is invoked at line %s): the offset is the stale value, so bytes already written are queued again (duplicated) "
                       "or unwritten ones skipped" % (stale["var"], stale["var"], last(ds.name), stale["var"], stale["captured_at"],
                                                      ",".join(str(x) for x in stale["assigned_at"]), stale["invoked_at"]))
            elif not (ofr.parent is None and on is not None and on.get("k") == "var" and on.get("d") == nv["d"]):
                why = "starts at payload.begin()+(%s), which is not the byte count `%s` returned by %s" % (show(on) if on is not None else "?", nv["n"], w.node["callee"])
                dv = _decls(ofr.f).get(on.get("d")) if on is not None and on.get("k") == "var" else None
                if dv is not None and ofr.parent is None and dv[1].get("init") is not None and any(x.get("k") == "var" and x.get("d") == nv["d"] for x in walk(dv[1]["init"])):
                    why += " (`%s` was initialised from `%s` at line %s, but `%s` is assigned between that point and this use: it holds an older value)" % (on["n"], nv["n"], dv[0].line, nv["n"])
        r.expect(why is None, fr.f, te, "tail range", "the re-queued tail [%s, %s) %s%s: bytes are duplicated or lost" % (
            show(strip_wrappers(first)).replace(" ", ""), show(strip_wrappers(lastit)).replace(" ", ""), why, "" if fr.parent is None else " [queued in %s]" % fr.where(te)),
                 okdesc="tail = [begin+%s, end)" % nv["n"])
        r.instance()
        r.expect(thr.entails(fr, te, And(A("pos"), A("partial"))), fr.f, te, "tail on wrong edge", "the tail buffer is not queued exactly on the short-write edge (known: %s)" % ",".join(thr.describe(fr, te)),
                 okdesc="tail queued only when 0 <= n < size")
        # and it goes to the front (the position relative to older data is R2's clause; here: it is queued at all, at the head)
        r.instance()
        r.expect(_wq(te.node) in ("emplace_front", "push_front"), fr.f, te, "tail not queued", "the tail buffer is built but not put at the front of the write queue", okdesc="tail buffer queued at the front")
    # writePending
    wp = _fn(ctx, "writePending")
    wroot = _Frame(fb, wp)
    ws = _write_calls(wp)
    if len(ws) < 2:
        raise AnalysisBroken("writePending: %d write calls found" % len(ws))
    nvl = [_result_var(wp, w) for w in ws]
    if None in nvl or len({(x["n"], x["d"]) for x in nvl}) != 1:
        raise AnalysisBroken("writePending: write results are not kept in one variable")
    nv = nvl[0]
    # which local is the queue front? (identified by its initialiser, whatever it is called)
    fronts = [v for e in wp.stmts() if e.node.get("k") == "decl" for v in e.node["vars"] if v.get("init") is not None and _wq(strip_wrappers(v["init"]), ("front",))]
    if len(fronts) != 1:
        raise AnalysisBroken("writePending: cannot identify the reference to wq.front()")
    dn, dd = fronts[0]["n"], fronts[0].get("d")

    def is_front(fr, x, at=None):
        """x denotes the buffer at the head of the queue: the reference local bound to wq.front() (also when reached through a
        helper's parameter) or wq.front() itself"""
        x0 = strip_wrappers(x)
        if fr.parent is None and x0 is not None and x0.get("k") == "var" and x0.get("d") == dd and x0.get("n") == dn:
            return True
        fr2, n2, at2, stale = _resolve(fr, x, at)
        n2 = strip_casts(n2)
        if stale or n2 is None:
            return False
        return bool(_wq(n2, ("front",))) or (fr2.parent is None and n2.get("k") == "var" and n2.get("d") == dd and n2.get("n") == dn)

    def is_front_size(fr, x, at):
        return x.get("k") == "mcall" and last(x.get("callee", "")) == "size" and is_front(fr, x.get("obj"), at)
    vocab = Vocab(["pos", "partial"])

    def mk(fr, init):
        def eff(e):
            if fr.parent is not None:
                return None
            if e in ws or (e.kind == "stmt" and e.node.get("k") == "decl" and any(v.get("d") == nv["d"] for v in e.node["vars"])):
                return [("havoc_all", ["pos", "partial"])]
            if e.kind == "stmt" and e.node.get("k") == "bin" and e.node["op"].endswith("=") and e.node["op"] not in ("==", "!=", "<=", ">=") and e.node["lhs"].get("k") == "var" and \
                    e.node["lhs"].get("d") == nv["d"] and not any(x in [w.node for w in ws] for x in walk(e.node)):
                return [("havoc_all", ["pos", "partial"])]
            return None
        return PredAbs(fr.f, vocab, _pos_partial_leaf(fr, nv, is_front_size), eff, init=init if init is not None else T, track_bools=True)
    thr = _Through(mk)
    muts = 0
    # every change of the head buffer / of the queue, in writePending or in a helper it calls
    for (fr, e) in _events(wroot):
        n = e.node
        if n.get("k") == "mcall" and not _wq(n) and last(n.get("callee", "")) in access.MUTATORS and is_front(fr, n.get("obj"), e):
            muts += 1
            r.instance()
            m = last(n["callee"])
            if m == "erase":
                # the erased range is [front.begin(), front.begin()+n) with n the write's result (read through casts / named locals / parameters)
                a = [x for x in n["args"] if not x.get("def")]
                rs0, rs1 = (_range_start(a[0]), _range_start(a[1])) if len(a) == 2 else (None, None)
                ok = rs0 is not None and rs1 is not None and is_front(fr, rs0[0], e) and rs0[1] is None and is_front(fr, rs1[0], e) and rs1[1] is not None and _is_var(fr, rs1[1], nv, e)
                r.expect(ok and thr.entails(fr, e, And(A("pos"), A("partial"))), fr.f, e, "front erase range",
                         "on a short write the front buffer loses %s instead of exactly [begin, begin+%s) (or not only on the short-write edge)" % (
                             [show(_unwrap_iter(x)).replace(" ", "") for x in a], nv["n"]),
                         okdesc="short write: erase(begin, begin+%s)" % nv["n"])
            else:
                r.fail(fr.f, e, "front buffer %s" % m, "the partially written front buffer is modified by %s" % m)
        if _wq(n) in access.MUTATORS:
            muts += 1
            r.instance()
            m = _wq(n)
            r.expect(m == "pop_front" and thr.entails(fr, e, And(A("pos"), Not(A("partial")))), fr.f, e, "wq.%s" % m,
                     "the write queue is changed by %s on a path where the front buffer was not written completely (known: %s)" % (m, ",".join(thr.describe(fr, e))),
                     okdesc="pop_front only after a complete write of the front buffer")
    if muts < 2:
        r.fail(wp, None, "queue never consumed", "writePending no longer removes written bytes from the queue (erase on short write, pop_front on full write)")
    # the bytes written are the front buffer's
    for w in ws:
        r.instance()
        wa = [_val(wroot, x, w) for x in w.node["args"]]
        okd = any(x is not None and x.get("k") == "mcall" and last(x.get("callee", "")) == "data" and is_front(wroot, x.get("obj"), w) for x in wa)
        oks = any(_at_most(wroot, x, w, is_front_size) for x in w.node["args"])
        r.expect(okd and oks, wp, w, "writes other bytes",
                 "%s is not given the front buffer's data()/size()" % w.node["callee"], okdesc="%s(front.data(), front.size())" % w.node["callee"])


# ------------------------------------------------------------------ R4

def r4(ctx, r):
    fb = ctx.fb()
    ds, wp = _fn(ctx, "doSend"), _fn(ctx, "writePending")
    root = _Frame(fb, ds)

    def unarmed_exit(fr, e):
        """a path from element e to the return of doSend that passes no updateInterest/closeNow: followed out of the helper that
        holds e into its caller(s); a call into a helper every path of which re-arms counts as re-arming"""
        w = search(fr.f, e, "exit", stop=lambda x: _does(fr, x, _rearms), eh=False)
        if w is None:
            return None
        if fr.parent is None:
            return (fr, w)
        return unarmed_exit(fr.parent, fr.call)
    for (fr, e) in _events(root):
        if e.kind == "stmt" and _wq(e.node, ("emplace_back", "push_back", "emplace_front", "push_front")):
            r.instance()
            u = unarmed_exit(fr, e)
            r.expect(u is None, fr.f, e, "queued without re-arm", "data is left in the write queue on a path that returns without updateInterest(): with edge-triggered epoll the tail is never sent",
                     witness=witness_str(u[0].f, u[1]) if u else None, okdesc="doSend: queueing is followed by updateInterest/closeNow")
    vocab = Vocab(["wqempty", "armed"])
    wroot = _Frame(fb, wp)

    def leaf(n):
        if _wq(n, ("empty",)):
            return A("wqempty")
        return None
    wcalls = _write_calls(wp)
    if not wcalls:
        raise AnalysisBroken("writePending: no write call found (moved into a helper?) — the re-arm clause has nothing to anchor on")

    def eff(e):
        if e.kind != "stmt":
            return None
        if e in wcalls:
            return [("set", "armed", False)]      # ghost: the socket state changed, interest must be recomputed
        if _does(wroot, e, _rearms):
            return [("set", "armed", True)]
        if _may(wroot, e, _wq_mutates):
            return [("havoc", "wqempty")]
        return None
    pa = PredAbs(wp, vocab, _inl(fb, leaf), eff, init=A("armed"), track_bools=True)
    r.instance(len(wcalls))
    bad = [ret for ret in common.returns(wp) if not pa.entails(ret, A("armed"))]
    r.expect(not bad and pa.exit_entails(A("armed")), wp, bad[0] if bad else None, "write without re-arm",
             "after a write call a path leaves writePending without updateInterest(): EPOLLOUT interest is stale (a stalled tail in edge-triggered mode, or a busy loop)",
             okdesc="writePending: every exit after a write passes updateInterest/closeNow")
    # updateInterest: EPOLLOUT whenever the queue is non-empty.  Decided on the values, not on names: every local bool is an atom
    # (by declaration) that follows its initialiser and re-assignments; entered with a non-empty queue, no feasible path may
    # reach modEpoll without having passed `<mask> |= EPOLLOUT`.
    ui = _fn(ctx, "updateInterest")

    def leaf2(n):
        if _wq(n, ("empty",)):
            return Not(A("nonempty"))
        return None
    vocab2, leaf2b, eff2 = _with_bools(ui, ["nonempty"], _inl(fb, leaf2), lambda e: None)
    pa2 = _PA(ui, vocab2, leaf2b, eff2, init=A("nonempty"))
    mods = [e for e in ui.stmts() if e.node.get("k") == "mcall" and e.node.get("callee") == TE + "::modEpoll"]
    sets = [e for e in ui.stmts() if e.node.get("k") == "bin" and e.node["op"] == "|=" and any(x.get("mac") == "EPOLLOUT" or x.get("cv") == 4 and x.get("k") in ("int", "enum") for x in walk(e.node["rhs"]))]
    r.instance()
    if not mods or not sets:
        uroot = _Frame(fb, ui)
        if any(_enter(uroot, e) is not None for e in ui.stmts()):
            raise AnalysisBroken("updateInterest computes / applies the epoll mask through a helper: this clause reads the mask computation in updateInterest itself")
        r.fail(ui, None, "updateInterest shape", "updateInterest no longer computes EPOLLOUT interest and applies it with modEpoll")
    else:
        w = search(ui, ("entry",), lambda x: x in mods, stop=lambda x: x in sets, eh=False, edge_ok=lambda b, si: pa2.edge_feasible(b, si))
        r.expect(w is None, ui, mods[0], "EPOLLOUT not armed", "with a non-empty write queue updateInterest can reach modEpoll without EPOLLOUT: queued bytes are never flushed",
                 witness=witness_str(ui, w), okdesc="updateInterest: wq non-empty ⇒ EPOLLOUT set before modEpoll")
        w2 = search(ui, ("entry",), "exit", stop=lambda x: x in mods, eh=False)
        r.instance()
        r.expect(w2 is None, ui, None, "modEpoll skipped", "a path through updateInterest does not call modEpoll", witness=witness_str(ui, w2), okdesc="modEpoll on every path")


# ------------------------------------------------------------------ R5

def tls_leaf(n):
    if n.get("k") == "mcall" and n.get("callee") == TE + "::driveHandshake":
        return A("dh_ok")
    if n.get("k") == "bin" and n["op"] in ("==", "!="):
        l, rr = strip_casts(n["lhs"]), strip_casts(n["rhs"])
        f = field_of(l) if l.get("k") == "member" else None
        en = rr["n"] if rr.get("k") == "enum" else None
        if f == SESS + "::tlsMode" and en and en.endswith("TlsMode::None"):
            return Not(A("tls")) if n["op"] == "==" else A("tls")
        if f == SESS + "::tlsState" and en:
            a = {"Handshake": "hs", "Open": "open"}.get(last(en))
            if a:
                return A(a) if n["op"] == "==" else Not(A(a))
            if last(en) == "None":
                fm = And(Not(A("hs")), Not(A("open")))
                return fm if n["op"] == "==" else Not(fm)
    return None


TLS_AXIOM = And(Or(Not(A("tls")), A("hs"), A("open")), Not(And(A("hs"), A("open"))))


TLS_ATOMS = ["tls", "hs", "open", "dh_ok"]


def tls_effects(fb):
    frames, summ, busy = {}, {}, set()

    def field_written(x, fld):
        return x.kind == "stmt" and x.node.get("k") == "bin" and x.node["op"] == "=" and x.node["lhs"].get("k") == "member" and field_of(x.node["lhs"]) == fld

    def eff(e):
        if e.kind != "stmt":
            return None
        n = e.node
        if n.get("k") == "bin" and n["op"] == "=" and n["lhs"].get("k") == "member":
            f = field_of(n["lhs"])
            rr = strip_casts(n["rhs"])
            if f == SESS + "::tlsState" and rr.get("k") == "enum":
                v = last(rr["n"])
                return [("set", "hs", v == "Handshake"), ("set", "open", v == "Open")]
            if f == SESS + "::tlsMode":
                return [("havoc", "tls")]
        if n.get("k") == "mcall" and n.get("callee") == TE + "::driveHandshake":
            # summary (checked in r5): driveHandshake returns true only with tlsState == Open
            return [("havoc_all", ["hs", "open", "dh_ok"]), ("assume", TLS_AXIOM), ("assume", Or(Not(A("dh_ok")), And(A("open"), Not(A("hs")))))]
        if n.get("k") == "mcall" and n.get("callee") in (TE + "::readAvail", TE + "::closeNow"):
            return None
        if n.get("k") in ("mcall", "call"):
            # a helper (non-virtual TcpEngine member, _enter) that assigns tlsState / tlsMode: its effect is what its own abstraction
            # knows at its exit (`completeHandshake(s)` that sets tlsState = Open on every path leaves the session Open)
            fr = frames.setdefault(id(e.fn), _Frame(fb, e.fn))
            ch = _enter(fr, e)
            if ch is not None:
                ws = any(field_written(x, SESS + "::tlsState") for (_, x) in _events(ch))
                wm = any(field_written(x, SESS + "::tlsMode") for (_, x) in _events(ch))
                if ws or wm:
                    changed = (["hs", "open"] if ws else []) + (["tls"] if wm else [])
                    key = id(ch.f)
                    if key in busy:
                        return [("havoc_all", changed)]
                    if key not in summ:
                        busy.add(key)
                        try:
                            summ[key] = PredAbs(ch.f, Vocab(TLS_ATOMS), tls_leaf, eff, init=T).describe_exit()
                        finally:
                            busy.discard(key)
                    lits = [x for x in summ[key] if x.lstrip("!") in changed]
                    return [("havoc_all", changed)] + [("assume", Not(A(x[1:])) if x.startswith("!") else A(x)) for x in lits]
        return None
    return eff


def r5(ctx, r):
    fb = ctx.fb()
    vocab = Vocab(TLS_ATOMS)
    # the TLS tests may be spelled through a pure predicate helper (`static bool f(const Session*) { return tlsMode != None && …; }`)
    tleaf = _inl(fb, tls_leaf)
    # invariant: tlsMode != None  =>  tlsState in {Handshake, Open}
    n_mode = 0
    for f in fb.in_file(FILE):
        if not f.ok:
            continue
        for (e, node, kind) in common.field_writes(f, SESS + "::tlsMode"):
            n_mode += 1
            r.instance()

            def sets_state(x):
                return x.kind == "stmt" and x.node.get("k") == "bin" and x.node["op"] == "=" and field_of(x.node["lhs"]) == SESS + "::tlsState" and \
                    strip_casts(x.node["rhs"]).get("k") == "enum" and last(strip_casts(x.node["rhs"])["n"]) in ("Handshake", "Open")

            def inserted(x):
                return x.kind == "stmt" and x.node.get("k") == "mcall" and field_of(x.node.get("obj")) == TE + "::_sessions" and last(x.node["callee"]) in ("emplace", "insert", "try_emplace")
            def new_session(x):
                return x.kind == "stmt" and x.node.get("k") == "call" and x.node.get("callee") == "std::make_unique" and "Session" in x.node.get("t", "")
            w = search(f, e, inserted, stop=lambda x: sets_state(x) or new_session(x), eh=False)
            r.expect(w is None, f, e, "tlsMode without tlsState", "a session gets a TLS mode and becomes visible in _sessions without its tlsState set to Handshake/Open: "
                     "the write path would treat it as plaintext", witness=witness_str(f, w), okdesc="%s: tlsMode set ⇒ tlsState = Handshake before insertion" % short(f.name))
        for (e, node, kind) in common.field_writes(f, SESS + "::tlsState"):
            r.instance()
            v = common.assigned_value(f, node)
            v = strip_casts(v) if v else None
            r.expect(v is not None and v.get("k") == "enum" and last(v["n"]) in ("Handshake", "Open"), f, e, "tlsState reset",
                     "tlsState is assigned something other than Handshake/Open", okdesc="%s: tlsState = %s" % (short(f.name), last(v["n"]) if v else "?"))
    if n_mode < 2:
        raise AnalysisBroken("expected tlsMode to be assigned in onListener and doConnect")
    eff = tls_effects(fb)
    # summary of driveHandshake: `return true` only with the session Open
    dh = _fn(ctx, "driveHandshake")
    pa_dh = PredAbs(dh, vocab, tleaf, eff, init=TLS_AXIOM)
    for ret in common.returns(dh):
        if const_value(ret.node.get("v") or {}) == 1:
            r.instance()
            r.expect(pa_dh.entails(ret, And(A("open"), Not(A("hs")))), dh, ret, "handshake summary", "driveHandshake returns true on a path where tlsState is not Open",
                     okdesc="driveHandshake: return true ⇒ tlsState == Open")
    ds = _fn(ctx, "doSend")
    pa = PredAbs(ds, vocab, tleaf, eff, init=TLS_AXIOM, track_bools=True)
    for e in _write_calls(ds):
        if e.node["callee"] == "SSL_write":
            r.instance()
            r.expect(pa.entails(e, And(A("tls"), A("open"))), ds, e, "SSL_write outside Open", "SSL_write reachable when the TLS session is not established",
                     okdesc="doSend: SSL_write only when tls && Open")
        else:
            r.instance()
            r.expect(pa.entails(e, Not(A("tls"))), ds, e, "plaintext on TLS session",
                     "the raw ::%s on the session descriptor is reachable for a session with TLS (known: %s): application bytes would leave in clear text or corrupt the handshake" % (
                         e.node["callee"], ",".join(pa.describe(e)) or "nothing"), okdesc="doSend: raw send only when tlsMode == None")
    # writePending: caller context from onSession
    os_ = _fn(ctx, "onSession")
    pa_os = PredAbs(os_, vocab, tleaf, eff, init=TLS_AXIOM, track_bools=True)
    calls = [e for e in os_.stmts() if e.node.get("k") == "mcall" and e.node.get("callee") == TE + "::writePending"]
    callers = {f.name for (f, e, n) in ctx.cg().callers.get(TE + "::writePending", [])}
    if callers != {TE + "::onSession"} and not _entries_outside(fb, ctx.cg(), TE + "::writePending", TE + "::onSession"):
        raise AnalysisBroken("writePending is reached from onSession through a helper (%s): the TLS-state precondition of its call is not carried through helpers by this clause" % sorted(short(c) for c in callers))
    r.instance()
    r.expect(callers == {TE + "::onSession"} and calls, os_, None, "writePending callers", "writePending is called from %s; its TLS-state precondition is established only in onSession" % sorted(callers),
             okdesc="writePending called only from onSession")
    pre = Not(And(A("tls"), A("hs")))
    for c in calls:
        r.instance()
        r.expect(pa_os.entails(c, pre), os_, c, "writePending during handshake", "onSession can call writePending while the TLS handshake is still in progress",
                 okdesc="onSession: writePending only after the handshake branch")
    wp = _fn(ctx, "writePending")
    pa_wp = PredAbs(wp, vocab, tleaf, eff, init=And(TLS_AXIOM, pre), track_bools=True)
    for e in _write_calls(wp):
        r.instance()
        if e.node["callee"] == "SSL_write":
            r.expect(pa_wp.entails(e, And(A("tls"), A("open"))), wp, e, "SSL_write outside Open", "SSL_write reachable when not Open", okdesc="writePending: SSL_write only when tls && Open")
        else:
            r.expect(pa_wp.entails(e, Not(A("tls"))), wp, e, "plaintext on TLS session",
                     "the raw ::%s in writePending is reachable for a TLS session (known: %s)" % (e.node["callee"], ",".join(pa_wp.describe(e)) or "nothing"),
                     okdesc="writePending: raw send only when tlsMode == None")


# ------------------------------------------------------------------ R6

def _bufferview_nodes(call_node):
    """the two argument nodes of the BufferView{ptr, len} constructed inside a callback invocation (None if there is none)"""
    for x in walk(call_node):
        if x.get("k") in ("ctor", "ilist", "cast") and "BufferView" in (x.get("t") or "") + (x.get("cls") or ""):
            args = x.get("args") or x.get("vals") or []
            if x.get("k") == "cast":
                inner = x.get("v")
                if inner is not None and inner.get("k") in ("ilist", "ctor"):
                    args = inner.get("args") or inner.get("vals") or []
            args = [a for a in args if not a.get("def")]
            if len(args) == 2:
                return args
    return None


def r6(ctx, r):
    fb = ctx.fb()
    ra = _fn(ctx, "readAvail")
    root = _Frame(fb, ra)
    reads = [e for e in ra.stmts() if e.node.get("k") == "call" and e.node.get("callee") in READ_CALLS]
    if len(reads) < 2:
        raise AnalysisBroken("readAvail: %d read calls" % len(reads))
    nvl = [_result_var(ra, w) for w in reads]
    if None in nvl or len({(x["n"], x["d"]) for x in nvl}) != 1:
        raise AnalysisBroken("readAvail: read results are not kept in one variable")
    nvv = nvl[0]
    nv = nvv["n"]
    # the data callback may be invoked in readAvail itself or in a helper it hands the chunk to (followed: _events)
    invs = [(fr, e) for (fr, e) in _events(root) if e.node.get("k") == "opcall" and e.node.get("op") == "()" and e.node.get("callee") == "std::function::operator()"]
    r.instance()
    if len(invs) != 1:
        r.fail(ra, None, "data callback sites", "readAvail invokes the data callback at %d sites, expected exactly one per iteration" % len(invs))
        return
    ifr, inv = invs[0]
    # the buffer is the one the read calls fill (their `<buffer>.data()` argument), whatever it is called
    bufs = set()
    for rd in reads:
        for a_ in rd.node["args"]:
            a_ = strip_casts(strip_wrappers(a_))
            if a_ is not None and a_.get("k") == "mcall" and last(a_.get("callee", "")) == "data" and strip_casts(a_.get("obj") or {}).get("k") == "var":
                bufs.add((strip_casts(a_["obj"])["n"], strip_casts(a_["obj"]).get("d")))
    if len(bufs) != 1:
        raise AnalysisBroken("readAvail: the read calls do not fill one local buffer (%s)" % sorted(bufs))
    bufn, bufd = bufs.pop()
    # … and the callback gets (that buffer's data(), the read's result), traced through the helper's parameters / named locals
    bvn = _bufferview_nodes(inv.node)
    okp = False
    if bvn is not None:
        fr0, p0, at0, st0 = _resolve(ifr, bvn[0], inv)
        p0 = strip_casts(p0)
        okp = st0 is None and fr0.parent is None and p0 is not None and p0.get("k") == "mcall" and last(p0.get("callee", "")) == "data" and \
            strip_casts(p0.get("obj") or {}).get("k") == "var" and strip_casts(p0["obj"]).get("d") == bufd and _is_var(ifr, bvn[1], nvv, inv)
    r.expect(okp, ifr.f, inv, "callback payload",
             "the data callback is not given (%s.data(), %s) of the read that just returned: %s" % (bufn, nv, show(inv.node)[:120]), okdesc="onData(buf.data(), n)")
    vocab = Vocab(["npos", "cb"])

    def mkleaf(fr):
        def leaf(n):
            if n.get("k") == "bin" and n["op"] in (">", "<=", "<", "=="):
                rr = strip_casts(n["rhs"])
                if const_value(rr) == 0 and _is_var(fr, n["lhs"], nvv, fr.f.elem_for(n) if n.get("id") is not None else None):
                    return {">": A("npos"), "<=": Not(A("npos")), "<": Not(A("npos")), "==": Not(A("npos"))}[n["op"]]
            # copy-then-invoke: the null test on the copied std::function is treated as taken (DESIGN 1.3 A2)
            if n.get("k") == "mcall" and last(n.get("callee", "")).startswith("operator bool") and (n.get("obj") or {}).get("k") == "var" and "std::function" in n["obj"].get("t", ""):
                return A("cb")
            return None
        return leaf
    leaf = mkleaf(root)
    hpa = {}

    def delivers(fr, x):
        """element x is the callback invocation, or a call into a helper every feasible path of which (callback present) reaches it"""
        if fr is ifr and x is inv:
            return True
        ch = _enter(fr, x)
        if ch is None:
            return False
        if id(ch) not in hpa:
            hpa[id(ch)] = None      # (guards re-entry)
            pah = PredAbs(ch.f, vocab, mkleaf(ch), lambda e: None, init=A("cb"))
            hpa[id(ch)] = search(ch.f, ("entry",), "exit", stop=lambda y: delivers(ch, y), eh=False, edge_ok=lambda b, si: pah.edge_feasible(b, si)) is None
        return bool(hpa[id(ch)])
    # a positive read always reaches the callback before the next read / the exit
    for rd in reads:
        r.instance()

        # force n > 0 after this read: separate abstraction
        def eff_pos(e, rd=rd):
            if e is rd:
                return [("set", "npos", True)]
            if e in reads:
                return [("havoc", "npos")]
            return None
        pa2 = PredAbs(ra, vocab, leaf, eff_pos, init=A("cb"))
        w = search(ra, rd, lambda x: x in reads, stop=lambda x: delivers(root, x), eh=False, edge_ok=lambda b, si: pa2.edge_feasible(b, si))
        w = w or search(ra, rd, "exit", stop=lambda x: delivers(root, x), eh=False, edge_ok=lambda b, si: pa2.edge_feasible(b, si))
        r.expect(w is None, ra, rd, "positive read not delivered", "bytes returned by %s (n > 0) can be discarded without reaching the data callback" % rd.node["callee"],
                 witness=witness_str(ra, w), okdesc="%s: n > 0 always reaches the data callback" % rd.node["callee"])
    # after delivering, the loop keeps reading (edge-triggered: drain until would-block)
    r.instance()
    w = search(ra, ifr.top(inv), "exit", stop=lambda x: x in reads or (x.kind == "stmt" and x.node.get("k") == "mcall" and x.node.get("callee") == TE + "::closeNow"), eh=False)
    r.expect(w is None, ra, ifr.top(inv), "read loop stops early", "after delivering a chunk readAvail can return without reading again: with edge-triggered epoll the rest of the data is never read",
             witness=witness_str(ra, w), okdesc="after onData the loop reads again")


# ------------------------------------------------------------------ R7

def r7(ctx, r):
    fb = ctx.fb()
    ds = _fn(ctx, "doSend")
    root = _Frame(fb, ds)
    vocab = Vocab(["cob"])

    def leaf(n):
        if n.get("k") == "member" and n["n"].endswith("::closeOnBackpressure"):
            return A("cob")
        return None
    thr = _Through(lambda fr, init: PredAbs(fr.f, vocab, _inl(fb, leaf), lambda e: None, init=init if init is not None else T, track_bools=True))
    # removals from the write queue in doSend and in the helpers it runs through
    pops = [(fr, e) for (fr, e) in _events(root) if e.kind == "stmt" and _wq(e.node, ("pop_front", "pop_back", "erase", "clear"))]
    for (fr, e) in pops:
        r.instance()
        r.expect(thr.entails(fr, e, Not(A("cob"))), fr.f, e, "silent drop under default policy",
                 "queued data is dropped (wq.%s) on a path where closeOnBackpressure may be on: accepted bytes vanish without the session being reported closed" % _wq(e.node),
                 okdesc="oldest buffer dropped only when closeOnBackpressure is off")
    # default of the policy
    r.instance()
    dflt = common.field_default(fb, "TransportConfig", "closeOnBackpressure")
    r.expect(dflt == 1, ds, None, "closeOnBackpressure default", "TransportConfig::closeOnBackpressure does not default to true (found %r)" % dflt,
             okdesc="TransportConfig::closeOnBackpressure defaults to true")


def r8(ctx, r):
    """Sockets are edge-triggered: an event returned by epoll_wait is reported once.  In batched mode the events of one
    epoll_wait pass through EventBatchProcessor::processBatch — each must reach the special handler or the general handler,
    none may be dropped between collection and dispatch (a dropped EPOLLOUT strands a queued tail, a dropped EPOLLIN strands
    bytes the peer wrote, with the session open)."""
    fb = ctx.fb()
    EB = "iora::network::EventBatchProcessor"
    fs = [f for f in fb.funcs(EB + "::processBatch") if f.ok]
    if not fs:
        raise AnalysisBroken("EventBatchProcessor::processBatch not found")
    f = fs[0]
    params = {p_["n"]: p_ for p_ in f.params}
    gen = [n for n, p_ in params.items() if "EventHandler" in p_["t"] or n.lower().startswith("general")]
    spec = [n for n in params if n.lower().startswith("special")]
    if len(gen) != 1 or len(spec) != 1:
        raise AnalysisBroken("processBatch: general/special handler parameters not identified (%s)" % sorted(params))

    def calls_of(name):
        out = []
        for e in f.stmts():
            n = e.node
            if n.get("k") == "opcall" and n.get("op") == "()" and strip_casts(n["args"][0]).get("n") == name:
                out.append(e)
            if n.get("k") == "call" and strip_casts(n.get("fn") or {}).get("n") == name:
                out.append(e)
        return out
    gcalls, scalls = calls_of(gen[0]), calls_of(spec[0])
    if not gcalls or not scalls:
        raise AnalysisBroken("processBatch: handler invocations not found (%d general, %d special)" % (len(gcalls), len(scalls)))
    # the staging container: local vector filled in the collection loop and iterated by the dispatch loop
    fills = [e for e in f.stmts() if e.node.get("k") == "mcall" and last(e.node.get("callee", "")) in ("emplace_back", "push_back") and strip_casts(e.node.get("obj") or {}).get("k") == "var"
             and "vector" in (strip_casts(e.node["obj"]).get("t") or "")]
    r.instance()
    if not fills:
        # direct dispatch inside the collection loop: every iteration reaches one of the handlers
        raise AnalysisBroken("processBatch: no staging vector — a dispatch form this rule does not know")
    V = strip_casts(fills[0].node["obj"])
    # (a) in the collection loop an event not taken by the special handler is always staged
    for sc in scalls:
        r.instance()
        loops = [b for b in f.blocks.values() if b.term and b.term.get("k") in ("ForStmt", "WhileStmt", "CXXForRangeStmt") and b.cond is not None]
        w = search(f, sc, lambda x: x.kind == "stmt" and x.node.get("k") in ("un", "opcall") and x.node.get("op") in ("++", "pre++", "post++"), stop=lambda x: x in fills, eh=False,
                   edge_ok=lambda b, si, sc=sc: not (b.cond is not None and any(x.get("id") == sc.node.get("id") for x in walk(b.cond)) and si == 0))
        r.expect(w is None, f, sc, "event neither special nor staged", "an event the special handler declined can reach the next loop iteration without being staged for the general handler (%s)" % witness_str(f, w),
                 okdesc="declined events are always staged")
    # (b) nothing removes staged events before they are dispatched
    for e in f.stmts():
        n = e.node
        if n.get("k") == "mcall" and strip_casts(n.get("obj") or {}).get("d") == V.get("d") and last(n.get("callee", "")) in ("clear", "erase", "pop_back", "resize", "swap", "assign", "shrink_to_fit"):
            r.instance()
            r.fail(f, e, "staged events discarded", "processBatch calls %s.%s() between collecting the batch and dispatching it: the socket events in it are dropped — with edge-triggered polling they are never reported "
                   "again, so a queued tail is never written / bytes the peer wrote are never read while the session stays open" % (V.get("n"), last(n["callee"])))
        if n.get("k") in ("opcall", "bin") and n.get("op") == "=" and strip_casts(n["args"][0] if n.get("k") == "opcall" else n["lhs"]).get("d") == V.get("d"):
            r.instance()
            r.fail(f, e, "staged events discarded", "processBatch overwrites %s between collection and dispatch" % V.get("n"))
    # (c) the dispatch loop hands every staged element to the general handler: the call is on every path of the loop body
    for gc in gcalls:
        r.instance()
        lb = [b for b in f.blocks.values() if b.term and b.term.get("k") == "CXXForRangeStmt" and b.cond is not None and search(f, ("block", b.succs[0]), lambda x, gc=gc: x is gc, stop=lambda x, b=b: x.block is b, eh=False) is not None]
        if not lb:
            raise AnalysisBroken("processBatch: dispatch loop not identified")
        w = search(f, ("block", lb[0].succs[0]), lambda x, b=lb[0]: x.block is b, stop=lambda x, gc=gc: x is gc, eh=False)
        r.expect(w is None, f, gc, "staged event skipped", "the dispatch loop can pass over a staged event without calling the general handler (%s)" % witness_str(f, w), okdesc="every staged event reaches the general handler")


def run(ctx, ck):
    ck.run_rule("C01-R1", "only doSend/writePending write to a session's descriptor or SSL object", "A3 who-may-call", lambda r: r1(ctx, r))
    ck.run_rule("C01-R2", "accepted order = command-queue order = wire order", "A1 + A5 + A10", lambda r: r2(ctx, r))
    ck.run_rule("C01-R3", "nothing is lost or duplicated on a short or refused write", "A5 predicate abstraction + range shape", lambda r: r3(ctx, r))
    ck.run_rule("C01-R4", "every path that leaves data queued re-arms EPOLLOUT", "A2 must-pass + A5", lambda r: r4(ctx, r))
    ck.run_rule("C01-R5", "no plaintext write on a TLS session; SSL_write only when established", "A5 with checked session invariant", lambda r: r5(ctx, r))
    ck.run_rule("C01-R6", "the read loop delivers every positive read and drains until would-block", "A2 + A5", lambda r: r6(ctx, r))
    ck.run_rule("C01-R8", "batched mode: every event of an epoll batch reaches a handler exactly once", "A2 must-pass + who-may-mutate the staging vector", lambda r: r8(ctx, r))
    ck.run_rule("C01-R7", "queued data is dropped only when closeOnBackpressure is off (default on)", "A5 + A10", lambda r: r7(ctx, r))
