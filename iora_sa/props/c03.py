"""C03 — Synchronous receive is a lossless ordered stream that drains before EOF (DESIGN.md §2 C03)."""
from .. import access
from ..cfg import search, witness_str, elem_dominates
from ..expr import show, walk, last, field_of, strip_wrappers, strip_casts, short, const_value, access_path
from ..facts import AnalysisBroken
from ..predabs import Vocab, PredAbs, A, Not, And, Or, T, translate, known_when, total
from ..rules import common

TITLE = "Synchronous receive is a lossless ordered stream that drains before EOF"
TECHNIQUE = 'custom static analysis over clang-14 CFG facts: must-lockset with RAII aliases, condition-variable discipline rule template, predicate abstraction over buffer/overflow flags'
IMPL = "iora::network::Transport::Impl"
SRB = IMPL + "::SyncReceiveBuffer"
SCO = IMPL + "::SyncConnectOp"
SYNC = IMPL + "::syncMutex"
FILE = "iora/network/transport_impl.hpp"
CB = "iora::network::detail::EngineBase::Callbacks"
ALIASES = {IMPL + "::FlushGuard::m": SYNC}
# ParkGuard / FlushGuard mutate syncMutex-guarded counters through reference members; their constructors and
# ParkGuard's destructor run under the caller's lock — that precondition is itself checked in C05-R4.
ENTRY = {IMPL + "::ParkGuard::<ctor>": {(SYNC, "x", 0)}, IMPL + "::ParkGuard::<dtor>": {(SYNC, "x", 0)},
         IMPL + "::FlushGuard::<ctor>": {(SYNC, "x", 0)}}

EXPLANATION = (
    "Static obligations over transport_impl.hpp: R1 every access to the sync-receive state (read modes, receive buffers and all "
    "their fields, pending connects, teardown counters) holds Impl::syncMutex; R2 in the engine data callback the read of the mode, "
    "the overflow test and the append are one critical section; R3/R3b the append is bounded by maxSyncReceiveBuffer and never "
    "happens after the first drop (predicate abstraction), and `overflow` is only ever set; R4 in receiveSync every error return "
    "after the wait (overflow, peer-closed, shutting-down) is reached only with the buffer empty, and the data path copies the "
    "front min(len,size) bytes and erases exactly that prefix; R5 setReadMode switches to Async only in the critical section that "
    "saw the buffer empty (or a non-flush transition), moves buffered bytes out under the lock and delivers them with no lock held; "
    "R6 the close callback always leaves a closed buffer/tombstone; R7 Disabled/Sync modes never reach the user data callback; "
    "R8 condition-variable discipline for the three waits.")
NOT_DECIDED = ["byte-exact equality of the delivered stream for all chunkings (R4 decides the shape of the copy/erase, not arithmetic over every size)",
               "ordering of a flush against bytes that arrive during the user callback beyond the structural half (R5)",
               "timeouts"]
ASSUMPTIONS = ["ParkGuard/FlushGuard constructor preconditions (lock held) are discharged by C05-R4, assumed here"]


def _la(ctx):
    return ctx.locks(aliases=ALIASES, entry_override=ENTRY, key="transport")


def lambdas(ctx):
    fb, cg = ctx.fb(), ctx.cg()
    setup = IMPL + "::setupEngineCallbacks"
    return {k: common.lambda_assigned_to(fb, cg, "Callbacks::" + k, setup) for k in ("onAccept", "onConnect", "onData", "onClose", "onError")}


GUARDED = [IMPL + "::" + x for x in ("readModes", "receiveBuffers", "pendingConnects", "shuttingDown", "activeReceives",
                                      "activeFlushes", "activeConnects")] + \
          [SRB + "::" + x for x in ("data", "hasData", "closed", "waiters", "flushing", "overflow")] + \
          [SCO + "::" + x for x in ("done", "result")]


def r1(ctx, r):
    fb, la = ctx.fb(), _la(ctx)
    # closed set: the guarded fields must exist
    rec = {f["n"] for f in fb.record(IMPL)["fields"]}
    for g in GUARDED[:7]:
        if last(g) not in rec:
            raise AnalysisBroken("Transport::Impl has no field %s" % last(g))
    for fld in GUARDED:
        common.guarded_by(r, fb, la, fld, SYNC, files=[FILE], exempt={
            IMPL + "::<dtor>": "destruction after the teardown handshake"})
    r.floor(60, "access sites of syncMutex-guarded state")


def r2(ctx, r):
    la = _la(ctx)
    od = lambdas(ctx)["onData"]
    reads = common.member_calls_on(od, IMPL + "::readModes")
    ins = common.member_calls_on(od, SRB + "::data", ("insert", "append", "push_back", "emplace_back", "assign", "resize"))
    r.instance(len(ins))
    if not reads:
        raise AnalysisBroken("onData lambda no longer reads readModes")
    if not ins:
        r.fail(od, None, "no append", "the data callback no longer appends arriving bytes to the sync receive buffer")
        return
    tests = [e for e in od.stmts() if e.node.get("k") == "bin" and any(x.get("k") == "member" and x["n"].endswith("::maxSyncReceiveBuffer") for x in walk(e.node))]
    for i in ins:
        ok, w = common.same_section(od, la, reads[0], i, SYNC)
        r.expect(ok, od, i, "mode read / append split", "syncMutex is released between the read of the session's read mode and the append "
                 "to its buffer (TOCTOU with setReadMode: bytes could be buffered after the switch to Async and never delivered)",
                 okdesc="onData: readModes.find … data.insert in one syncMutex section", witness=w)
        for t in tests:
            ok, w = common.same_section(od, la, t, i, SYNC)
            r.expect(ok, od, i, "size test / append split", "the lock is released between the capacity test and the append", witness=w,
                     okdesc="onData: capacity test and append in one section")


def _ondata_abs(ctx):
    od = lambdas(ctx)["onData"]
    vocab = Vocab(["fits", "overflow", "sync", "disabled"])

    inits = {}
    for e in od.stmts():
        if e.node.get("k") == "decl":
            for dv in e.node["vars"]:
                if dv.get("init") is not None and "const" in (dv.get("t") or ""):
                    inits[dv["d"]] = dv["init"]

    def res(x):
        x = strip_casts(x)
        if x is not None and x.get("k") == "var" and x.get("d") in inits:
            return strip_casts(inits[x["d"]])
        return x

    def leaf(n):
        k = n.get("k")
        if k == "member" and n["n"] == SRB + "::overflow":
            return A("overflow")
        if k == "bin" and n["op"] in ("==", "!=") and any(x.get("k") == "var" and x["n"] == "mode" for x in walk(n)):
            for x in walk(n):
                if x.get("k") == "enum" and x["n"].endswith("ReadMode::Sync"):
                    return A("sync") if n["op"] == "==" else Not(A("sync"))
                if x.get("k") == "enum" and x["n"].endswith("ReadMode::Disabled"):
                    return A("disabled") if n["op"] == "==" else Not(A("disabled"))
        if k == "bin" and n["op"] in (">", ">=", "<", "<="):
            l, rr = res(n["lhs"]), res(n["rhs"])

            def is_max(x):
                return x.get("k") == "member" and x["n"].endswith("::maxSyncReceiveBuffer")

            def is_sum(x):
                if x.get("k") != "bin" or x["op"] != "+":
                    return False
                txt = [strip_casts(x["lhs"]), strip_casts(x["rhs"])]
                has_buf = any(y.get("k") == "mcall" and last(y.get("callee", "")) == "size" and field_of(y.get("obj")) == SRB + "::data" for y in txt)
                has_new = any(y.get("k") == "mcall" and last(y.get("callee", "")) == "size" and (y.get("obj") or {}).get("k") == "var" for y in txt)
                return has_buf and has_new
            def is_new(x):
                return x.get("k") == "mcall" and last(x.get("callee", "")) == "size" and (x.get("obj") or {}).get("k") == "var"

            def is_room(x):
                # max - buffered: the subtraction form of the same bound (cannot wrap: buffered <= max is what this rule maintains)
                if x.get("k") != "bin" or x["op"] != "-":
                    return False
                a, b = strip_casts(x["lhs"]), strip_casts(x["rhs"])
                return is_max(a) and b.get("k") == "mcall" and last(b.get("callee", "")) == "size" and field_of(b.get("obj")) == SRB + "::data"
            if is_new(l) and is_room(rr):
                return Not(A("fits")) if n["op"] in (">",) else (A("fits") if n["op"] in ("<=",) else None)
            if is_room(l) and is_new(rr):
                return Not(A("fits")) if n["op"] in ("<",) else (A("fits") if n["op"] in (">=",) else None)
            if is_sum(l) and is_max(rr):
                return Not(A("fits")) if n["op"] in (">", ">=") else A("fits")
            if is_max(l) and is_sum(rr):
                return Not(A("fits")) if n["op"] in ("<", "<=") else A("fits")
        return None

    def effects(e):
        if e.kind == "dtor" and e.raw.get("t", "").startswith("std::lock_guard"):
            return [("havoc_all", ["fits", "overflow"])]
        if e.kind != "stmt":
            return None
        n = e.node
        if n.get("k") == "bin" and n["op"] == "=" and field_of(n["lhs"]) == SRB + "::overflow":
            v = const_value(n["rhs"])
            return [("set", "overflow", bool(v))] if v is not None else [("havoc", "overflow")]
        if n.get("k") == "mcall" and field_of(n.get("obj")) == SRB + "::data" and last(n["callee"]) in access.MUTATORS:
            return [("havoc", "fits")]
        return None
    return od, PredAbs(od, vocab, leaf, effects, init=Not(And(A("sync"), A("disabled"))))


def r3(ctx, r):
    fb = ctx.fb()
    od, pa = _ondata_abs(ctx)
    ins = common.member_calls_on(od, SRB + "::data", ("insert", "append", "push_back", "emplace_back", "assign", "resize"))
    for i in ins:
        r.instance()
        r.expect(pa.entails(i, A("fits")), od, i, "append unbounded",
                 "arriving bytes are appended to the per-session sync buffer on a path where `size + len <= maxSyncReceiveBuffer` is not established "
                 "(known: %s): a peer can grow the buffer without bound" % (",".join(pa.describe(i)) or "nothing"),
                 okdesc="append only where size+len <= maxSyncReceiveBuffer")
        r.instance()
        r.expect(pa.entails(i, Not(A("overflow"))), od, i, "append after overflow",
                 "bytes are appended although `overflow` may already be set: data from after a dropped chunk is delivered as if contiguous",
                 okdesc="append only while overflow is clear (C03-R3b)")
        r.instance()
        r.expect(pa.entails(i, A("sync")), od, i, "append outside Sync mode", "append reachable when the session is not in Sync mode",
                 okdesc="append only in Sync mode")
        # append at the end only (ordered stream)
        n = i.node
        if last(n["callee"]) == "insert":
            pos = strip_wrappers(n["args"][0]) if n["args"] else None
            txt = show(pos) if pos else ""
            r.instance()
            r.expect(".end()" in txt or "end(" in txt, od, i, "insert not at end", "arriving bytes are inserted at `%s`, not at the end of the buffer: order is lost" % txt,
                     okdesc="insert position is data.end()")
            # the inserted range is the whole callback payload [data.data(), data.data()+data.size())
            if len(n["args"]) >= 3:
                a1, a2 = show(strip_wrappers(n["args"][1])), show(strip_wrappers(n["args"][2]))
                r.instance()
                r.expect(a1 == "data.data()" and a2.replace(" ", "") in ("data.data()+data.size()", "data.size()+data.data()"), od, i, "partial append",
                         "the appended range is [%s, %s), not the whole arriving chunk" % (a1, a2), okdesc="whole chunk appended")
    # overflow is sticky: only ever assigned true
    n_w = 0
    for f in fb.in_file(FILE):
        if not f.ok:
            continue
        for (e, node, kind) in common.field_writes(f, SRB + "::overflow"):
            n_w += 1
            r.instance()
            v = common.assigned_value(f, node)
            r.expect(v is not None and const_value(v) == 1, f, e, "overflow cleared",
                     "`overflow` is written with something other than `true`: after bytes were dropped the stream must stay failed",
                     okdesc="%s sets overflow = true" % short(f.name))
    if n_w < 1:
        r.fail(od, None, "overflow never set", "nothing sets `overflow` any more: a dropped chunk is silent")


def r4(ctx, r):
    fb, la = ctx.fb(), _la(ctx)
    f = fb.func("iora::network::Transport::receiveSync")
    waits = [e for e in f.stmts() if e.node.get("k") == "mcall" and e.node.get("callee", "").startswith("std::condition_variable")]
    if len(waits) != 1:
        raise AnalysisBroken("receiveSync: expected one condition-variable wait, found %d" % len(waits))
    wait = waits[0]
    vocab = Vocab(["empty"])

    def leaf(n):
        if n.get("k") == "mcall" and last(n.get("callee", "")) == "empty" and field_of(n.get("obj")) == SRB + "::data":
            return A("empty")
        return None

    def effects(e):
        if e.kind != "stmt":
            return None
        n = e.node
        if n.get("k") == "mcall" and (n.get("callee", "").startswith("std::condition_variable") or n.get("callee") == "std::unique_lock::unlock"):
            return [("havoc", "empty")]
        if n.get("k") == "mcall" and field_of(n.get("obj")) == SRB + "::data" and last(n["callee"]) in access.MUTATORS:
            return [("havoc", "empty")]
        return None
    pa = PredAbs(f, vocab, leaf, effects)
    codes = ("BufferOverflow", "PeerClosed", "ShuttingDown")
    n_ret = 0
    for e in common.returns(f):
        if not elem_dominates(f, wait, e):
            continue
        for c in codes:
            if common.mentions_enum(e.node, "iora::network::TransportError::" + c):
                n_ret += 1
                r.instance()
                r.expect(pa.entails(e, A("empty")), f, e, "return %s before drain" % c,
                         "receiveSync can return %s while bytes that arrived earlier are still buffered: the tail of the stream is lost" % c,
                         okdesc="return %s only with buf->data empty" % c)
    if n_ret < 3:
        r.fail(f, None, "terminal returns missing", "receiveSync no longer reports overflow / peer-closed / shutting-down after the wait (found %d of 3)" % n_ret)
    # shape of the data path
    cps = common.calls_to(f, ("memcpy", "std::memcpy", "std::copy", "std::copy_n", "memmove", "std::memmove"))
    erases = common.member_calls_on(f, SRB + "::data", ("erase",))
    r.instance()
    if len(cps) != 1 or len(erases) != 1:
        r.fail(f, None, "copy/erase shape", "expected exactly one copy out of the buffer and one erase of the copied prefix, found %d/%d" % (len(cps), len(erases)))
        return
    cp, er = cps[0], erases[0]
    a = cp.node["args"]
    src = show(strip_wrappers(a[1])) if len(a) > 1 else ""
    cnt = strip_casts(strip_wrappers(a[2])) if len(a) > 2 else None
    r.expect(src.endswith("data.data()") and "+" not in src, f, cp, "copy not from front", "bytes are copied from `%s`, not from the front of the buffer" % src,
             okdesc="memcpy source is the front of buf->data")
    r.instance()
    okmin = False
    if cnt is not None and cnt.get("k") == "var":
        init = None
        for e in f.stmts():
            if e.node.get("k") == "decl":
                for v in e.node["vars"]:
                    if v["d"] == cnt.get("d"):
                        init = strip_wrappers(v.get("init"))
        if init is not None and init.get("k") == "call" and init.get("callee") == "std::min":
            args = sorted(show(strip_wrappers(x)) for x in init["args"][:2])
            okmin = args == sorted(["len", "buf->data.size()"])
    r.expect(okmin, f, cp, "copy length", "the copy length is not min(len, buf->data.size()): the caller's buffer can overflow or bytes are skipped",
             okdesc="copyLen = min(len, data.size())")
    r.instance()
    ea = er.node["args"]
    t0 = show(strip_wrappers(ea[0])).replace("__normal_iterator", "").replace(" ", "") if ea else ""
    t1 = show(strip_wrappers(ea[1])).replace("__normal_iterator", "").replace(" ", "") if len(ea) > 1 else ""
    cn = cnt["n"] if cnt is not None and cnt.get("k") == "var" else "?"
    ok = t0 in ("(buf->data.begin())",) and t1 in ("(buf->data.begin()+(long)%s)" % cn, "(buf->data.begin()+%s)" % cn)
    r.expect(ok, f, er, "erase range", "the erased range is [%s, %s), not exactly the copied prefix [begin, begin+%s): bytes are lost or delivered twice" % (t0, t1, cn),
             okdesc="erase(begin, begin+copyLen)")
    r.instance()
    r.expect(elem_dominates(f, cp, er) and la.holds(f, cp, SYNC) and la.holds(f, er, SYNC), f, er, "copy/erase order",
             "copy and erase are not ordered copy-then-erase under syncMutex", okdesc="copy then erase under the lock")
    # hasData recomputed after the erase (INV-1: the wait predicate reads hasData)
    r.instance()
    hw = [e for (e, n, k) in common.field_writes(f, SRB + "::hasData")]
    r.expect(any(elem_dominates(f, er, h) for h in hw), f, er, "hasData stale", "`hasData` is not recomputed after the erase: the next receiveSync sees stale state "
             "(waits although data is buffered, or spins on an empty buffer)", okdesc="hasData recomputed after erase")
    # the length reported is the length copied
    r.instance()
    oks = [e for e in common.returns(f) if "Result::ok" in show(e.node)]
    r.expect(len(oks) == 1 and cn in show(oks[0].node), f, oks[0] if oks else None, "ok length", "the success result does not report the copied length",
             okdesc="returns ok(copyLen)")


def r5(ctx, r):
    fb, la = ctx.fb(), _la(ctx)
    f = fb.func("iora::network::Transport::setReadMode")
    vocab = Vocab(["flushcase", "nobuf", "dataempty", "shutting"])

    def leaf(n):
        k = n.get("k")
        if k == "bin" and n["op"] == "&&":
            txt = show(n)
            if "oldMode == ReadMode::Sync" in txt and "mode == ReadMode::Async" in txt:
                return A("flushcase")
        if k == "bin" and n["op"] in ("==", "!=") and "receiveBuffers.end()" in show(n):
            return A("nobuf") if n["op"] == "==" else Not(A("nobuf"))
        if k == "mcall" and last(n.get("callee", "")) == "empty" and field_of(n.get("obj")) == SRB + "::data":
            return A("dataempty")
        if k == "member" and n["n"] == IMPL + "::shuttingDown":
            return A("shutting")
        return None
    # `!(oldMode == Sync && mode == Async)` is split over two blocks by the CFG: model the conjunction through its leaves
    vocab2 = Vocab(["oldsync", "newasync", "nobuf", "dataempty", "closed"])

    def leaf2(n):
        k = n.get("k")
        cp = common.cmp_parts(n)
        if cp and cp[0] in ("==", "!="):
            txt = show(n)
            if txt.startswith("oldMode") and txt.endswith("ReadMode::Sync"):
                return A("oldsync") if cp[0] == "==" else Not(A("oldsync"))
            if txt.startswith("mode") and txt.endswith("ReadMode::Async"):
                return A("newasync") if cp[0] == "==" else Not(A("newasync"))
            if "receiveBuffers.end()" in txt and "find" not in txt:
                return A("nobuf") if cp[0] == "==" else Not(A("nobuf"))
        if k == "mcall" and last(n.get("callee", "")) == "empty" and field_of(n.get("obj")) == SRB + "::data":
            return A("dataempty")
        if k == "member" and n["n"] == SRB + "::closed":
            return A("closed")
        return None

    def effects(e):
        if e.kind == "dtor" and e.raw.get("t", "").startswith(("std::lock_guard", "std::unique_lock")):
            return [("havoc_all", ["nobuf", "dataempty", "closed"])]
        if e.kind != "stmt":
            return None
        n = e.node
        if n.get("k") == "mcall" and n.get("callee") == "std::unique_lock::unlock":
            return [("havoc_all", ["nobuf", "dataempty", "closed"])]
        # the local copy of the old mode: `oldMode = ReadMode::Sync` / `= it->second` / its declaration
        if n.get("k") in ("bin", "opcall") and n.get("op") == "=":
            lhs = strip_casts(n["lhs"] if n.get("k") == "bin" else n["args"][0])
            rhs = strip_casts(n["rhs"] if n.get("k") == "bin" else n["args"][1])
            if lhs.get("k") == "var" and lhs.get("n") == "oldMode":
                return [("set", "oldsync", rhs["n"].endswith("ReadMode::Sync"))] if rhs.get("k") == "enum" else [("havoc", "oldsync")]
        if n.get("k") == "decl":
            for v in n["vars"]:
                if v["n"] == "oldMode":
                    i = strip_casts(v.get("init") or {})
                    return [("set", "oldsync", i["n"].endswith("ReadMode::Sync"))] if i.get("k") == "enum" else [("havoc", "oldsync")]
        if n.get("k") == "mcall" and field_of(n.get("obj")) == SRB + "::data" and last(n["callee"]) in access.MUTATORS:
            return [("havoc", "dataempty")]
        if n.get("k") == "opcall" and n.get("op") == "=" and field_of(n["args"][0]) == SRB + "::data":
            return [("havoc", "dataempty")]
        return None
    pa = PredAbs(f, vocab2, leaf2, effects)
    # (a) every write of the mode
    writes = []
    for e in f.stmts():
        n = e.node
        if n.get("k") in ("bin", "opcall") and n.get("op") == "=":
            lhs = n["lhs"] if n.get("k") == "bin" else n["args"][0]
            if field_of(lhs) == IMPL + "::readModes" or (access_path(lhs) or ("",))[-2:] == (IMPL + "::readModes", "[]"):
                writes.append(e)
    if not writes:
        raise AnalysisBroken("setReadMode no longer writes readModes")
    for e in writes:
        r.instance()
        n = e.node
        rhs = strip_casts(n["rhs"] if n.get("k") == "bin" else n["args"][1])
        nothing_pending = Or(A("nobuf"), A("dataempty"), A("closed"))
        if rhs.get("k") == "enum":
            # a constant: only `= Async` hands the session to the data callback
            need = nothing_pending if rhs["n"].endswith("ReadMode::Async") else T
        elif rhs.get("k") == "var" and rhs.get("n") == "mode":
            need = Or(Not(A("newasync")), nothing_pending)
        else:
            raise AnalysisBroken("setReadMode: readModes written with `%s`" % show(rhs)[:40])
        ok = la.holds(f, e, SYNC) and pa.entails(e, need)
        r.expect(ok, f, e, "mode switched with data buffered",
                 "the session is switched to Async (line %d) without the receive buffer having been seen absent, empty or closed in the same critical section (known: %s) — whatever the old mode was: bytes buffered in an "
                 "earlier Sync phase (Sync → Disabled → Async) are never handed to the data callback and come out of a later receiveSync after bytes that arrived later" % (e.line, ",".join(pa.describe(e)) or "nothing"),
                 okdesc="mode write at line %s: not to Async, or nothing pending, under syncMutex" % e.line)
    # (b) user callback invoked with no transport lock
    invs = common.fn_invocations(f)
    r.instance(len(invs))
    for (e, tgt) in invs:
        held = la.mutexes(f, e) & {SYNC, IMPL + "::callbackMutex"}
        r.expect(not held, f, e, "callback under lock", "the flush invokes the user data callback while holding %s" % ",".join(sorted(held)),
                 okdesc="flush callback invoked with no lock held")
    if not invs:
        r.fail(f, None, "flush delivers nothing", "setReadMode no longer delivers the buffered bytes to the data callback on Sync→Async")
    # (c) the bytes are moved out under the lock, and what is delivered is what was moved out
    moves = [e for e in f.stmts() if e.node.get("k") == "opcall" and e.node.get("op") == "=" and len(e.node["args"]) == 2 and
             field_of(strip_wrappers(e.node["args"][1])) == SRB + "::data"]
    r.instance()
    r.expect(len(moves) == 1 and la.holds(f, moves[0], SYNC), f, moves[0] if moves else None, "move-out",
             "buffered bytes are not taken out of the buffer in exactly one place under syncMutex", okdesc="flushData = move(buf->data) under the lock")
    if moves and invs:
        dst = strip_wrappers(moves[0].node["args"][0])
        r.instance()
        r.expect(all(dst.get("n", "?") in show(e.node) for (e, _) in invs), f, invs[0][0], "delivers other bytes",
                 "the callback is not given the bytes that were moved out of the buffer", okdesc="callback receives the moved-out bytes")
    # (d) FlushGuard is created in the critical section that fetched the buffer
    mk = [e for e in f.stmts() if e.node.get("k") == "call" and e.node.get("callee") == "std::make_unique" and "FlushGuard" in e.node.get("t", "")] + \
         [e for e in f.stmts() if e.node.get("k") == "ctor" and e.node.get("cls") == IMPL + "::FlushGuard"]
    finds = [e for e in common.member_calls_on(f, IMPL + "::receiveBuffers", ("find",))]
    r.instance()
    if not mk:
        r.fail(f, None, "no FlushGuard", "the Sync→Async flush is no longer covered by a FlushGuard (GC / teardown can free the buffer under the flusher)")
    else:
        ok = False
        for fe in finds:
            s, w = common.same_section(f, la, fe, mk[0], SYNC)
            if s and elem_dominates(f, fe, mk[0]):
                ok = True
        r.expect(ok, f, mk[0], "FlushGuard outside fetch section", "FlushGuard is not constructed in the syncMutex section that fetched the buffer",
                 okdesc="FlushGuard constructed under the lock that fetched the buffer")
    # (e) every invocation is preceded, on its path, by the move-out of the same loop iteration: no callback without data
    if moves and invs:
        r.instance()
        r.expect(all(elem_dominates(f, moves[0], e) or search(f, moves[0], lambda x, e=e: x is e, eh=False) is not None for (e, _) in invs), f, invs[0][0],
                 "callback before move", "callback not reachable from the move-out", okdesc="move-out precedes delivery")


def r6(ctx, r):
    oc = lambdas(ctx)["onClose"]
    la = _la(ctx)

    def stop(e):
        if e.kind != "stmt":
            return False
        n = e.node
        if n.get("k") == "bin" and n["op"] == "=" and field_of(n["lhs"]) == SRB + "::closed" and const_value(n["rhs"]) == 1:
            return True
        if n.get("k") == "mcall" and last(n.get("callee", "")) in ("notify_one", "notify_all") and field_of(n.get("obj")) == SCO + "::cv":
            return True   # pending synchronous connect: suppressed branch (C04-R3)
        return False
    r.instance()
    w = search(oc, ("entry",), "exit", stop=stop, eh=False)
    r.expect(w is None, oc, None, "close without tombstone", "a path through the close callback neither marks the session's receive buffer closed nor leaves a closed tombstone: "
             "a later or parked receiveSync on that session would wait for ever", witness=witness_str(oc, w), okdesc="every non-suppressed close path sets closed = true")
    # the tombstone branch stores the closed buffer in the map; the existing-buffer branch notifies
    closes = [e for (e, n, k) in common.field_writes(oc, SRB + "::closed")]
    r.instance(len(closes))
    for e in closes:
        r.expect(la.holds(oc, e, SYNC), oc, e, "closed outside lock", "closed flag written without syncMutex", okdesc="closed=true under syncMutex")
    stores = [e for e in oc.stmts() if e.node.get("k") == "opcall" and e.node.get("op") == "=" and
              (access_path(e.node["args"][0]) or ("", ""))[-2:] == (IMPL + "::receiveBuffers", "[]")]
    notifs = [e for e in oc.stmts() if e.node.get("k") == "mcall" and last(e.node["callee"]) == "notify_all" and field_of(e.node.get("obj")) == SRB + "::cv"]
    r.instance(2)
    r.expect(bool(stores), oc, None, "tombstone not stored", "no closed tombstone is stored for a session that had no receive buffer", okdesc="tombstone stored in receiveBuffers")
    r.expect(bool(notifs), oc, None, "parked reader not woken", "the close callback does not wake a parked receiveSync (notify_all on the buffer's cv)",
             okdesc="close notifies the buffer's cv")


def r7(ctx, r):
    od, pa = _ondata_abs(ctx)
    la = _la(ctx)
    invs = common.fn_invocations(od)
    if not invs:
        r.fail(od, None, "no delivery", "the engine data callback no longer invokes the user data callback in Async mode")
    for (e, tgt) in invs:
        r.instance()
        r.expect(pa.entails(e, And(Not(A("sync")), Not(A("disabled")))), od, e, "delivery in Sync/Disabled mode",
                 "the user data callback is reachable while the session is in Sync or Disabled mode (known: %s)" % ",".join(pa.describe(e)),
                 okdesc="user onData only in Async mode")
        r.instance()
        held = la.mutexes(od, e) & {SYNC, IMPL + "::callbackMutex"}
        r.expect(not held, od, e, "callback under lock", "user data callback invoked holding %s" % ",".join(held), okdesc="no lock held at user callback")


def r8(ctx, r):
    fb, la = ctx.fb(), _la(ctx)
    n = common.cv_discipline(r, fb, la, lambda f: f.file.endswith(FILE))
    if n < 3:
        raise AnalysisBroken("transport_impl.hpp: %d condition-variable waits found, expected 3" % n)


def r9(ctx, r):
    """While a session is in Sync mode the bytes that arrive go to its receiveBuffers entry; the data handler drops them when
    there is no entry.  So an entry may disappear only once nothing more can arrive for it: every erase is behind `closed`."""
    from ..finite import dominating_facts
    fb = ctx.fb()
    n = 0
    for f in fb.in_file(FILE):
        if not f.ok:
            continue
        for e in common.member_calls_on(f, IMPL + "::receiveBuffers", ("erase", "clear", "extract", "swap")):
            n += 1
            r.instance()
            if f.kind in ("dtor",) or f.name.endswith("::~Impl"):
                continue
            facts = dominating_facts(f, e)
            def flag_true(c, t):
                c = strip_casts(c)
                if c.get("k") == "member" and c["n"] == SRB + "::closed":
                    return t
                if c.get("k") == "bin" and c.get("op") in ("==", "!="):
                    l, rr = strip_casts(c["lhs"]), strip_casts(c["rhs"])
                    if rr.get("k") == "member":
                        l, rr = rr, l
                    if l.get("k") == "member" and l["n"] == SRB + "::closed" and const_value(rr) is not None:
                        return ((c["op"] == "==") == bool(const_value(rr))) == t
                return False
            closed = any(flag_true(c, t) for (c, t) in facts)

            def drained(c, t):
                c = strip_casts(c)
                if c.get("k") == "mcall" and last(c.get("callee", "")) == "empty" and field_of(c.get("obj")) == SRB + "::data":
                    return t
                if c.get("k") == "member" and c["n"] == SRB + "::hasData":
                    return not t
                return False
            empty = any(drained(c, t) for (c, t) in facts)
            r.expect(closed, f, e, "live receive buffer erased", "%s removes a receiveBuffers entry that is not known to be closed (known: %s): bytes that arrive for the session afterwards find no buffer and "
                     "are dropped by the data handler while the mode is still Sync — the next receiveSync misses them" % (short(f.name), "; ".join(("" if t else "!") + show(c)[:40] for c, t in facts[-4:]) or "nothing"),
                     okdesc="%s: erase only of a closed buffer" % short(f.name))
            r.instance()
            r.expect(empty, f, e, "undrained receive buffer erased", "%s removes a receiveBuffers entry without having seen it empty (known: %s): bytes that arrived before the close and were not yet returned / flushed "
                     "are destroyed — the reader gets PeerClosed (or the data callback nothing) without them" % (short(f.name), "; ".join(("" if t else "!") + show(c)[:40] for c, t in facts[-4:]) or "nothing"),
                     okdesc="%s: erase only of a drained buffer" % short(f.name))
    if n < 2:
        raise AnalysisBroken("receiveBuffers erase sites: %d found, expected >= 2" % n)


def run(ctx, ck):
    ck.run_rule("C03-R1", "sync-receive state is accessed only under Impl::syncMutex", "A1 lockset", lambda r: r1(ctx, r))
    ck.run_rule("C03-R2", "mode read, capacity test and append are one critical section", "A1 same-section", lambda r: r2(ctx, r))
    ck.run_rule("C03-R3", "append is bounded, at the end, whole, never after overflow; overflow is sticky", "A5 predicate abstraction + A10", lambda r: r3(ctx, r))
    ck.run_rule("C03-R4", "receiveSync drains before reporting overflow/EOF/teardown; copies and erases exactly the front prefix", "A5 + A2 + shape", lambda r: r4(ctx, r))
    ck.run_rule("C03-R5", "Sync→Async switch only on an empty buffer; ordered flush outside the lock under a FlushGuard", "A5 + A1", lambda r: r5(ctx, r))
    ck.run_rule("C03-R6", "every non-suppressed close leaves a closed buffer or tombstone and wakes the reader", "A2 must-pass", lambda r: r6(ctx, r))
    ck.run_rule("C03-R7", "the user data callback is reached only in Async mode and with no lock held", "A5 + A1", lambda r: r7(ctx, r))
    ck.run_rule("C03-R9", "a receive-buffer entry is erased only once it is closed (no arrival can miss its buffer)", "A5 dominating facts over the closed set of erase sites", lambda r: r9(ctx, r))
    ck.run_rule("C03-R8", "condition-variable discipline for teardownCv / connect cv / receive cv", "A1", lambda r: r8(ctx, r))
