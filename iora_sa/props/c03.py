"""C03 — Synchronous receive is a lossless ordered stream that drains before EOF (DESIGN.md §2 C03)."""
import copy

from .. import access, locks
from ..cfg import search, witness_str, elem_dominates
from ..expr import show, walk, last, field_of, strip_wrappers, strip_casts, short, const_value, access_path
from ..facts import AnalysisBroken, Function
from ..predabs import Vocab, PredAbs, A, Not, And, Or, T, translate, known_when, total
from ..rules import common

TITLE = "Synchronous receive is a lossless ordered stream that drains before EOF"
TECHNIQUE = 'custom static analysis over clang-14 CFG facts: must-lockset with RAII aliases, condition-variable discipline rule template, predicate abstraction over buffer/overflow flags; calls into helpers of Transport::Impl (member functions, local lambdas, predicate functions) expanded in place before the rules run'
IMPL = "iora::network::Transport::Impl"
SRB = IMPL + "::SyncReceiveBuffer"
SCO = IMPL + "::SyncConnectOp"
SYNC = IMPL + "::syncMutex"
FILE = "iora/network/transport_impl.hpp"
CB = "iora::network::detail::EngineBase::Callbacks"
ALIASES = {IMPL + "::FlushGuard::m": SYNC}
# ParkGuard / FlushGuard mutate syncMutex-guarded counters through reference members; their constructors and
# ParkGuard's destructor run under the caller's lock — that precondition is itself checked in C05-R4.
ENTRY = {IMPL + "::ParkGuard::<ctor>": {(SYNC, "x", 0)}, IMPL + "::ParkGuard::<dtor>": {(SYNC, "x", 0)},
         IMPL + "::FlushGuard::<ctor>": {(SYNC, "x", 0)}}

EXPLANATION = (
    "Static obligations over transport_impl.hpp: R1 every access to the sync-receive state (read modes, receive buffers and all "
    "their fields, pending connects, teardown counters) holds Impl::syncMutex; R2 in the engine data callback the read of the mode, "
    "the overflow test and the append are one critical section; R3/R3b the append is bounded by maxSyncReceiveBuffer and never "
    "happens after the first drop (predicate abstraction), and `overflow` is only ever set; R4 in receiveSync every error return "
    "after the wait (overflow, peer-closed, shutting-down) is reached only with the buffer empty, peer-closed only behind the false "
    "edge of the overflow test (a dropped chunk is never followed by a clean end-of-stream), and the data path copies the "
    "front min(len,size) bytes and erases exactly that prefix; R5 setReadMode switches to Async only in the critical section that "
    "saw the buffer empty (or a non-flush transition), moves buffered bytes out under the lock and delivers them with no lock held; "
    "R6 the close callback always leaves a closed buffer/tombstone; R7 Disabled/Sync modes never reach the user data callback; "
    "R8 condition-variable discipline for the three waits; R9 a receive-buffer entry is erased only once it is closed and drained. "
    "The four anchors (data / close callbacks, receiveSync, setReadMode) are analysed on copies in which calls to helpers of "
    "Transport / Transport::Impl are expanded in place; member functions of the private Impl get their entry lockset from their call sites.")
# exempt from the function-inventory guard (report.py): these rules hold for, or look into, functions they have never seen
FOLLOWS_HELPERS = {
    "C03-R1": "universal per-access discipline; a member function of the private Transport::Impl gets its entry lockset from its call sites (_PimplLocks), so a new helper is judged with the locks its callers hold",
    "C03-R2": "the data callback is analysed with its calls into Transport/Impl helpers expanded in place (expanded())",
    "C03-R3": "same expansion; the `overflow is only ever set` half looks at every write in the file, wherever it is",
    "C03-R4": "receiveSync is analysed with its helper calls expanded in place; returns inside helpers count as result sites",
    "C03-R5": "setReadMode is analysed with its helper calls expanded in place",
    "C03-R6": "the close callback is analysed with its helper calls expanded in place",
    "C03-R7": "the data callback is analysed with its helper calls expanded in place",
    "C03-R8": "universal: every write of a wait-predicate variable, wherever it is, with the inferred entry locksets",
    "C03-R9": "every erase site in the file is judged, in its own function and — for a helper — in every caller it is expanded into",
}
NOT_DECIDED = ["byte-exact equality of the delivered stream for all chunkings (R4 decides the shape of the copy/erase, not arithmetic over every size)",
               "ordering of a flush against bytes that arrive during the user callback beyond the structural half (R5)",
               "timeouts"]
ASSUMPTIONS = ["ParkGuard/FlushGuard constructor preconditions (lock held) are discharged by C05-R4, assumed here"]


class _PimplLocks(locks.LockAnalysis):
    """Transport::Impl is Transport's private implementation struct: declared in Transport's private section, defined only in
    transport_impl.hpp, reachable only through the private member Transport::_impl.  Its member functions (and those of the
    classes nested in it) are `public` only because it is a struct; nobody outside this file can name them.  So a non-virtual
    member function of Impl whose address is never taken has its entry lockset from its call sites (meet over all of them),
    exactly like a private method — a helper extracted into Impl and called under syncMutex is analysed with syncMutex held,
    one that has a single lock-free call site is not."""

    def _pimpl_internal(self):
        if not hasattr(self, "_pimpl"):
            fb = self.fb
            rec = fb.record(IMPL)
            if not rec["file"].endswith(FILE):
                raise AnalysisBroken("Transport::Impl is no longer defined in %s" % FILE)
            holders = [(r["name"], fld["n"]) for rs in fb.records.values() for r in rs for fld in r.get("fields", [])
                       if "iora::network::Transport::Impl>" in fld.get("t", "") or fld.get("t", "").startswith(IMPL + " ")]
            # (a back-reference kept by Impl itself or by a class nested in it — `Impl &owner` in a guard — leaks nothing)
            if {h for h in set(holders) if not (h[0] == IMPL or h[0].startswith(IMPL + "::"))} - {("iora::network::Transport", "_impl")}:
                raise AnalysisBroken("Transport::Impl is held by %s, not only by Transport::_impl: it is no longer a private implementation" % holders[:3])
            taken = {n["n"] for f in fb.functions if f.ok for n in f.nodes.values() if n.get("k") in ("fref", "gref") and isinstance(n.get("n"), str)}
            # … and free functions of the file that take the Impl (or a class nested in it) as a parameter: nobody else has one
            self._pimpl = {f.sig for f in fb.functions if f.ok and f.name not in taken and self.cg.callers.get(f.name) and not f.raw.get("virtual") and
                           ((f.kind == "method" and (f.cls == IMPL or (f.cls or "").startswith(IMPL + "::"))) or
                            (f.kind == "function" and f.file.endswith(FILE) and any(IMPL in p_.get("t", "") for p_ in f.params)))}
        return self._pimpl

    def _is_internal(self, f):
        if super()._is_internal(f):
            return True
        return f.name not in self.entry_override and f.sig in self._pimpl_internal()

    def adopt(self, syn, orig):
        """a synthetic (inlined) copy of `orig` starts with orig's entry lockset"""
        self._entry[syn.sig] = self._entry.get(orig.sig)
        return self


def _la(ctx):
    # same cache slot as ctx.locks(key="transport") (C02/C04/C05 reach the analysis through this function)
    k = (ctx.config, "transport")
    if k not in ctx._la:
        ctx._la[k] = _PimplLocks(ctx.fb(), aliases=ALIASES, entry_override=ENTRY)
    return ctx._la[k]


# ------------------------------------------------------------------ following calls into helpers of the same class
#
# The clauses below are stated over four anchors (the engine data / close callbacks, receiveSync, setReadMode).  A behaviour-
# preserving edit may move any part of them into a helper of Transport / Transport::Impl.  Instead of teaching every clause
# to look into callees, the anchor is analysed on a *copy with those calls expanded in place*: the callee's CFG is spliced in
# at the call element, `this` becomes the receiver expression of the call, a parameter whose argument is a plain access path
# (or constant) and which the callee does not overwrite is replaced by that argument, any other parameter becomes a local
# initialised with the argument, `return x` becomes an `iret` node (k="iret", "of" = id of the call node) that falls through
# to the rest of the caller's block.  A helper that consists of one effect-free `return <expr>` is substituted as an
# expression (`isReclaimable(*it->second)` reads as the conjunction it returns).  Everything the analyses use (lock state,
# dominance, path predicates, field paths) then sees the code as if it had never been moved.  Nothing is keyed on a helper's
# name: which calls are expanded is decided by where the callee is defined and by its shape.

_IMPURE_STD = {"swap", "clear", "pop_front", "pop_back", "release", "reset", "store", "exchange", "fetch_add", "fetch_sub", "compare_exchange_strong",
               "compare_exchange_weak", "notify_one", "notify_all", "unlock", "operator++", "operator--", "operator[]", "move", "forward"}


def _own_helper(fb, name):
    """the single definition of a non-virtual named function defined in transport_impl.hpp that belongs to Transport, to
    Transport::Impl or a class nested in it, or is a free function of that file; None for anything else"""
    gs = fb.by_name.get(name) or []
    if len({(g.file, g.line) for g in gs}) != 1:
        return None
    g = gs[0]
    if not g.ok or g.kind not in ("method", "function") or not g.file.endswith(FILE) or g.raw.get("virtual") or g.raw.get("trys"):
        return None
    if g.kind == "method" and not (g.cls == IMPL or (g.cls or "").startswith(IMPL + "::") or g.cls == "iora::network::Transport"):
        return None
    return g


def _raw_walk(x):
    """every dict below x (expression nodes, decl-variable entries, capture entries)"""
    st = [x]
    while st:
        y = st.pop()
        if isinstance(y, dict):
            yield y
            st.extend(y.values())
        elif isinstance(y, list):
            st.extend(y)


def _raw_trees(raw):
    for b in raw["blocks"]:
        for re_ in b["elems"]:
            if "root" in re_:
                yield re_["root"]
            if re_.get("k") == "init" and isinstance(re_.get("v"), dict):
                yield re_["v"]
        if b.get("label") and isinstance(b["label"].get("v"), dict):
            yield b["label"]["v"]


def _raw_max(raw):
    """(largest node id, largest block id, largest declaration id) used anywhere in the record"""
    mi = md = 0
    for t in _raw_trees(raw):
        for y in _raw_walk(t):
            if isinstance(y.get("id"), int):
                mi = max(mi, y["id"])
            if isinstance(y.get("d"), int):
                md = max(md, y["d"])
    for b in raw["blocks"]:
        for re_ in b["elems"]:
            if isinstance(re_.get("e"), int):
                mi = max(mi, re_["e"])
            if isinstance(re_.get("d"), int):
                md = max(md, re_["d"])
    for p_ in raw.get("params", []):
        if isinstance(p_.get("d"), int):
            md = max(md, p_["d"])
    return mi, max(b["id"] for b in raw["blocks"]), md


def _clone(n, nid, fix):
    """deep copy of a tree: ids through nid(old), every copied dict through fix(copy) (which may return a replacement)"""
    if isinstance(n, list):
        return [_clone(x, nid, fix) for x in n]
    if not isinstance(n, dict):
        return n
    m = {k: _clone(v, nid, fix) for k, v in n.items()}
    if isinstance(m.get("id"), int):
        m["id"] = nid(m["id"])
    return fix(m)


def _arg_value(a):
    """the expression a parameter stands for: copy construction of a by-value argument and casts looked through"""
    while isinstance(a, dict):
        if a.get("k") == "cast" and isinstance(a.get("v"), dict):
            a = a["v"]
        elif a.get("k") == "ctor" and a.get("copy") and len([x for x in a.get("args", []) if not x.get("def")]) == 1:
            a = [x for x in a["args"] if not x.get("def")][0]
        else:
            break
    return a


def _pure_expr(n):
    """no assignment, increment or call with an effect anywhere in the expression"""
    for x in walk(n):
        k = x.get("k")
        if k == "bin" and x["op"].endswith("=") and x["op"] not in ("==", "!=", "<=", ">="):
            return False
        if k == "un" and ("++" in x["op"] or "--" in x["op"]):
            return False
        if k in ("call", "mcall", "opcall"):
            c = x.get("callee") or ""
            from ..cfg import NOTHROW_STD
            if k == "mcall" and last(c) in ("size", "data", "empty", "begin", "end", "length") and not [a for a in x.get("args", []) if not a.get("def")]:
                continue      # an accessor without arguments, of whatever class (BufferView::size())
            if not c.startswith("std::") or last(c) not in NOTHROW_STD or last(c) in _IMPURE_STD:
                return False
        if k in ("ctor", "new", "delete", "lambda", "throw"):
            return False
    return True


class _Expander:
    def __init__(self, fb):
        self.fb = fb
        self.done = {}        # callee name -> expanded raw record
        self.writes = {}      # callee name -> set of parameter indices the callee may overwrite

    def _param_written(self, g):
        if g.name not in self.writes:
            ds = {p_["d"]: i for i, p_ in enumerate(g.params) if "d" in p_}
            w = set()
            for n in g.nodes.values():
                if n.get("k") == "var" and n.get("d") in ds and access.classify(g, n) in ("write", "rw", "addr"):
                    w.add(ds[n["d"]])
            self.writes[g.name] = w
        return self.writes[g.name]

    def raw_of(self, f, stack=()):
        """raw record of f with every call to an own helper expanded (helpers first, so one level of splicing is enough)"""
        if f.kind != "lambda" and f.name in self.done:
            return self.done[f.name]
        raw = copy.deepcopy(f.raw)
        expanded = []
        for rounds in range(40):
            site = self._next_site(raw, stack + (f.name,))
            if site is None:
                break
            b, i, node, g, lam = site
            expanded.append(g.name)
            if not self._as_expression(raw, node, g, lam, stack + (f.name,)):
                self._splice(raw, b, i, node, g, lam, stack + (f.name,))
        else:
            raise AnalysisBroken("%s: more than 40 helper calls to expand" % short(f.name))
        for rounds in range(4):
            bound = self._bind_locals(raw)
            if not bound:
                break
            expanded += bound
        raw["_expanded"] = expanded + [x for g in set(expanded) for x in self.done.get(g, {}).get("_expanded", [])]
        if f.kind != "lambda":
            self.done[f.name] = raw
        return raw

    def _bind_locals(self, raw):
        """Locals that are only another name for something: (a) a reference local bound to an access path
        (`std::vector<…> &pending = rx->data;`) is read as that path, (b) a const local of built-in type whose initialiser is an
        effect-free expression over locals / parameters only (`const std::size_t incoming = data.size();`) is read as that
        expression — in both cases only where nothing the expression names is written between the declaration and the use
        (a reference cannot be re-bound; the variables on its path must still hold what they held).  Returns the names bound."""
        tmp = Function(copy.deepcopy({k: v for k, v in raw.items() if k != "_expanded"}))
        if not tmp.ok:
            return []
        cands = {}
        for e in tmp.stmts():
            if e.node.get("k") != "decl":
                continue
            for v in e.node["vars"]:
                t, init = (v.get("t") or "").strip(), v.get("init")
                if not isinstance(init, dict) or not isinstance(v.get("d"), int) or locks.LOCK_TYPES.match(t):
                    continue
                a = _arg_value(strip_wrappers(init))
                if a is None:
                    continue
                vars_ = [x for x in walk(a) if x.get("k") == "var"]
                if t.endswith("&") and not t.endswith("&&") and access_path(a) is not None and a.get("k") != "var":
                    cands[v["d"]] = (e, a, vars_, v["n"])
                elif t.startswith("const ") and not any(c in t for c in "<:&*") and _pure_expr(a) and vars_ and \
                        not any(x.get("k") in ("member", "this", "gvar") for x in walk(a)):
                    cands[v["d"]] = (e, a, vars_, v["n"])
        table = {}
        for d, (de, a, vars_, name) in cands.items():
            uses = [tmp.elem_for(x) for x in tmp.nodes.values() if x.get("k") == "var" and x.get("d") == d]
            touched = []
            for y in vars_:
                touched += [we for (we, _v) in _var_writes(tmp, y["d"]) if we is not de]
                touched += [tmp.elem_for(x) for x in tmp.nodes.values() if x.get("k") == "var" and x.get("d") == y["d"] and "id" in x and
                            access.classify(tmp, x) in ("write", "rw", "addr")]
            ok = bool(uses) and all(u is not None for u in uses)
            for u in uses:
                for w in touched:
                    if w is None or w is de:
                        continue
                    # the declaration, then the write, then the use (without the declaration being executed again in between)
                    if (w is u or search(tmp, w, lambda x, u=u: x is u, stop=lambda x: x is de, eh=False) is not None) and \
                            search(tmp, de, lambda x, w=w: x is w, stop=lambda x: x is de, eh=False) is not None:
                        ok = False
            if ok:
                table[d] = (a["id"], name)
        if not table:
            return []
        ids = {}
        for t_ in _raw_trees(raw):
            for y in _raw_walk(t_):
                if isinstance(y.get("id"), int):
                    ids[y["id"]] = y
        mi = _raw_max(raw)[0]
        ctr = [mi]

        def fresh():
            ctr[0] += 1
            return ctr[0]

        def fix(m):
            if m.get("k") == "var" and m.get("d") in table:
                src = ids.get(table[m["d"]][0])
                if src is not None:
                    return _clone(src, lambda old: fresh(), lambda z: z)
            return m
        for bb in raw["blocks"]:
            for re_ in bb["elems"]:
                if "root" in re_:
                    re_["root"] = _clone(re_["root"], lambda old: old, fix)
                    if re_["root"].get("id") != re_.get("e"):
                        re_["root"] = dict(re_["root"], id=re_["e"])
        _drop_dangling(raw)
        return ["&" + name for (_i, name) in table.values()]

    def _next_site(self, raw, stack):
        ids = {}
        for t in _raw_trees(raw):
            for y in _raw_walk(t):
                if isinstance(y.get("id"), int):
                    ids[y["id"]] = y
        for b in raw["blocks"]:
            for i, re_ in enumerate(b["elems"]):
                if not isinstance(re_.get("e"), int) or re_.get("k") == "dtor_delete":
                    continue      # implicit destructor / initialiser elements
                n = ids.get(re_["e"])
                if n is None or n.get("k") not in ("call", "mcall", "opcall") or n.get("inl") or n.get("virt"):
                    continue
                g, lam = (_own_helper(self.fb, n.get("callee") or ""), None) if n["k"] != "opcall" else self._local_lambda(raw, n)
                if g is None:
                    continue
                if g.name in stack:
                    n["inl"] = "recursive"
                    continue
                if len(stack) > 4:
                    raise AnalysisBroken("helper calls nested deeper than 4 below %s" % short(stack[0]))
                return b, i, n, g, lam
        return None

    def _local_lambda(self, raw, n):
        """(Function, lambda node) when n calls a lambda that the function being expanded keeps in a local variable — the other
        way of writing a helper — and whose captures can be read as the captured variables themselves: by reference, `this`,
        or a copy of a variable the function never assigns again.  (None, None) otherwise."""
        if n.get("op") != "()" or "::$lambda" not in (n.get("callee") or "") or not n.get("args"):
            return None, None
        v = strip_casts(n["args"][0])
        if v is None or v.get("k") != "var":
            return None, None
        lam, assigned = None, set()
        for t in _raw_trees(raw):
            for y in _raw_walk(t):
                if "k" not in y and y.get("d") == v.get("d") and isinstance(y.get("init"), dict):
                    i = strip_casts(y["init"])
                    if i is not None and i.get("k") == "lambda" and i.get("fn") == n["callee"]:
                        lam = i
                k = y.get("k")
                tgt = None
                if k == "bin" and y.get("op", "").endswith("=") and y["op"] not in ("==", "!=", "<=", ">="):
                    tgt = y.get("lhs")
                elif k == "opcall" and (y.get("op") or "").endswith("=") and y["op"] not in ("==", "!=", "<=", ">=") and y.get("args"):
                    tgt = y["args"][0]
                elif k == "un" and ("++" in y.get("op", "") or "--" in y.get("op", "")):
                    tgt = y.get("v")
                tgt = strip_casts(tgt) if isinstance(tgt, dict) else None
                if tgt is not None and tgt.get("k") == "var":
                    assigned.add(tgt.get("d"))
        gs = self.fb.by_name.get(n["callee"]) or []
        if lam is None or len({(g.file, g.line) for g in gs}) != 1:
            return None, None
        g = gs[0]
        if not g.ok or g.kind != "lambda" or not g.file.endswith(FILE) or g.raw.get("trys"):
            return None, None
        for c in lam.get("caps", []):
            if c.get("n") != "this" and c.get("by") != "ref" and c.get("d") in assigned:
                return None, None
        return g, lam

    # ---- parameter / receiver binding shared by both forms of expansion
    def _binding(self, node, g, lam, fresh):
        """(substitution: param decl id -> argument expression to copy in its place, bound: [(param, argument)] that need a
        local, receiver expression standing for `this`)"""
        args = list(node.get("args", []))
        recv = None
        subst, bound = {}, []
        if node.get("k") == "mcall":
            o = node.get("obj")
            if o is not None:
                recv = o if node.get("arrow") or o.get("k") == "this" else {"id": -1, "k": "un", "op": "&", "v": o}
        elif lam is not None:
            # a local lambda: its `this` is the enclosing function's, a captured variable is the variable
            args = args[1:]
            recv = {"id": -1, "k": "this"}
            caps = {c.get("n"): c for c in lam.get("caps", [])}
            for x in g.nodes.values():
                if x.get("k") == "var" and x.get("cap") and isinstance(x.get("d"), int) and x["d"] not in subst:
                    c = caps.get(x["n"])
                    if c is None or not isinstance(c.get("d"), int):
                        raise AnalysisBroken("%s: captured variable `%s` of a local lambda not found in its capture list" % (short(g.name), x.get("n")))
                    subst[x["d"]] = {"id": -1, "k": "var", "n": x["n"], "d": c["d"], "t": x.get("t", "")}
        written = self._param_written(g)
        for i, p_ in enumerate(g.params):
            if i >= len(args) or "d" not in p_:
                continue
            a = _arg_value(args[i])
            isref = p_.get("t", "").rstrip().endswith("&")
            plain = access_path(a) is not None or a.get("k") in ("int", "bool", "enum", "null", "char", "str", "float", "this")
            if plain and (isref or i not in written):
                subst[p_["d"]] = a
            else:
                bound.append((p_, args[i]))
        return subst, bound, recv

    def _fixer(self, g, subst, recv, doff, fresh, callid, ioff=0):
        pds = {p_["d"] for p_ in g.params if "d" in p_}

        def plain_copy(x):
            return _clone(x, lambda old: fresh(), lambda m: m)

        def fix(m):
            k = m.get("k")
            if k == "this":
                if recv is None:
                    raise AnalysisBroken("%s uses `this` but is called without a receiver" % short(g.name))
                return plain_copy(recv)
            if k == "var" and m.get("d") in subst:
                return plain_copy(subst[m["d"]])
            if isinstance(m.get("d"), int) and ("k" not in m or k in ("var",)):
                if m["d"] in pds:
                    m.pop("parm", None)      # no longer a parameter of the function the copy lives in
                m["d"] += doff
            if k == "iret" and isinstance(m.get("of"), int):
                m["of"] += ioff              # a return of a helper's helper: its call node was renumbered with the rest
            if ioff and isinstance(m.get("id"), int) and "k" in m and "org" not in m:
                m["org"] = [g.name, m["id"] - ioff]      # where the node really lives (function, id there)
            if k == "ret":
                m["k"] = "iret"
                m["of"] = callid
            return m
        return fix

    def _as_expression(self, raw, node, g, lam, stack):
        """a helper that is one effect-free `return <expr>`: the call node becomes that expression"""
        graw = self.raw_of(g, stack)
        roots = [re_["root"] for b in graw["blocks"] for re_ in b["elems"] if "root" in re_]
        others = [re_ for b in graw["blocks"] for re_ in b["elems"] if "e" not in re_]
        if len(roots) != 1 or others or roots[0].get("k") != "ret" or not isinstance(roots[0].get("v"), dict) or not _pure_expr(roots[0]["v"]):
            return False
        mi, mb, md = _raw_max(raw)
        ctr = [mi]

        def fresh():
            ctr[0] += 1
            return ctr[0]
        subst, bound, recv = self._binding(node, g, lam, fresh)
        if bound:
            return False
        expr = _clone(roots[0]["v"], lambda old: fresh(), self._fixer(g, subst, recv, md + 1, fresh, node["id"]))
        keep = {"id": node["id"], "l": node.get("l"), "inl": g.name, "was": node.get("k")}
        node.clear()
        node.update(expr)
        node.update(keep)
        return True

    def _splice(self, raw, b, i, node, g, lam, stack):
        graw = self.raw_of(g, stack)
        mi, mb, md = _raw_max(raw)
        gmi, gmb, gmd = _raw_max(graw)
        ioff, boff, doff = mi + 1, mb + 1, md + 1
        ctr = [ioff + gmi + 1]

        def fresh():
            ctr[0] += 1
            return ctr[0]
        subst, bound, recv = self._binding(node, g, lam, fresh)
        fix = self._fixer(g, subst, recv, doff, fresh, node["id"], ioff)
        # lexical try / catch context of the call: the expanded statements run inside it
        tmp = Function(copy.deepcopy({k: v for k, v in raw.items() if k != "_expanded"}))
        ce = tmp.elem_of.get(node["id"])
        ctx_try, ctx_catch = (ce.try_id, ce.catch_id) if ce is not None else (0, 0)
        cont = {"id": boff + gmb + 1, "elems": b["elems"][i:], "succs": b["succs"]}
        for k in ("term", "noreturn"):
            if k in b:
                cont[k] = b.pop(k)
        b["elems"] = b["elems"][:i]
        b["succs"] = [graw["entry"] + boff]
        newblocks = []
        for gb in graw["blocks"]:
            nb = {"id": gb["id"] + boff, "elems": [], "succs": [(x + boff) if isinstance(x, int) else x for x in gb["succs"]]}
            for k in ("term", "label", "noreturn"):
                if k in gb:
                    nb[k] = copy.deepcopy(gb[k])
            if "term" in nb:
                for k in ("cond", "fullcond"):
                    if isinstance(nb["term"].get(k), int):
                        nb["term"][k] += ioff
            if nb.get("label") and isinstance(nb["label"].get("v"), dict):
                nb["label"]["v"] = _clone(nb["label"]["v"], lambda old: old + ioff, fix)
            for re_ in gb["elems"]:
                ne = {k: v for k, v in re_.items() if k != "root"}
                if isinstance(ne.get("e"), int):
                    ne["e"] += ioff
                if "e" not in re_ and isinstance(ne.get("d"), int):
                    ne["d"] += doff          # implicit destructor of a callee local
                if "root" in re_:
                    ne["root"] = _clone(re_["root"], lambda old: old + ioff, fix)
                    # a substituted node keeps no id of the callee: the element must still name its root
                    if ne["root"].get("id") != ne.get("e"):
                        ne["root"] = dict(ne["root"], id=ne["e"])
                    if ctx_try and not ne.get("try"):
                        ne["try"] = ctx_try
                    if ctx_catch and not ne.get("catch"):
                        ne["catch"] = ctx_catch
                nb["elems"].append(ne)
            if gb["id"] == graw["exit"]:
                nb["succs"] = [cont["id"]]
            newblocks.append(nb)
        # parameters that could not be replaced by their argument: locals initialised at the head of the expansion
        if bound:
            ent = [nb for nb in newblocks if nb["id"] == graw["entry"] + boff][0]
            decls = []
            for (p_, a) in bound:
                did = fresh()
                decls.append({"e": did, "root": {"id": did, "k": "decl", "l": node.get("l"), "vars": [
                    {"n": p_["n"], "d": p_["d"] + doff, "t": p_["t"], "init": _clone(a, lambda old: fresh(), lambda m: m)}]}})
                if ctx_try:
                    decls[-1]["try"] = ctx_try
            ent["elems"] = decls + ent["elems"]
        node["inl"] = g.name
        raw["blocks"].extend(newblocks + [cont])
        _drop_dangling(raw)


def _drop_dangling(raw):
    """elements of sub-expressions that were replaced (parameter / alias uses) no longer exist in any tree"""
    have = set()
    for t in _raw_trees(raw):
        for y in _raw_walk(t):
            if isinstance(y.get("id"), int):
                have.add(y["id"])
    for bb in raw["blocks"]:
        bb["elems"] = [re_ for re_ in bb["elems"] if not isinstance(re_.get("e"), int) or re_["e"] in have or "root" in re_]


def expanded(ctx, f):
    """f, or — when f calls helpers of its own class — a copy of f with those calls expanded in place (see above)."""
    fb = ctx.fb()
    cache = fb.__dict__.setdefault("_c03_expanded", {})
    key = (f.sig, f.file, f.line)
    if key in cache:
        return cache[key]
    ex = fb.__dict__.setdefault("_c03_expander", None) or _Expander(fb)
    fb.__dict__["_c03_expander"] = ex
    raw = ex.raw_of(f)
    if not raw.get("_expanded"):
        cache[key] = f
        return f
    g = Function({k: v for k, v in raw.items() if k != "_expanded"})
    if not g.ok:
        raise AnalysisBroken("could not rebuild %s with its helpers expanded" % short(f.name))
    g.sig = f.sig + "#expanded"
    g.expanded_from, g.expanded_helpers = f, sorted(set(raw["_expanded"]))
    g.enclosing = f.enclosing
    if hasattr(f, "lambda_node"):
        g.lambda_node = f.lambda_node
    for n in g.nodes.values():
        if n.get("k") == "lambda":
            for lf in fb.by_name.get(n["fn"], []):
                if lf.file == f.file:
                    g.lambdas.append((n, lf))
    _la(ctx).adopt(g, f)
    cache[key] = g
    return g


def anchor(ctx, f):
    """expanded(f) for a rule that reads f as a whole (and reports what is missing from it).  If f still calls code of this
    file that could not be expanded (recursive, virtual, contains try/catch, a lambda whose captures cannot be read as the
    variables) and that code — or anything it calls — touches the sync-receive state or invokes a std::function, the rule
    would be looking at a function with a hole in it: that is a refusal, not a verdict."""
    fb, cg = ctx.fb(), ctx.cg()
    g = expanded(ctx, f)
    watched = set(GUARDED) | {SRB + "::cv"}
    for n in g.nodes.values():
        if n.get("k") not in ("call", "mcall", "opcall") or (n.get("inl") and n["inl"] != "recursive") or n.get("was"):
            continue
        hs = [h for h in fb.by_name.get(n.get("callee") or "", []) if h.ok and h.file.endswith(FILE) and h.kind in ("method", "function", "lambda")]
        if not hs:
            continue
        sigs = cg.reach(hs)
        for h in fb.functions:
            if h.sig in sigs and h.ok and h.file.endswith(FILE):
                if any((x.get("k") == "member" and x.get("n") in watched) or (x.get("k") == "opcall" and x.get("callee") == "std::function::operator()") for x in h.nodes.values()):
                    raise AnalysisBroken("%s calls %s, which works on the sync-receive state (in %s) but cannot be expanded in place (recursive, virtual, try/catch or "
                                         "by-copy captures): the rule cannot read the function as a whole" % (short(f.name), short(hs[0].name), short(h.name)))
    return g


# ------------------------------------------------------------------ small dataflow helpers (no local-variable names)

def _var_writes(f, d):
    """[(element, value expression | None)] for everything that gives the variable with declaration id d a value"""
    out = []
    for e in f.stmts():
        n = e.node
        k = n.get("k")
        if k == "decl":
            for v in n["vars"]:
                if v.get("d") == d:
                    out.append((e, v.get("init")))
        elif k in ("bin", "opcall") and (n.get("op") or "").endswith("=") and n.get("op") not in ("==", "!=", "<=", ">="):
            if k == "opcall" and len(n.get("args", [])) != 2:
                continue
            lhs, rhs = (n["lhs"], n["rhs"]) if k == "bin" else (n["args"][0], n["args"][1])
            l = strip_casts(lhs)
            if l is not None and l.get("k") == "var" and l.get("d") == d:
                out.append((e, rhs if n["op"] == "=" else None))
        elif k == "un" and ("++" in n["op"] or "--" in n["op"]):
            l = strip_casts(n["v"])
            if l is not None and l.get("k") == "var" and l.get("d") == d:
                out.append((e, None))
    return out


def _reaching(f, at, d):
    """(element, value) of the one write of variable d that reaches element `at` on every path, or None"""
    ws = _var_writes(f, d)
    dom = [(e, v) for (e, v) in ws if e is not at and elem_dominates(f, e, at, eh=False)]
    if not dom:
        return None
    best = dom[0]
    for c in dom[1:]:
        if elem_dominates(f, best[0], c[0], eh=False):
            best = c
    for (e, v) in ws:
        if e is best[0] or e is at:
            continue
        # another write between the chosen one and the use
        if search(f, best[0], lambda x, e=e: x is e, stop=lambda x: x is at, eh=False) is not None and search(f, e, lambda x: x is at, eh=False) is not None:
            return None
    return best


def _stands_for(f, at, node, depth=8):
    """the expressions `node` stands for where it is evaluated (element `at`), outermost first: a local is followed to the one
    value that reaches it, a call that was expanded in place to the one value it returns, copies and casts are looked through"""
    return [n for (n, _at) in _stands_for_at(f, at, node, depth)]


def _stands_for_at(f, at, node, depth=8):
    """_stands_for with the element at which each expression of the chain is evaluated"""
    chain = []
    while depth and isinstance(node, dict):
        depth -= 1
        n = _arg_value(strip_wrappers(node))
        if n is None:
            break
        chain.append((n, at))
        # BufferView{v.data(), v.size()}: a view of all of v is v
        if n.get("k") in ("ctor", "ilist") and "BufferView" in (n.get("t", "") + n.get("cls", "")):
            parts = [_payload_part(a) for a in (n.get("args") or n.get("vals") or []) if not a.get("def")]
            if len(parts) == 2 and parts[0] and parts[1] and parts[0][0] == "data" and parts[1][0] == "size" and parts[0][1] == parts[1][1]:
                node = _arg_value(strip_casts([a for a in (n.get("args") or n.get("vals")) if not a.get("def")][0])["obj"])
                continue
        if n.get("k") == "var" and isinstance(n.get("d"), int):
            rv = _reaching(f, at, n["d"])
            if rv is None or rv[1] is None:
                break
            at, node = rv
        elif n.get("k") in ("call", "mcall", "opcall") and n.get("inl"):
            rets = [x for x in f.nodes.values() if x.get("k") == "iret" and x.get("of") == n["id"]]
            if len(rets) != 1 or not isinstance(rets[0].get("v"), dict):
                break
            at, node = f.elem_for(rets[0]), rets[0]["v"]
        else:
            break
    return chain


def _cannot_tell(f, chain):
    """the chain of _stands_for ends in something the rule cannot read: a local that gets its value in several places, or the
    result of a function that is not expanded — 'cannot tell' is a refusal, not a report"""
    if not chain:
        return False
    end = chain[-1]
    return (end.get("k") == "var" and not _own_param(f, end)) or \
        (end.get("k") in ("call", "mcall", "opcall") and not end.get("inl") and not (end.get("callee") or "").startswith("std::"))


def _is_caller_capacity(f, at, q):
    """q (evaluated at element `at`) stands for an integer parameter of f itself"""
    return any(_own_param(f, y) and "long" in (y.get("t") or "") for y in _stands_for(f, at, q))


def _is_size_of(n, field):
    n = strip_casts(n)
    return n is not None and n.get("k") == "mcall" and last(n.get("callee", "")) == "size" and field_of(n.get("obj")) == field


def _iter_of(n):
    """(method, field) when n is `<field>.begin()/end()/cbegin()/cend()` (iterator conversions looked through), and the offset
    expression when it is `<that> + k`; (None, None, None) otherwise"""
    n = strip_casts(strip_wrappers(n))
    while n is not None and n.get("k") == "ctor" and len([a for a in n.get("args", []) if not a.get("def")]) == 1:
        n = strip_casts(strip_wrappers([a for a in n["args"] if not a.get("def")][0]))
    if n is None:
        return None, None, None
    if n.get("k") == "mcall" and last(n.get("callee", "")) in ("begin", "end", "cbegin", "cend") and not n.get("args"):
        return last(n["callee"]).lstrip("c"), field_of(n.get("obj")), None
    if n.get("k") == "call" and n.get("callee") == "std::next" and len([a for a in n["args"] if not a.get("def")]) == 2:
        m, fld, off = _iter_of(n["args"][0])
        return (m, fld, strip_casts(n["args"][1])) if m is not None and off is None else (None, None, None)
    if n.get("k") in ("bin", "opcall") and n.get("op") == "+" and (n.get("k") == "bin" or len(n.get("args", [])) == 2):
        a, b = (n["lhs"], n["rhs"]) if n.get("k") == "bin" else (n["args"][0], n["args"][1])
        m, fld, off = _iter_of(a)
        if m is not None and off is None:
            return m, fld, strip_casts(b)
        m, fld, off = _iter_of(b)
        if m is not None and off is None:
            return m, fld, strip_casts(a)
    return None, None, None


def _empty_test(n, field):
    """True when n holds exactly if <field> is empty, False when exactly if it is not, None otherwise:
    `f.empty()`, `f.size() == 0`, `f.size() != 0`, `f.size() > 0`, `f.size() >= 1`, `f.size() < 1` (either way round)"""
    n = strip_casts(n)
    if n is None:
        return None
    if n.get("k") == "mcall" and last(n.get("callee", "")) == "empty" and field_of(n.get("obj")) == field:
        return True
    co = common.cmp_oriented(n, lambda x: const_value(x) is not None)
    if co and _is_size_of(co[1], field):
        op, c = co[0], const_value(co[2])
        if (op, c) in (("==", 0), ("<", 1), ("<=", 0)):
            return True
        if (op, c) in (("!=", 0), (">", 0), (">=", 1)):
            return False
    return None


def _count_test(n, field):
    """True when n holds exactly if the map <field> has NO entry for the key asked, False when exactly if it has one
    (`m.count(k) == 0`, `m.count(k) != 0`, `m.count(k) > 0`, bare `m.count(k)` is handled by the caller's `!`), None otherwise"""
    n = strip_casts(n)
    if n is None:
        return None

    def is_count(x):
        x = strip_casts(x)
        return x is not None and x.get("k") == "mcall" and last(x.get("callee", "")) == "count" and field_of(x.get("obj")) == field
    if is_count(n):
        return False
    co = common.cmp_oriented(n, lambda x: const_value(x) is not None)
    if co and is_count(co[1]):
        op, c = co[0], const_value(co[2])
        if (op, c) in (("==", 0), ("<", 1), ("<=", 0)):
            return True
        if (op, c) in (("!=", 0), (">", 0), (">=", 1)):
            return False
    return None


def _min_of(n):
    """(x, y) when n computes min(x, y): std::min(x, y), or `x < y ? x : y` in any of its spellings; None otherwise"""
    n = strip_casts(strip_wrappers(n))
    if n is None:
        return None
    if n.get("k") == "call" and n.get("callee") == "std::min" and len(n["args"]) >= 2:
        return strip_casts(strip_wrappers(n["args"][0])), strip_casts(strip_wrappers(n["args"][1]))
    if n.get("k") == "cond":
        cp = common.cmp_parts(strip_casts(n["c"]))
        if cp and cp[0] in ("<", "<=", ">", ">="):
            a, b, t, f_ = (show(strip_casts(x)) for x in (cp[1], cp[2], n["t"], n["f"]))
            small_first = cp[0] in ("<", "<=")
            if (t, f_) == ((a, b) if small_first else (b, a)):
                return strip_casts(cp[1]), strip_casts(cp[2])
    return None


def _own_param(f, x):
    """x is a use of one of f's own parameters (not of a helper's parameter that came in by expansion, not a capture)"""
    return isinstance(x, dict) and x.get("k") == "var" and isinstance(x.get("d"), int) and x["d"] in {p_.get("d") for p_ in f.params} and not x.get("cap")


def _is_readmode(t):
    t = (t or "").replace("const ", "").replace("&", "").strip()
    return t == "iora::network::ReadMode"


def _lock_released(e):
    """the element ends a critical section: destructor of an RAII lock, explicit unlock, or a condition-variable wait"""
    if e.kind == "dtor":
        return bool(locks.LOCK_TYPES.match(e.raw.get("t", "")))
    if e.kind != "stmt":
        return False
    n = e.node
    if n.get("k") != "mcall":
        return False
    c = n.get("callee", "")
    return c in ("std::unique_lock::unlock", "std::shared_lock::unlock") or c in locks.MUTEX_UNLOCK or \
        (c.startswith("std::condition_variable") and last(c) in common.CV_WAIT)


def lambdas(ctx):
    fb, cg = ctx.fb(), ctx.cg()
    setup = IMPL + "::setupEngineCallbacks"
    return {k: common.lambda_assigned_to(fb, cg, "Callbacks::" + k, setup) for k in ("onAccept", "onConnect", "onData", "onClose", "onError")}


GUARDED = [IMPL + "::" + x for x in ("readModes", "receiveBuffers", "pendingConnects", "shuttingDown", "activeReceives",
                                      "activeFlushes", "activeConnects")] + \
          [SRB + "::" + x for x in ("data", "hasData", "closed", "waiters", "flushing", "overflow")] + \
          [SCO + "::" + x for x in ("done", "result")]


def r1(ctx, r):
    fb, la = ctx.fb(), _la(ctx)
    # closed set: the guarded fields must exist
    rec = {f["n"] for f in fb.record(IMPL)["fields"]}
    for g in GUARDED[:7]:
        if last(g) not in rec:
            raise AnalysisBroken("Transport::Impl has no field %s" % last(g))
    for fld in GUARDED:
        common.guarded_by(r, fb, la, fld, SYNC, files=[FILE], exempt={
            IMPL + "::<dtor>": "destruction after the teardown handshake"})
    r.floor(60, "access sites of syncMutex-guarded state")


APPENDERS = ("insert", "append", "push_back", "emplace_back", "assign", "resize")


def _ondata(ctx):
    """the engine data callback, with calls into helpers of Transport::Impl expanded in place"""
    return anchor(ctx, lambdas(ctx)["onData"])


def r2(ctx, r):
    la = _la(ctx)
    od = _ondata(ctx)
    reads = common.member_calls_on(od, IMPL + "::readModes")
    ins = common.member_calls_on(od, SRB + "::data", APPENDERS)
    r.instance(len(ins))
    if not reads:
        raise AnalysisBroken("onData lambda no longer reads readModes")
    if not ins:
        # the buffer handed to an algorithm / inserter (std::copy(..., back_inserter(buf->data))): an append the rule cannot follow
        handed = [x for x in od.nodes.values() if x.get("k") in ("call", "ctor") and not x.get("inl") and
                  any(field_of(strip_wrappers(a)) == SRB + "::data" for a in x.get("args", []) if isinstance(a, dict))]
        if handed:
            raise AnalysisBroken("onData: the sync receive buffer is filled through `%s`, a form of append the rule does not follow" % show(handed[0])[:60])
        r.fail(od, None, "no append", "the data callback no longer appends arriving bytes to the sync receive buffer")
        return
    tests = [e for e in od.stmts() if e.node.get("k") == "bin" and any(x.get("k") == "member" and x["n"].endswith("::maxSyncReceiveBuffer") for x in walk(e.node))]
    for i in ins:
        ok, w = common.same_section(od, la, reads[0], i, SYNC)
        r.expect(ok, od, i, "mode read / append split", "syncMutex is released between the read of the session's read mode and the append "
                 "to its buffer (TOCTOU with setReadMode: bytes could be buffered after the switch to Async and never delivered)",
                 okdesc="onData: readModes.find … data.insert in one syncMutex section", witness=w)
        for t in tests:
            ok, w = common.same_section(od, la, t, i, SYNC)
            r.expect(ok, od, i, "size test / append split", "the lock is released between the capacity test and the append", witness=w,
                     okdesc="onData: capacity test and append in one section")


def _comes_from(f, v, field, depth=3):
    """the value expression v reads `field`, directly or through locals whose values do (iterator of a find, copies)"""
    if not isinstance(v, dict):
        return False
    for x in walk(v):
        if x.get("k") == "member" and x.get("n") == field:
            return True
        if depth and x.get("k") == "var" and isinstance(x.get("d"), int):
            if any(_comes_from(f, w, field, depth - 1) for (_e, w) in _var_writes(f, x["d"])):
                return True
        if depth and x.get("k") in ("call", "mcall", "opcall") and x.get("inl"):
            if any(_comes_from(f, y.get("v"), field, depth - 1) for y in f.nodes.values() if y.get("k") == "iret" and y.get("of") == x["id"]):
                return True
    return False


def _mode_local(f):
    """declaration id of THE local that holds the session's current read mode: a ReadMode-typed local (no parameter) that is
    compared with ReadMode constants and whose value comes out of Impl::readModes.  Found by type and dataflow, not by name."""
    cands = set()
    for e in f.stmts():
        cp = common.cmp_parts(e.node)
        if cp and cp[0] in ("==", "!="):
            for x in (strip_casts(cp[1]), strip_casts(cp[2])):
                if x is not None and x.get("k") == "var" and _is_readmode(x.get("t")) and not _own_param(f, x) and isinstance(x.get("d"), int):
                    cands.add(x["d"])
    for b in f.blocks.values():
        if b.term and b.term.get("k") == "SwitchStmt" and b.cond is not None:
            x = strip_casts(b.cond)
            if x is not None and x.get("k") == "var" and _is_readmode(x.get("t")) and not _own_param(f, x) and isinstance(x.get("d"), int):
                cands.add(x["d"])
    ok = sorted(d for d in cands if any(_comes_from(f, v, IMPL + "::readModes") for (_e, v) in _var_writes(f, d)))
    if len(ok) != 1:
        raise AnalysisBroken("%s: %d locals hold a read mode taken from Impl::readModes and are compared with ReadMode constants (expected one)" % (short(f.name), len(ok)))
    return ok[0]


def _payload_part(n):
    """('data'|'size'|'end', declaration id) when n is `<view>.data()` (or begin()) / `<view>.size()` / `<view>.end()` on a
    BufferView variable"""
    n = strip_casts(n)
    if n is None or n.get("k") != "mcall" or last(n.get("callee", "")) not in ("data", "size", "begin", "end") or n.get("args"):
        return None
    o = _arg_value(n.get("obj"))
    if o is not None and o.get("k") == "var" and "BufferView" in (o.get("t") or "") and isinstance(o.get("d"), int):
        return {"begin": "data"}.get(last(n["callee"]), last(n["callee"])), o["d"]
    return None


class _ModePredAbs(PredAbs):
    """PredAbs that also reads `switch (<the mode local>) { case ReadMode::X: … }`: the edge into a case label assumes what an
    `if (mode == ReadMode::X)` would, the default edge (or the edge past the switch) the negation of every case that has a
    label.  atoms: {enumerator suffix: atom name}; the remaining enumerator(s) mean "none of the atoms"."""

    def __init__(self, f, vocab, leaf, effects, mode_d, atoms, **kw):
        self._mode_d, self._atoms = mode_d, atoms
        PredAbs.__init__(self, f, vocab, leaf, effects, **kw)

    def _case_formula(self, lab):
        v = strip_casts(lab[1]) if isinstance(lab[1], dict) else None
        if v is None or v.get("k") != "enum":
            return None
        for suf, atom in self._atoms.items():
            if v["n"].endswith(suf):
                return A(atom)
        return And(*[Not(A(a)) for a in self._atoms.values()])

    def _edge(self, st, b, si):
        t = b.term
        c = strip_casts(b.cond) if t and t.get("k") == "SwitchStmt" and b.cond is not None else None
        if c is not None and c.get("k") == "var" and c.get("d") == self._mode_d:
            lab = b.edge_label(si)
            if isinstance(lab, tuple) and lab[0] == "case":
                fm = self._case_formula(lab)
            else:
                others = [self._case_formula(b.edge_label(j)) for j in range(len(b.succs)) if isinstance(b.edge_label(j), tuple)]
                fm = And(*[Not(x) for x in others if x is not None])
            if fm is not None:
                st = self.v.assume(st, fm)
                return st if st else None
            return st
        return PredAbs._edge(self, st, b, si)


def _ondata_abs(ctx):
    od = _ondata(ctx)
    vocab = Vocab(["fits", "overflow", "sync", "disabled"])
    mode_d = _mode_local(od)

    inits = {}
    for e in od.stmts():
        if e.node.get("k") == "decl":
            for dv in e.node["vars"]:
                if dv.get("init") is not None and "const" in (dv.get("t") or ""):
                    inits[dv["d"]] = dv["init"]

    def res(x):
        x = strip_casts(x)
        if x is not None and x.get("k") == "var" and x.get("d") in inits:
            return strip_casts(inits[x["d"]])
        return x

    def is_max(x):
        return x.get("k") == "member" and x["n"].endswith("::maxSyncReceiveBuffer")

    sized = set()      # BufferView variables whose size() the capacity test adds: r3 checks that they are the arriving chunk

    def is_new(x):
        pp = _payload_part(x)
        if pp is not None and pp[0] == "size":
            sized.add(pp[1])
            return True
        return False

    def is_sum(x):
        if x.get("k") != "bin" or x["op"] != "+":
            return False
        ops = [strip_casts(x["lhs"]), strip_casts(x["rhs"])]
        return any(_is_size_of(y, SRB + "::data") for y in ops) and any(is_new(y) for y in ops)

    def is_room(x):
        # max - buffered: the subtraction form of the same bound (cannot wrap: buffered <= max is what this rule maintains)
        if x.get("k") != "bin" or x["op"] != "-":
            return False
        return is_max(strip_casts(x["lhs"])) and _is_size_of(x["rhs"], SRB + "::data")

    def leaf(n):
        k = n.get("k")
        if k == "member" and n["n"] == SRB + "::overflow":
            return A("overflow")
        co = common.cmp_oriented(n, lambda x: (strip_casts(x) or {}).get("k") == "enum")
        if co and co[0] in ("==", "!="):
            v, en = strip_casts(co[1]), strip_casts(co[2])
            if v is not None and v.get("k") == "var" and v.get("d") == mode_d:
                for nm in ("sync", "disabled"):
                    if en["n"].endswith("ReadMode::" + nm.capitalize()):
                        return A(nm) if co[0] == "==" else Not(A(nm))
        if k == "bin" and n["op"] in (">", ">=", "<", "<="):
            l, rr = res(n["lhs"]), res(n["rhs"])
            if is_new(l) and is_room(rr):
                return Not(A("fits")) if n["op"] in (">",) else (A("fits") if n["op"] in ("<=",) else None)
            if is_room(l) and is_new(rr):
                return Not(A("fits")) if n["op"] in ("<",) else (A("fits") if n["op"] in (">=",) else None)
            if is_sum(l) and is_max(rr):
                return Not(A("fits")) if n["op"] in (">", ">=") else A("fits")
            if is_max(l) and is_sum(rr):
                return Not(A("fits")) if n["op"] in ("<", "<=") else A("fits")
        return None

    def effects(e):
        if _lock_released(e):
            return [("havoc_all", ["fits", "overflow"])]
        if e.kind != "stmt":
            return None
        n = e.node
        if n.get("k") == "bin" and n["op"] == "=" and field_of(n["lhs"]) == SRB + "::overflow":
            v = const_value(n["rhs"])
            return [("set", "overflow", bool(v))] if v is not None else [("havoc", "overflow")]
        if n.get("k") == "mcall" and field_of(n.get("obj")) == SRB + "::data" and last(n["callee"]) in access.MUTATORS:
            return [("havoc", "fits")]
        # the mode local is re-assigned: what was known about it is gone
        if any(ev is e for (ev, _v) in _var_writes(od, mode_d)) and n.get("k") != "decl":
            return [("havoc_all", ["sync", "disabled"])]
        return None
    od.c03_sized = sized
    # track_bools: `const bool tooBig = size + len > max; if (overflow || tooBig)` is as good as the test written in the `if`
    return od, _ModePredAbs(od, vocab, leaf, effects, mode_d, {"ReadMode::Sync": "sync", "ReadMode::Disabled": "disabled"},
                            init=Not(And(A("sync"), A("disabled"))), track_bools=True)


def r3(ctx, r):
    fb = ctx.fb()
    od, pa = _ondata_abs(ctx)
    ins = common.member_calls_on(od, SRB + "::data", APPENDERS)
    for i in ins:
        r.instance()
        r.expect(pa.entails(i, A("fits")), od, i, "append unbounded",
                 "arriving bytes are appended to the per-session sync buffer on a path where `size + len <= maxSyncReceiveBuffer` is not established "
                 "(known: %s): a peer can grow the buffer without bound" % (",".join(x for x in pa.describe(i) if not x.lstrip("!").startswith("b:")) or "nothing"),
                 okdesc="append only where size+len <= maxSyncReceiveBuffer")
        r.instance()
        r.expect(pa.entails(i, Not(A("overflow"))), od, i, "append after overflow",
                 "bytes are appended although `overflow` may already be set: data from after a dropped chunk is delivered as if contiguous",
                 okdesc="append only while overflow is clear (C03-R3b)")
        r.instance()
        r.expect(pa.entails(i, A("sync")), od, i, "append outside Sync mode", "append reachable when the session is not in Sync mode",
                 okdesc="append only in Sync mode")
        # append at the end only (ordered stream)
        n = i.node
        if last(n["callee"]) == "insert":
            m, fld, off = _iter_of(n["args"][0]) if n["args"] else (None, None, None)
            r.instance()
            r.expect(m == "end" and fld == SRB + "::data" and off is None, od, i, "insert not at end",
                     "arriving bytes are inserted at `%s`, not at the end of the buffer: order is lost" % (show(strip_wrappers(n["args"][0])) if n["args"] else "?"),
                     okdesc="insert position is data.end()")
            # the inserted range is the whole callback payload [p.data(), p.data() + p.size()), p the BufferView parameter of the callback
            if len(n["args"]) >= 3:
                a1 = _stands_for(od, i, n["args"][1])[-1]
                a2 = _stands_for(od, i, n["args"][2])[-1]
                p1 = _payload_part(a1)
                p2 = None
                if a2.get("k") == "bin" and a2["op"] == "+":
                    p2 = sorted(filter(None, (_payload_part(a2["lhs"]), _payload_part(a2["rhs"]))))
                views = {x["d"] for a in (a1, a2) for x in walk(a) if x.get("k") == "var" and "BufferView" in (x.get("t") or "")}
                other = [x for a in (a1, a2) for x in walk(a) if x.get("k") == "var" and "BufferView" not in (x.get("t") or "")]
                if len(views) != 1 or (other and not (p1 and ((p2 and len(p2) == 2) or _payload_part(a2)))):
                    raise AnalysisBroken("onData: cannot tell which bytes `%s` appends (range [%s, %s))" % (show(n)[:60], show(a1)[:40], show(a2)[:40]))
                d = views.pop()
                whole = p1 == ("data", d) and (p2 == [("data", d), ("size", d)] or _payload_part(a2) == ("end", d))
                r.instance()
                r.expect(whole, od, i, "partial append", "the appended range is [%s, %s), not the whole arriving chunk" % (show(a1), show(a2)), okdesc="whole chunk appended")
                # … and that view is what the engine handed in: the callback's own BufferView parameter (a helper's parameter that
                # was bound to it reads as the parameter itself after expansion), or a local that stands for it
                view = [x for a in (a1, a2) for x in walk(a) if x.get("k") == "var" and x.get("d") == d][0]
                vchain = _stands_for(od, i, view)
                built = vchain[-1] if vchain and vchain[-1].get("k") in ("ctor", "ilist") and "BufferView" in (vchain[-1].get("t", "") + vchain[-1].get("cls", "")) else None
                if built is not None and [x for x in walk(built) if x.get("k") == "var"] and all(_own_param(od, x) for x in walk(built) if x.get("k") == "var"):
                    # a view built from the payload's own data()/size() that is not all of it (the whole-view form was followed above)
                    r.instance()
                    r.fail(od, i, "partial append", "the appended bytes are `%s`, a part of the arriving chunk" % show(built)[:80])
                elif not any(_own_param(od, y) for y in vchain):
                    raise AnalysisBroken("onData: the appended view `%s` is not the callback's payload parameter and cannot be traced back to it" % view.get("n"))
    # the chunk whose size the capacity test counts is the arriving chunk (not some other, smaller view)
    pds = {p_.get("d") for p_ in od.params}
    for d in sorted(od.c03_sized - pds):
        ws = _var_writes(od, d)
        if len(ws) != 1 or not any(_own_param(od, y) for y in _stands_for(od, ws[0][0], ws[0][1])):
            raise AnalysisBroken("onData: the capacity test counts the size of a view that cannot be traced back to the callback's payload parameter")
    # overflow is sticky: only ever assigned true
    n_w = 0
    for f in fb.in_file(FILE):
        if not f.ok:
            continue
        for (e, node, kind) in common.field_writes(f, SRB + "::overflow"):
            n_w += 1
            r.instance()
            v = common.assigned_value(f, node)
            r.expect(v is not None and const_value(v) == 1, f, e, "overflow cleared",
                     "`overflow` is written with something other than `true`: after bytes were dropped the stream must stay failed",
                     okdesc="%s sets overflow = true" % short(f.name))
    if n_w < 1:
        r.fail(od, None, "overflow never set", "nothing sets `overflow` any more: a dropped chunk is silent")


def _results(f):
    """elements that produce the function's result: its own returns and the returns of helpers expanded in place (their value
    is what the enclosing `return helper(...)` hands on)"""
    return [e for e in f.stmts() if e.node.get("k") in ("ret", "iret")]


def r4(ctx, r):
    fb, la = ctx.fb(), _la(ctx)
    f = anchor(ctx, fb.func("iora::network::Transport::receiveSync"))
    waits = [e for e in f.stmts() if e.node.get("k") == "mcall" and e.node.get("callee", "").startswith("std::condition_variable") and last(e.node["callee"]) in common.CV_WAIT]
    if len(waits) != 1:
        raise AnalysisBroken("receiveSync: expected one condition-variable wait, found %d" % len(waits))
    wait = waits[0]
    vocab = Vocab(["empty", "overflow"])

    def leaf(n):
        et = _empty_test(n, SRB + "::data")
        if et is not None:
            return A("empty") if et else Not(A("empty"))
        if n.get("k") == "member" and n["n"] == SRB + "::overflow":
            return A("overflow")
        return None

    def effects(e):
        if _lock_released(e):
            return [("havoc_all", ["empty", "overflow"])]      # the lock is released: the I/O thread may append / drop in between
        if e.kind != "stmt":
            return None
        n = e.node
        if n.get("k") == "mcall" and field_of(n.get("obj")) == SRB + "::data" and last(n["callee"]) in access.MUTATORS:
            return [("havoc", "empty")]
        if n.get("k") == "bin" and n["op"] == "=" and field_of(n["lhs"]) == SRB + "::overflow":
            v = const_value(n["rhs"])
            return [("set", "overflow", bool(v))] if v is not None else [("havoc", "overflow")]
        return None
    pa = PredAbs(f, vocab, leaf, effects, track_bools=True)
    codes = ("BufferOverflow", "PeerClosed", "ShuttingDown")
    n_ret = 0
    for e in _results(f):
        if not elem_dominates(f, wait, e):
            continue
        for c in codes:
            if common.mentions_enum(e.node, "iora::network::TransportError::" + c):
                n_ret += 1
                r.instance()
                r.expect(pa.entails(e, A("empty")), f, e, "return %s before drain" % c,
                         "receiveSync can return %s while bytes that arrived earlier are still buffered: the tail of the stream is lost" % c,
                         okdesc="return %s only with buf->data empty" % c)
                if c == "PeerClosed":
                    # overflow before EOF: "peer closed" tells the reader that it has seen the whole stream.  It may be said only
                    # where the overflow flag was seen clear in the critical section of the return — otherwise a session that
                    # dropped a chunk and was then closed reads as a clean, complete stream (the gap is undetectable, and the
                    # entry that carries the sticky flag is reclaimed on this very path).
                    r.instance()
                    r.expect(pa.entails(e, Not(A("overflow"))), f, e, "return PeerClosed with overflow pending",
                             "receiveSync returns PeerClosed (line %d) on a path where `overflow` has not been seen false since the lock was last taken (known: %s): after a chunk was "
                             "dropped and the peer closed, the reader gets the bytes from before the gap and then a clean end-of-stream — BufferOverflow is never "
                             "reported (the closed test runs before / without the overflow test)" % (e.line, ",".join(x for x in pa.describe(e) if not x.lstrip("!").startswith("b:")) or "nothing"),
                             okdesc="return PeerClosed only behind the false edge of the overflow test")
    if n_ret < 3:
        r.fail(f, None, "terminal returns missing", "receiveSync no longer reports overflow / peer-closed / shutting-down after the wait (found %d of 3)" % n_ret)
    # shape of the data path
    cps = common.calls_to(f, ("memcpy", "std::memcpy", "std::copy", "std::copy_n", "memmove", "std::memmove"))
    erases = common.member_calls_on(f, SRB + "::data", ("erase",))
    r.instance()
    if len(cps) != 1 or len(erases) != 1:
        r.fail(f, None, "copy/erase shape", "expected exactly one copy out of the buffer and one erase of the copied prefix, found %d/%d" % (len(cps), len(erases)))
        return
    cp, er = cps[0], erases[0]
    a = cp.node["args"]
    if last(cp.node.get("callee", "")) in ("copy", "copy_n"):
        srcn = a[0] if a else None
        # copy_n(first, n, out) / copy(first, first + n, out)
        cntn = (a[1] if last(cp.node["callee"]) == "copy_n" else _iter_of(a[1])[2]) if len(a) > 1 else None
    else:
        srcn, cntn = (a[1] if len(a) > 1 else None), (a[2] if len(a) > 2 else None)
    # the source is the first byte of the buffer: data.data() / data.begin() / &data[0]; `+ k` or `[k]` is a report
    src = strip_casts(strip_wrappers(srcn)) if srcn is not None else None
    front = None
    if src is not None:
        if src.get("k") == "mcall" and last(src.get("callee", "")) == "data" and field_of(src.get("obj")) == SRB + "::data":
            front = True
        elif _iter_of(src)[0] is not None and _iter_of(src)[1] == SRB + "::data":
            front = _iter_of(src)[0] == "begin" and _iter_of(src)[2] is None
        elif src.get("k") == "bin" and src["op"] in ("+", "-") and any(x.get("k") == "member" and x["n"] == SRB + "::data" for x in walk(src)):
            front = False
        elif src.get("k") == "un" and src["op"] == "&" and field_of(src["v"]) == SRB + "::data":
            idx = [x for x in walk(src) if x.get("k") == "opcall" and x.get("op") == "[]"]
            front = bool(idx) and const_value(idx[0]["args"][1]) == 0
    if front is None:
        raise AnalysisBroken("receiveSync: cannot tell where `%s` copies from" % show(cp.node)[:80])
    r.expect(front, f, cp, "copy not from front", "bytes are copied from `%s`, not from the front of the buffer" % show(src),
             okdesc="memcpy source is the front of buf->data")
    # the length is min(<the caller's capacity: an integer parameter of receiveSync>, <bytes buffered>)
    r.instance()
    okmin = False
    chain_at = _stands_for_at(f, cp, cntn) if cntn is not None else []
    chain = [x for (x, _at) in chain_at]
    cnt_ds = {x["d"] for x in chain if x.get("k") == "var" and isinstance(x.get("d"), int)}
    for (x, at) in chain_at:
        mn = _min_of(x)
        if mn:
            for (p, q) in (mn, mn[::-1]):
                if _is_size_of(p, SRB + "::data") and _is_caller_capacity(f, at, q):
                    okmin = True
    if not okmin and _cannot_tell(f, chain):
        raise AnalysisBroken("receiveSync: cannot tell what the copy length `%s` is" % show(chain[-1])[:50])
    r.expect(okmin, f, cp, "copy length", "the copy length is not min(len, buf->data.size()): the caller's buffer can overflow or bytes are skipped",
             okdesc="copyLen = min(len, data.size())")
    # exactly the copied prefix is erased: erase(begin, begin + <the copy length>)
    r.instance()
    ea = er.node["args"]
    m0, f0, o0 = _iter_of(ea[0]) if ea else (None, None, None)
    m1, f1, o1 = _iter_of(ea[1]) if len(ea) > 1 else (None, None, None)
    ochain = _stands_for(f, er, o1) if o1 is not None else []
    same_len = o1 is not None and o1.get("k") == "var" and bool(cnt_ds & {x["d"] for x in ochain if x.get("k") == "var" and isinstance(x.get("d"), int)})
    if (m1, f1) == ("begin", SRB + "::data") and not same_len and _cannot_tell(f, ochain):
        raise AnalysisBroken("receiveSync: cannot tell how many bytes `%s` erases" % show(er.node)[:60])
    ok = (m0, f0, o0) == ("begin", SRB + "::data", None) and (m1, f1) == ("begin", SRB + "::data") and same_len
    r.expect(ok, f, er, "erase range", "the erased range is [%s, %s), not exactly the copied prefix [begin, begin+<copy length>): bytes are lost or delivered twice" % (
        show(strip_wrappers(ea[0])) if ea else "?", show(strip_wrappers(ea[1])) if len(ea) > 1 else "?"), okdesc="erase(begin, begin+copyLen)")
    r.instance()
    r.expect(elem_dominates(f, cp, er) and la.holds(f, cp, SYNC) and la.holds(f, er, SYNC), f, er, "copy/erase order",
             "copy and erase are not ordered copy-then-erase under syncMutex", okdesc="copy then erase under the lock")
    # hasData recomputed after the erase (INV-1: the wait predicate reads hasData)
    r.instance()
    hw = [e for (e, n, k) in common.field_writes(f, SRB + "::hasData")]
    r.expect(any(elem_dominates(f, er, h) for h in hw), f, er, "hasData stale", "`hasData` is not recomputed after the erase: the next receiveSync sees stale state "
             "(waits although data is buffered, or spins on an empty buffer)", okdesc="hasData recomputed after erase")
    # the length reported is the length copied
    r.instance()
    oks = []
    for e in f.stmts():
        if e.node.get("k") == "ret":
            for x in walk(e.node):
                if x.get("k") == "call" and (x.get("callee") or "").endswith("Result::ok"):
                    oks.append((e, x))
    okl = False
    if len(oks) == 1 and oks[0][1]["args"]:
        kchain = _stands_for(f, oks[0][0], oks[0][1]["args"][0])
        okl = bool(cnt_ds & {x["d"] for x in kchain if x.get("k") == "var" and isinstance(x.get("d"), int)})
        if not okl and _cannot_tell(f, kchain):
            raise AnalysisBroken("receiveSync: cannot tell which length `%s` reports" % show(oks[0][1])[:60])
    r.expect(okl, f, oks[0][0] if oks else None, "ok length", "the success result does not report the copied length",
             okdesc="returns ok(copyLen)")


def r5(ctx, r):
    fb, la = ctx.fb(), _la(ctx)
    f = anchor(ctx, fb.func("iora::network::Transport::setReadMode"))
    # the two read modes the rule talks about, found by type and role instead of by name: the REQUESTED mode is setReadMode's
    # ReadMode parameter, the OLD mode is the ReadMode local whose value comes out of Impl::readModes
    req = [p_ for p_ in f.params if _is_readmode(p_.get("t"))]
    if len(req) != 1:
        raise AnalysisBroken("setReadMode: expected one ReadMode parameter, found %d" % len(req))
    req_d = req[0]["d"]
    old_d = _mode_local(f)

    def is_var(x, d):
        x = strip_casts(x)
        return x is not None and x.get("k") == "var" and x.get("d") == d

    # `!(oldMode == Sync && mode == Async)` is split over two blocks by the CFG: model the conjunction through its leaves
    vocab2 = Vocab(["oldsync", "newasync", "nobuf", "dataempty", "closed"])

    def leaf2(n):
        k = n.get("k")
        co = common.cmp_oriented(n, lambda x: (strip_casts(x) or {}).get("k") == "enum")
        if co and co[0] in ("==", "!="):
            en = strip_casts(co[2])["n"]
            if is_var(co[1], old_d) and en.endswith("ReadMode::Sync"):
                return A("oldsync") if co[0] == "==" else Not(A("oldsync"))
            if is_var(co[1], req_d) and en.endswith("ReadMode::Async"):
                return A("newasync") if co[0] == "==" else Not(A("newasync"))
        # <iterator local> ==/!= receiveBuffers.end(): the session has no receive buffer (the lookup is a local's value, so that
        # the fact is about the lookup the following code dereferences)
        co = common.cmp_oriented(n, lambda x: _iter_of(x)[:2] == ("end", IMPL + "::receiveBuffers") and _iter_of(x)[2] is None)
        if co and co[0] in ("==", "!=") and (strip_casts(co[1]) or {}).get("k") == "var":
            return A("nobuf") if co[0] == "==" else Not(A("nobuf"))
        ct = _count_test(n, IMPL + "::receiveBuffers")
        if ct is not None:
            return A("nobuf") if ct else Not(A("nobuf"))
        et = _empty_test(n, SRB + "::data")
        if et is not None:
            return A("dataempty") if et else Not(A("dataempty"))
        if k == "member" and n["n"] == SRB + "::closed":
            return A("closed")
        return None

    def effects(e):
        if _lock_released(e):
            return [("havoc_all", ["nobuf", "dataempty", "closed"])]
        if e.kind != "stmt":
            return None
        n = e.node
        # the local copy of the old mode: `oldMode = ReadMode::Sync` / `= it->second` / its declaration
        for (ev, v) in _var_writes(f, old_d):
            if ev is e:
                i = strip_casts(v) if isinstance(v, dict) else None
                return [("set", "oldsync", i["n"].endswith("ReadMode::Sync"))] if i is not None and i.get("k") == "enum" else [("havoc", "oldsync")]
        for (ev, v) in _var_writes(f, req_d):
            if ev is e:
                return [("havoc", "newasync")]
        if n.get("k") == "mcall" and field_of(n.get("obj")) == SRB + "::data" and last(n["callee"]) in access.MUTATORS:
            return [("havoc", "dataempty")]
        if n.get("k") == "opcall" and n.get("op") == "=" and field_of(n["args"][0]) == SRB + "::data":
            return [("havoc", "dataempty")]
        if n.get("k") == "call" and n.get("callee") == "std::swap" and any(field_of(strip_wrappers(a)) == SRB + "::data" for a in n["args"]):
            return [("havoc", "dataempty")]
        if n.get("k") == "mcall" and last(n.get("callee", "")) == "swap" and any(field_of(strip_wrappers(a)) == SRB + "::data" for a in n["args"]):
            return [("havoc", "dataempty")]
        return None
    pa = PredAbs(f, vocab2, leaf2, effects, track_bools=True)
    # (a) every write of the mode
    writes = []
    for e in f.stmts():
        n = e.node
        if n.get("k") in ("bin", "opcall") and n.get("op") == "=":
            lhs = n["lhs"] if n.get("k") == "bin" else n["args"][0]
            if field_of(lhs) == IMPL + "::readModes" or (access_path(lhs) or ("",))[-2:] == (IMPL + "::readModes", "[]"):
                writes.append(e)
    if not writes:
        raise AnalysisBroken("setReadMode no longer writes readModes")
    for e in writes:
        r.instance()
        n = e.node
        rhs = _arg_value(strip_casts(n["rhs"] if n.get("k") == "bin" else n["args"][1]))
        nothing_pending = Or(A("nobuf"), A("dataempty"), A("closed"))
        if rhs.get("k") == "enum":
            # a constant: only `= Async` hands the session to the data callback
            need = nothing_pending if rhs["n"].endswith("ReadMode::Async") else T
        elif is_var(rhs, req_d):
            need = Or(Not(A("newasync")), nothing_pending)
        else:
            raise AnalysisBroken("setReadMode: readModes written with `%s`" % show(rhs)[:40])
        ok = la.holds(f, e, SYNC) and pa.entails(e, need)
        r.expect(ok, f, e, "mode switched with data buffered",
                 "the session is switched to Async (line %d) without the receive buffer having been seen absent, empty or closed in the same critical section (known: %s) — whatever the old mode was: bytes buffered in an "
                 "earlier Sync phase (Sync → Disabled → Async) are never handed to the data callback and come out of a later receiveSync after bytes that arrived later" % (
                     e.line, ",".join(x for x in pa.describe(e) if not x.lstrip("!").startswith("b:")) or "nothing"),
                 okdesc="mode write at line %s: not to Async, or nothing pending, under syncMutex" % e.line)
    # (b) user callback invoked with no transport lock
    invs = common.fn_invocations(f)
    r.instance(len(invs))
    for (e, tgt) in invs:
        held = la.mutexes(f, e) & {SYNC, IMPL + "::callbackMutex"}
        r.expect(not held, f, e, "callback under lock", "the flush invokes the user data callback while holding %s" % ",".join(sorted(held)),
                 okdesc="flush callback invoked with no lock held")
    if not invs:
        r.fail(f, None, "flush delivers nothing", "setReadMode no longer delivers the buffered bytes to the data callback on Sync→Async")
    # (c) the bytes are moved out under the lock, and what is delivered is what was moved out
    # `local = std::move(buf->data)`, `std::vector<…> local(std::move(buf->data))` / `= std::move(…)`, `local.swap(buf->data)`,
    # `buf->data.swap(local)`, `std::swap(local, buf->data)`: (element, the local that receives the bytes)
    def is_buf(x):
        return field_of(_arg_value(strip_wrappers(x))) == SRB + "::data" if isinstance(x, dict) else False
    taken = []
    for e in f.stmts():
        n = e.node
        k = n.get("k")
        if k == "opcall" and n.get("op") == "=" and len(n["args"]) == 2 and is_buf(n["args"][1]):
            taken.append((e, strip_wrappers(n["args"][0])))
        elif k == "decl":
            for v in n["vars"]:
                if "vector" in (v.get("t") or "") and is_buf(v.get("init")):
                    taken.append((e, {"k": "var", "n": v["n"], "d": v["d"]}))
        elif k == "mcall" and last(n.get("callee", "")) == "swap" and len(n["args"]) == 1:
            o, a0 = strip_wrappers(n.get("obj")), strip_wrappers(n["args"][0])
            if is_buf(a0) and (o or {}).get("k") == "var":
                taken.append((e, o))
            elif is_buf(o) and (a0 or {}).get("k") == "var":
                taken.append((e, a0))
        elif k == "call" and n.get("callee") == "std::swap" and len(n["args"]) == 2:
            a0, a1 = strip_wrappers(n["args"][0]), strip_wrappers(n["args"][1])
            if is_buf(a1) and (a0 or {}).get("k") == "var":
                taken.append((e, a0))
            elif is_buf(a0) and (a1 or {}).get("k") == "var":
                taken.append((e, a1))
    moves = [e for (e, _d) in taken]
    r.instance()
    r.expect(len(moves) == 1 and la.holds(f, moves[0], SYNC), f, moves[0] if moves else None, "move-out",
             "buffered bytes are not taken out of the buffer in exactly one place under syncMutex", okdesc="flushData = move(buf->data) under the lock")
    if moves and invs:
        dst = taken[0][1]
        r.instance()
        # the local that received the buffer's bytes (whatever it is called) is what the callback's view is built from
        r.expect(dst.get("k") == "var" and all(any(x.get("k") == "var" and x.get("d") == dst.get("d") for x in walk(e.node)) for (e, _) in invs), f, invs[0][0], "delivers other bytes",
                 "the callback is not given the bytes that were moved out of the buffer", okdesc="callback receives the moved-out bytes")
    # (d) FlushGuard is created in the critical section that fetched the buffer
    # whatever constructs the guard: a FlushGuard object, make_unique / make_shared / new of one, or emplace into an
    # optional<FlushGuard> (the owner's own default construction is not the guard)
    FG = IMPL + "::FlushGuard"
    mk = [e for e in f.stmts() if e.node.get("k") == "call" and e.node.get("callee") in ("std::make_unique", "std::make_shared") and FG in e.node.get("t", "")] + \
         [e for e in f.stmts() if e.node.get("k") == "ctor" and e.node.get("cls") == FG] + \
         [e for e in f.stmts() if e.node.get("k") == "new" and FG in e.node.get("t", "")] + \
         [e for e in f.stmts() if e.node.get("k") == "mcall" and last(e.node.get("callee", "")) == "emplace" and FG in ((strip_wrappers(e.node.get("obj")) or {}).get("t") or "")]
    finds = [e for e in common.member_calls_on(f, IMPL + "::receiveBuffers", ("find", "at", "operator[]"))]
    r.instance()
    if not mk:
        r.fail(f, None, "no FlushGuard", "the Sync→Async flush is no longer covered by a FlushGuard (GC / teardown can free the buffer under the flusher)")
    else:
        ok = False
        for fe in finds:
            s, w = common.same_section(f, la, fe, mk[0], SYNC)
            if s and elem_dominates(f, fe, mk[0]):
                ok = True
        r.expect(ok, f, mk[0], "FlushGuard outside fetch section", "FlushGuard is not constructed in the syncMutex section that fetched the buffer",
                 okdesc="FlushGuard constructed under the lock that fetched the buffer")
    # (e) every invocation is preceded, on its path, by the move-out of the same loop iteration: no callback without data
    if moves and invs:
        r.instance()
        r.expect(all(elem_dominates(f, moves[0], e) or search(f, moves[0], lambda x, e=e: x is e, eh=False) is not None for (e, _) in invs), f, invs[0][0],
                 "callback before move", "callback not reachable from the move-out", okdesc="move-out precedes delivery")


def _onclose(ctx):
    """the engine close callback, with calls into helpers of Transport::Impl expanded in place"""
    return anchor(ctx, lambdas(ctx)["onClose"])


def r6(ctx, r):
    oc = _onclose(ctx)
    la = _la(ctx)

    def stop(e):
        if e.kind != "stmt":
            return False
        n = e.node
        if n.get("k") == "bin" and n["op"] == "=" and field_of(n["lhs"]) == SRB + "::closed" and const_value(n["rhs"]) == 1:
            return True
        if n.get("k") == "mcall" and last(n.get("callee", "")) in ("notify_one", "notify_all") and field_of(n.get("obj")) == SCO + "::cv":
            return True   # pending synchronous connect: suppressed branch (C04-R3)
        return False
    r.instance()
    w = search(oc, ("entry",), "exit", stop=stop, eh=False)
    r.expect(w is None, oc, None, "close without tombstone", "a path through the close callback neither marks the session's receive buffer closed nor leaves a closed tombstone: "
             "a later or parked receiveSync on that session would wait for ever", witness=witness_str(oc, w), okdesc="every non-suppressed close path sets closed = true")
    # the tombstone branch stores the closed buffer in the map; the existing-buffer branch notifies
    closes = [e for (e, n, k) in common.field_writes(oc, SRB + "::closed")]
    r.instance(len(closes))
    for e in closes:
        r.expect(la.holds(oc, e, SYNC), oc, e, "closed outside lock", "closed flag written without syncMutex", okdesc="closed=true under syncMutex")
    stores = [e for e in oc.stmts() if e.node.get("k") == "opcall" and e.node.get("op") == "=" and
              (access_path(e.node["args"][0]) or ("", ""))[-2:] == (IMPL + "::receiveBuffers", "[]")] + \
        common.member_calls_on(oc, IMPL + "::receiveBuffers", ("emplace", "try_emplace", "insert", "insert_or_assign"))
    notifs = [e for e in oc.stmts() if e.node.get("k") == "mcall" and last(e.node["callee"]) == "notify_all" and field_of(e.node.get("obj")) == SRB + "::cv"]
    r.instance(2)
    r.expect(bool(stores), oc, None, "tombstone not stored", "no closed tombstone is stored for a session that had no receive buffer", okdesc="tombstone stored in receiveBuffers")
    r.expect(bool(notifs), oc, None, "parked reader not woken", "the close callback does not wake a parked receiveSync (notify_all on the buffer's cv)",
             okdesc="close notifies the buffer's cv")


def r7(ctx, r):
    od, pa = _ondata_abs(ctx)
    la = _la(ctx)
    invs = common.fn_invocations(od)
    if not invs:
        r.fail(od, None, "no delivery", "the engine data callback no longer invokes the user data callback in Async mode")
    for (e, tgt) in invs:
        r.instance()
        r.expect(pa.entails(e, And(Not(A("sync")), Not(A("disabled")))), od, e, "delivery in Sync/Disabled mode",
                 "the user data callback is reachable while the session is in Sync or Disabled mode (known: %s)" % ",".join(pa.describe(e)),
                 okdesc="user onData only in Async mode")
        r.instance()
        held = la.mutexes(od, e) & {SYNC, IMPL + "::callbackMutex"}
        r.expect(not held, od, e, "callback under lock", "user data callback invoked holding %s" % ",".join(held), okdesc="no lock held at user callback")


def r8(ctx, r):
    fb, la = ctx.fb(), _la(ctx)
    n = common.cv_discipline(r, fb, la, lambda f: f.file.endswith(FILE))
    if n < 3:
        raise AnalysisBroken("transport_impl.hpp: %d condition-variable waits found, expected 3" % n)


def _root_callers(fb, cg, h):
    """the functions in whose expanded body the code of helper h ends up: its callers, followed upwards through callers that
    are themselves expanded into theirs"""
    out, seen, work = [], set(), [h]
    while work:
        g = work.pop()
        for (c, _e, _n) in cg.callers.get(g.name, []):
            if not c.ok or c.sig in seen or not c.file.endswith(FILE):
                continue
            seen.add(c.sig)
            if c.kind != "lambda" and _own_helper(fb, c.name) is c and cg.callers.get(c.name):
                work.append(c)
            else:
                out.append(c)
    return out


def r9(ctx, r):
    """While a session is in Sync mode the bytes that arrive go to its receiveBuffers entry; the data handler drops them when
    there is no entry.  So an entry may disappear only once nothing more can arrive for it: every erase is behind `closed`."""
    from ..finite import dominating_facts
    fb, cg = ctx.fb(), ctx.cg()

    def flag_true(c, t):
        c = strip_casts(c)
        if c.get("k") == "member" and c["n"] == SRB + "::closed":
            return t
        if c.get("k") == "bin" and c.get("op") in ("==", "!="):
            l, rr = strip_casts(c["lhs"]), strip_casts(c["rhs"])
            if rr.get("k") == "member":
                l, rr = rr, l
            if l.get("k") == "member" and l["n"] == SRB + "::closed" and const_value(rr) is not None:
                return ((c["op"] == "==") == bool(const_value(rr))) == t
        return False

    def drained(c, t):
        c = strip_casts(c)
        et = _empty_test(c, SRB + "::data")
        if et is not None:
            return et == t
        if c.get("k") == "member" and c["n"] == SRB + "::hasData":
            return not t
        return False

    def judge(g, e):
        """(closed known, drained known, facts) at element e of (expanded) function g"""
        from ..finite import flatten_fact
        facts = []
        for (c, t) in dominating_facts(g, e):
            c0 = strip_casts(c)
            # a condition that was given a name (`const bool stale = …; … if (stale)`): read the one value the local has
            if c0 is not None and c0.get("k") == "var" and (c0.get("t") or "").replace("const ", "").strip() == "bool":
                ws = _var_writes(g, c0["d"])
                # (only while the lock has been held since: a value computed in an earlier critical section says nothing now)
                if len(ws) == 1 and isinstance(ws[0][1], dict) and search(g, ws[0][0], _lock_released, stop=lambda x: x is e, eh=False) is None:
                    facts += flatten_fact(ws[0][1], t)
                    continue
            facts.append((c, t))
        return any(flag_true(c, t) for (c, t) in facts), any(drained(c, t) for (c, t) in facts), facts

    n = 0
    for f in fb.in_file(FILE):
        if not f.ok:
            continue
        for e0 in common.member_calls_on(f, IMPL + "::receiveBuffers", ("erase", "clear", "extract", "swap")):
            n += 1
            r.instance()
            if f.kind in ("dtor",) or f.name.endswith("::~Impl"):
                continue
            # judged where the erase is written, with the predicates it calls read as the expressions they return …
            g = expanded(ctx, f)
            e = g.elem_of.get(e0.node["id"]) or e0
            closed, empty, facts = judge(g, e)
            if not (closed and empty) and f.kind != "lambda" and _own_helper(fb, f.name) is f:
                # … and, when the erase sits in a helper that does not test the buffer itself, at every place the helper's code
                # ends up in: the guard may have stayed with the caller
                sites = []
                for c in _root_callers(fb, cg, f):
                    gc = expanded(ctx, c)
                    sites += [(gc, gc.elem_for(x)) for x in gc.nodes.values() if x.get("org") == [f.name, e0.node["id"]]]
                if sites and all(se is not None for (_g, se) in sites):
                    js = [judge(gc, se) for (gc, se) in sites]
                    closed, empty = all(j[0] for j in js), all(j[1] for j in js)
                    facts = [x for j in js if not (j[0] and j[1]) for x in j[2]] or facts
            known = "; ".join(("" if t else "!") + show(c)[:40] for c, t in facts[-4:]) or "nothing"
            r.expect(closed, f, e0, "live receive buffer erased", "%s removes a receiveBuffers entry that is not known to be closed (known: %s): bytes that arrive for the session afterwards find no buffer and "
                     "are dropped by the data handler while the mode is still Sync — the next receiveSync misses them" % (short(f.name), known),
                     okdesc="%s: erase only of a closed buffer" % short(f.name))
            r.instance()
            r.expect(empty, f, e0, "undrained receive buffer erased", "%s removes a receiveBuffers entry without having seen it empty (known: %s): bytes that arrived before the close and were not yet returned / flushed "
                     "are destroyed — the reader gets PeerClosed (or the data callback nothing) without them" % (short(f.name), known),
                     okdesc="%s: erase only of a drained buffer" % short(f.name))
    if n < 2:
        raise AnalysisBroken("receiveBuffers erase sites: %d found, expected >= 2" % n)


def run(ctx, ck):
    ck.run_rule("C03-R1", "sync-receive state is accessed only under Impl::syncMutex", "A1 lockset", lambda r: r1(ctx, r))
    ck.run_rule("C03-R2", "mode read, capacity test and append are one critical section", "A1 same-section", lambda r: r2(ctx, r))
    ck.run_rule("C03-R3", "append is bounded, at the end, whole, never after overflow; overflow is sticky", "A5 predicate abstraction + A10", lambda r: r3(ctx, r))
    ck.run_rule("C03-R4", "receiveSync drains before reporting overflow/EOF/teardown; copies and erases exactly the front prefix", "A5 + A2 + shape", lambda r: r4(ctx, r))
    ck.run_rule("C03-R5", "Sync→Async switch only on an empty buffer; ordered flush outside the lock under a FlushGuard", "A5 + A1", lambda r: r5(ctx, r))
    ck.run_rule("C03-R6", "every non-suppressed close leaves a closed buffer or tombstone and wakes the reader", "A2 must-pass", lambda r: r6(ctx, r))
    ck.run_rule("C03-R7", "the user data callback is reached only in Async mode and with no lock held", "A5 + A1", lambda r: r7(ctx, r))
    ck.run_rule("C03-R9", "a receive-buffer entry is erased only once it is closed (no arrival can miss its buffer)", "A5 dominating facts over the closed set of erase sites", lambda r: r9(ctx, r))
    ck.run_rule("C03-R8", "condition-variable discipline for teardownCv / connect cv / receive cv", "A1", lambda r: r8(ctx, r))
