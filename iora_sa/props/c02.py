"""C02 — Every session gets exactly one close; nothing before announce or after close (DESIGN.md §2 C02)."""
from .. import access
from ..cfg import search, witness_str, elem_dominates
from ..expr import show, walk, last, field_of, strip_wrappers, strip_casts, short, const_value, access_path
from ..facts import AnalysisBroken
from ..predabs import Vocab, PredAbs, A, Not, And, Or, T, F, translate, known_when, total
from ..rules import common
from . import c03

TITLE = "Every session gets exactly one close; nothing before announce or after close"
TECHNIQUE = 'custom static analysis over clang-14 CFG facts: exhaustiveness of the command switch against the enum, must-pass-through to handlers, order rules over the callback list, must-lockset'
TCP, UDP = "iora::network::TcpEngine", "iora::network::UdpEngine"
FILES = {TCP: "iora/network/detail/tcp_engine.hpp", UDP: "iora/network/detail/udp_engine.hpp"}
CONNECT_FNS = {TCP: ("doConnect",), UDP: ("connectDo", "viaDo")}
CLOSE_FNS = ("closeNow", "shutdownDrain")
CBS = "iora::network::detail::EngineBase::Callbacks::"

EXPLANATION = (
    "Static obligations over both engines and the transport's close fan-out: R1 the close notification is invoked only from closeNow, "
    "shutdownDrain and the pre-insertion failure paths of the connect handlers (closed set, with instance floors); R2 in closeNow and in "
    "shutdownDrain's loop the notification is dominated by `closed = true`, which is itself reached only with closed seen false, and the "
    "session leaves the table; R3 in every connect handler each path to a return passes exactly one terminal event (close notification "
    "for the request's id, or insertion of the session) — counted with ghost atoms in a predicate abstraction; R4 timer-originated close "
    "commands are re-validated against the session state and the timer handlers only enqueue; R5 announce precedes data and follows "
    "insertion; R6 session ids are only ever post-incremented; R7 every insertion bumps the gauge, every decrement is paired with the "
    "closed flag; R8 transport fan-out order: global callback, observers, tombstone, user-data cleanup, each outside its lock. "
    "Anchor functions are judged on inlined views: calls to methods of the same class that carry the events a rule reads (a notify helper, a "
    "stale-timer predicate, per-step methods of the close handler, an Impl method the facade forwards to) are expanded in place with parameters "
    "bound to arguments and bool results wired to the branch they decide, so moving a block into a helper changes no verdict.")
# exempt from the function-inventory guard (report.py): these rules look into the helpers themselves (inlined views, below) or hold
# for every function of the engine files wherever the code sits
FOLLOWS_HELPERS = {"C02-R1": "universal over every function of both engine files; a helper that notifies is accepted only when every call of it is expanded inside the closed set, where R2/R3/R3c judge it",
                   "C02-R2": "closeNow / shutdownDrain are judged on a view in which engine helpers that notify, set Session::closed or change _sessions are expanded in place",
                   "C02-R3": "the connect handlers are judged on the same view: a failure path that notifies through a helper is counted where the helper is called",
                   "C02-R3b": "process() is judged on a view in which a per-command dispatch method (any method that calls a connect handler) is expanded; kind tests are read from switch edges or an if-chain",
                   "C02-R3c": "shutdownDrain is judged on the same view",
                   "C02-R4": "pure bool predicates of the engine are expanded at the branch they decide (switch edges refine the origin atoms); a guard the rule cannot expand is a refusal raised by the rule itself",
                   "C02-R5": "helpers that only announce, and helpers that create the session called from a function that delivers data, are expanded in place; other moves leave fewer obligations than the floor, which is a refusal raised by the rule itself",
                   "C02-R6": "universal: every write of _nextSessionId in either engine file, whatever function it is in",
                   "C02-R8": "the close handler is judged on a view in which every Impl method it runs through (named handler, one method per step) is expanded in place; the observer-list and setSessionData clauses scan every function of the file",
                   "C02-R9": "the close-handler side is read from the same expanded view; a flush loop that is no longer in setReadMode is a refusal raised by the rule itself",
                   "C02-R10": "is c06.r5 + c06.r6 (C06-R5 / C06-R6, exempt there for the same reason): judged on the flattened functions of the UDP engine"}
NOT_DECIDED = ["which close site is reached in which session state at run time (the schedule quantifier)",
               "'never none while the transport keeps running' for sessions that see no event (liveness)",
               "observer registration racing the close"]


def _cb_getter(f, call, cbname):
    """the call is to a method defined in f's file whose every `return` hands back the member _cbs.<cbname> itself (a snapshot
    getter: `{ lock_guard g(_cbMutex); return _cbs.onClose; }`) — its result is a copy of the callback like `cb = _cbs.onClose`"""
    from .. import facts as _facts
    call = strip_wrappers(call)
    while call is not None and call.get("k") == "ctor" and len(call.get("args", [])) == 1:      # copy construction of the returned value
        call = strip_wrappers(call["args"][0])
    if call is None or call.get("k") not in ("mcall", "call") or not call.get("callee") or call["callee"].startswith("std::"):
        return False
    for fb in _facts._FB.values():
        for g in fb.by_name.get(call["callee"], []):
            if g.ok and g.file == f.file:
                rets = [e.node for e in g.stmts() if e.node.get("k") == "ret"]
                return bool(rets) and all(field_of(strip_wrappers(x.get("v"))) == CBS + cbname or
                                          (strip_wrappers(x.get("v")) or {}).get("k") == "ctor" and len(strip_wrappers(x["v"]).get("args", [])) == 1 and field_of(strip_wrappers(strip_wrappers(x["v"])["args"][0])) == CBS + cbname
                                          for x in rets)
    return False


def cb_invocations(f, cbname):
    """invocations of a copy of _cbs.<cbname> (copy-then-invoke idiom; the copy may be taken through a snapshot getter) or of the member itself"""
    copies = set()
    for n in f.nodes.values():
        if n.get("k") == "opcall" and n.get("op") == "=" and len(n["args"]) == 2:
            if (field_of(strip_wrappers(n["args"][1])) == CBS + cbname or _cb_getter(f, n["args"][1], cbname)) and n["args"][0].get("k") == "var":
                copies.add(n["args"][0]["n"])
    for e in f.stmts():
        if e.node.get("k") == "decl":
            for v in e.node["vars"]:
                i = v.get("init")
                if i is not None and "std::function" in v["t"] and (any(x.get("k") == "member" and x["n"] == CBS + cbname for x in walk(i)) or _cb_getter(f, i, cbname)):
                    copies.add(v["n"])
    out = []
    for (e, tgt) in common.fn_invocations(f):
        t = strip_wrappers(tgt)
        if (t.get("k") == "var" and t["n"] in copies) or field_of(t) == CBS + cbname:
            out.append(e)
    return out


def cbset_leaf(n):
    """`if (cb)` on a copied std::function: the callback is assumed installed (DESIGN 1.3 A2 copy-then-invoke)"""
    if n.get("k") == "mcall" and last(n.get("callee", "")).startswith("operator bool") and "std::function" in (n.get("obj") or {}).get("t", ""):
        return T
    return None


def engine_fn(fb, cls, name):
    return fb.func(cls + "::" + name, file_suffix=FILES[cls])


# ------------------------------------------------------------------ inlined views (helper extraction is not a change of behaviour)
#
# The rules below speak about events *inside* an anchor function: "the notification is dominated by closed = true", "every return
# of doConnect has passed exactly one terminal event", "global callback before observers before cleanup".  When a block of such a
# function is moved verbatim into a helper of the same class, the events are still executed at the same point of every path — only
# one call deeper.  `inlined(fb, f, want)` builds a second Function object for f in which every call `this->g(args)` (or a static
# call of the same class) to a function g selected by `want(g)` is expanded: the calling block is split after the call element, a
# renumbered copy of g's CFG is spliced in between, each parameter is bound to its argument (a synthetic declaration, and — where
# the argument is a side-effect-free access path or constant the callee cannot change — every use of the parameter is replaced by
# the argument, so that `closeCb(sid, …)` inside notifyClose(cr.sid, …) reads `closeCb(cr.sid, …)`), callee `return`s become
# plain jumps (kind "iret": they are not exits of f), and when the call IS the branch condition of its block each callee return
# is wired straight to the branch successor its value selects (constant) or branches on the returned expression itself — so
# `if (isStale(s, o)) break;` keeps the correlation between the path taken inside isStale and the edge taken by the caller.
# Nothing is keyed on a helper's name: `want` is a semantic predicate (same class, not an anchor of the rule, contains events the
# rule reads).  The view has its own `sig`, so per-function caches (lock sets, dominators) never mix it up with the original.

import copy as _copy

_ASSIGN_OPS = ("=", "+=", "-=", "*=", "/=", "%=", "|=", "&=", "^=", "<<=", ">>=")
_TWO_WAY = ("IfStmt", "WhileStmt", "ForStmt", "DoStmt")


def _shift(x, no, do, to):
    """renumber a copied piece of a callee's raw facts in place: node ids (+no), declaration ids (+do), try ids (+to)"""
    if isinstance(x, list):
        for y in x:
            _shift(y, no, do, to)
        return
    if not isinstance(x, dict):
        return
    for k, v in x.items():
        if isinstance(v, (dict, list)):
            _shift(v, no, do, to)
        elif isinstance(v, int) and not isinstance(v, bool):
            if k in ("id", "e"):
                x[k] = v + no
            elif k == "d":
                x[k] = v + do
            elif k in ("try", "catch") and v:
                x[k] = v + to


def _maxima(raw):
    """largest node id, declaration id, try id, block id used in a function's raw facts"""
    m = {"n": 0, "d": 0, "t": 0, "b": 0}

    def go(x):
        if isinstance(x, list):
            for y in x:
                go(y)
        elif isinstance(x, dict):
            for k, v in x.items():
                if isinstance(v, (dict, list)):
                    go(v)
                elif isinstance(v, int) and not isinstance(v, bool):
                    if k in ("id", "e", "cond", "fullcond"):
                        m["n"] = max(m["n"], v)
                    elif k == "d":
                        m["d"] = max(m["d"], v)
                    elif k in ("try", "catch"):
                        m["t"] = max(m["t"], v)
    for b in raw.get("blocks", []):
        m["b"] = max(m["b"], b["id"])
        go(b.get("elems"))
        go(b.get("label"))
        go(b.get("term"))
    go(raw.get("params"))
    for t in raw.get("trys", []):
        m["t"] = max(m["t"], t["id"])
    return m


def _pure(n):
    """the expression has no side effect and calls nothing (smart-pointer dereference and get()/load() are looked through)"""
    n = strip_casts(n)
    if n is None:
        return False
    k = n.get("k")
    if k in ("var", "this", "gvar", "gref", "enum", "int", "bool", "char", "str", "null", "float", "sizeof", "fref", "fieldref"):
        return True
    if k == "member":
        return n.get("b") is None or _pure(n["b"])
    if k == "un":
        return n.get("op") in ("*", "&", "!", "-", "~", "+") and _pure(n.get("v"))
    if k == "bin":
        return n.get("op") not in _ASSIGN_OPS and _pure(n.get("lhs")) and _pure(n.get("rhs"))
    if k == "opcall" and n.get("op") in ("->", "*") and len(n.get("args", [])) == 1:
        return _pure(n["args"][0])
    if k == "mcall" and last(n.get("callee", "")) in ("get", "load", "value") and not n.get("args"):
        return _pure(n.get("obj"))
    if k == "idx":
        return _pure(n.get("b")) and _pure(n.get("i"))
    return False


def _index_raw(x, nodes):
    if isinstance(x, list):
        for y in x:
            _index_raw(y, nodes)
    elif isinstance(x, dict):
        if "k" in x and isinstance(x.get("id"), int):
            nodes.setdefault(x["id"], x)
        for v in x.values():
            if isinstance(v, (dict, list)):
                _index_raw(v, nodes)


def _subst_param(x, d, make):
    """replace every `var` node that refers to declaration d inside x by make(old node)"""
    if isinstance(x, list):
        for i, y in enumerate(x):
            if isinstance(y, dict) and y.get("k") == "var" and y.get("d") == d:
                x[i] = make(y)
            else:
                _subst_param(y, d, make)
    elif isinstance(x, dict):
        for k, v in list(x.items()):
            if isinstance(v, dict) and v.get("k") == "var" and v.get("d") == d:
                x[k] = make(v)
            elif isinstance(v, (dict, list)):
                _subst_param(v, d, make)


def _written_in(g, d):
    """the callee assigns to / increments its parameter with declaration id d"""
    for n in g.nodes.values():
        if n.get("k") == "var" and n.get("d") == d and access.classify(g, n) in ("write", "rw"):
            return True
    return False


def _fields_written(g):
    return {n["n"] for n in g.nodes.values() if n.get("k") == "member" and access.classify(g, n) in ("write", "rw")}


def _splice(raw, blocks, nodes, nxt, chain, blk, i, call, g, args=None, capmap=None):
    """expand the call `call` (element i of block blk) to the function g; returns the ids of the blocks created"""
    craw = _copy.deepcopy(g.raw)
    cm = _maxima(craw)
    no, do, to, bo = nxt["n"], nxt["d"], nxt["t"], nxt["b"]
    nxt["n"] += cm["n"] + 1
    nxt["d"] += cm["d"] + 1
    nxt["t"] += cm["t"] + 1
    nxt["b"] += cm["b"] + 1
    created = []
    # lexical try context of the call site: the callee's code runs inside it
    site_try = 0
    for el in blk["elems"][i:]:
        if "root" in el and any(x is call for x in walk(el["root"])):
            site_try = el.get("try", 0)
            break
    # the continuation: what followed the call in its block
    post = {"id": nxt["b"], "elems": blk["elems"][i + 1:], "succs": blk["succs"]}
    nxt["b"] += 1
    for k in ("term", "noreturn", "looptarget"):
        if k in blk:
            post[k] = blk.pop(k)
    blk["elems"] = blk["elems"][:i + 1]
    # is the call the very condition this block branches on (possibly under `!`)?  then returns are wired to the branch edges
    direct, neg = None, 0
    t = post.get("term")
    if t and t.get("k") in _TWO_WAY and len(post["succs"]) == 2 and all(isinstance(s, int) for s in post["succs"]) and t.get("cond") is not None \
            and t.get("fullcond") in (None, t.get("cond")) and g.raw.get("ret") == "bool":
        c = nodes.get(t["cond"])
        while c is not None and c.get("k") == "un" and c.get("op") == "!" and isinstance(c.get("v"), dict):
            c = strip_casts(c["v"])
            neg += 1
        named = None
        if c is not None and c.get("k") == "var" and sum(1 for x in nodes.values() if x.get("k") == "var" and x.get("d") == c.get("d")) == 1:
            # `const bool stale = g(…); if (stale)`: a named condition, read by nothing but this branch
            for el in post["elems"]:
                rt = el.get("root")
                if rt is not None and rt.get("k") == "decl" and len(rt["vars"]) == 1 and rt["vars"][0]["d"] == c.get("d") and rt["vars"][0]["t"].strip() in ("const bool", "bool const") \
                        and strip_casts(rt["vars"][0].get("init")) is call:
                    named, c = rt, call
        rest_ok = all(("root" not in el or el["root"] is named or (nodes.get(el.get("e")) or {}).get("k") in ("un", "cast", "var")) and el.get("k") is None for el in post["elems"])
        if c is call and rest_ok:
            direct = (post["succs"][1], post["succs"][0]) if neg % 2 else (post["succs"][0], post["succs"][1])
    if direct is None and g.raw.get("ret") == "bool":
        nxt.setdefault("unwired", []).append(g.name)
    # the callee's blocks, renumbered
    for cb in craw["blocks"]:
        _shift(cb.get("elems"), no, do, to)
        _shift(cb.get("label"), no, do, to)
        tm = cb.get("term")
        if tm:
            for k in ("cond", "fullcond"):
                if isinstance(tm.get(k), int):
                    tm[k] += no
            if tm.get("try"):
                tm["try"] += to
        is_exit = cb["id"] == craw["exit"]
        cb["succs"] = [s + bo if isinstance(s, int) else s for s in cb["succs"]]
        cb["id"] += bo
        if is_exit:
            cb["succs"] = [post["id"]]
        if site_try:
            for el in cb["elems"]:
                if "root" in el and not el.get("try"):
                    el["try"] = site_try
        _index_raw(cb.get("elems"), nodes)
        blocks[cb["id"]] = cb
        chain[cb["id"]] = chain[blk["id"]] + (g.name,)
        created.append(cb["id"])
    for tr in craw.get("trys", []):
        tr = dict(tr)
        tr["id"] += to
        if tr.get("parent"):
            tr["parent"] += to
        elif site_try:
            tr["parent"] = site_try
        if tr.get("in_catch_of"):
            tr["in_catch_of"] += to
        raw.setdefault("trys", []).append(tr)
    # returns: not exits of the caller
    for cb in craw["blocks"]:
        for el in cb["elems"]:
            r = el.get("root")
            if r is not None and r.get("k") == "ret":
                r["k"] = "iret"
                v = r.get("v")
                if direct is not None and isinstance(v, dict) and cb["succs"] == [craw["exit"] + bo]:
                    cv = const_value(v)
                    if cv is not None:
                        cb["succs"] = [direct[0] if cv else direct[1]]
                    elif isinstance(v.get("id"), int):
                        cb["term"] = {"k": "IfStmt", "l": r.get("l", 0), "cond": v["id"], "fullcond": v["id"]}
                        cb["succs"] = [direct[0], direct[1]]
    # parameters: bound to the arguments
    entry = blocks[craw["entry"] + bo]
    wr = None
    binds = []
    args = call.get("args", []) if args is None else args
    if capmap:
        # a local lambda's body names the variables it captured with declaration ids of its own: give them the ids they have in
        # the function that created the lambda (the expanded body reads and writes those very variables)
        declared = {p_["d"] + do for p_ in g.params}
        for cb in craw["blocks"]:
            for el in cb["elems"]:
                if "root" in el:
                    for x in walk(el["root"]):
                        if x.get("k") == "decl":
                            declared |= {v_["d"] for v_ in x["vars"]}
        for cb in craw["blocks"]:
            for el in cb["elems"]:
                if "root" in el:
                    for x in walk(el["root"]):
                        if x.get("k") == "var" and x.get("n") in capmap and x.get("d") not in declared:
                            x["d"] = capmap[x["n"]]
    for j, p in enumerate(g.params):
        a = args[j] if j < len(args) else None
        if a is None or a.get("def") or not _pure(a) or not p.get("n"):
            continue
        pd = p["d"] + do
        nid = nxt["n"]
        nxt["n"] += 1
        init = _fresh(a, nxt)
        binds.append({"e": nid, "root": {"id": nid, "k": "decl", "l": call.get("l", 0), "inlined_param": True, "vars": [{"n": p["n"], "d": pd, "t": p["t"], "init": init}]}})
        if site_try:
            binds[-1]["try"] = site_try
        # uses of the parameter read the argument itself where that is the same value at every use
        stable = access_path(a) is not None or const_value(a) is not None
        if stable and not _written_in(g, p["d"]):
            byref = "&" in p["t"]
            if wr is None:
                wr = _fields_written(g)
            if byref or not ({x["n"] for x in walk(a) if x.get("k") == "member"} & wr):
                def make(old, a=a):
                    c = _fresh(a, nxt)
                    if isinstance(old.get("id"), int):
                        c["id"] = old["id"]
                    return c
                for cb in craw["blocks"]:
                    _subst_param(cb.get("elems"), pd, make)
    entry["elems"] = binds + entry["elems"]
    for cb in craw["blocks"]:
        # (re-index: substituted copies and the synthetic declarations)
        for el in cb["elems"]:
            if "root" in el:
                for x in walk(el["root"]):
                    if isinstance(x.get("id"), int):
                        nodes[x["id"]] = x
    blk["succs"] = [entry["id"]]
    blocks[post["id"]] = post
    chain[post["id"]] = chain[blk["id"]]
    created.append(post["id"])
    return created


def _fresh(a, nxt):
    """a copy of the expression tree a with new node ids"""
    c = _copy.deepcopy(a)
    for x in walk(c):
        if isinstance(x.get("id"), int):
            x["id"] = nxt["n"]
            nxt["n"] += 1
    return c


_VIEWS = {}


def inlined(fb, f, want, key, depth=4, pimpl=None):
    """the inlined view of f (see above); f itself if nothing is selected by `want`.  `key` names the selection for the cache.
    pimpl = (field, class): calls `this->field->g(…)` into methods of that class are followed too (a facade forwarding to its Impl)."""
    ck = (id(fb), f.sig, f.file, f.line, key)
    if ck in _VIEWS:
        return _VIEWS[ck]
    if not f.ok:
        return f
    raw = _copy.deepcopy(f.raw)
    mx = _maxima(raw)
    nxt = {"n": mx["n"] + 1, "d": mx["d"] + 1, "t": mx["t"] + 1, "b": mx["b"] + 1}
    nodes = {}
    for b in raw["blocks"]:
        _index_raw(b.get("elems"), nodes)
    blocks = {b["id"]: b for b in raw["blocks"]}
    chain = {b["id"]: (f.name,) for b in raw["blocks"]}      # call chain that led to the code of a block (recursion guard, depth)
    lambdas = list(f.lambdas)
    done = []
    work = sorted(blocks)
    while work:
        bid = work.pop(0)
        blk = blocks[bid]
        i = 0
        while i < len(blk["elems"]):
            el = blk["elems"][i]
            node = nodes.get(el.get("e")) if "e" in el and el.get("k") != "dtor_delete" else None
            i += 1
            if node is not None and node.get("k") == "opcall" and node.get("op") == "()" and "$lambda" in (node.get("callee") or "") and node.get("args") \
                    and strip_wrappers(node["args"][0]).get("k") == "var":
                # a call of a local lambda (`auto fail = [&](…) {…}; … return fail(msg);`): its body runs here, on the variables it captured
                lv = strip_wrappers(node["args"][0])
                decl = [x for x in nodes.values() if x.get("k") == "decl" and any(v_["d"] == lv.get("d") and (strip_wrappers(v_.get("init")) or {}).get("k") == "lambda" and
                                                                               strip_wrappers(v_["init"]).get("fn") == node["callee"] for v_ in x["vars"])]
                cands = [lf for (ln, lf) in lambdas if lf.name == node["callee"] and lf.ok and lf.file == f.file]
                if len(decl) == 1 and len(cands) == 1 and len(cands[0].params) == len(node["args"]) - 1:
                    g = cands[0]
                    lam = [strip_wrappers(v_["init"]) for v_ in decl[0]["vars"] if v_["d"] == lv.get("d")][0]
                    if g.name not in chain[bid] and len(chain[bid]) <= depth and want(g):
                        capmap = {c_["n"]: c_["d"] for c_ in lam.get("caps", []) if c_.get("n") != "this" and isinstance(c_.get("d"), int) and not c_.get("initcap")}
                        work += _splice(raw, blocks, nodes, nxt, chain, blk, i - 1, node, g, args=node["args"][1:], capmap=capmap)
                        lambdas += [x for x in g.lambdas if x not in lambdas]
                        done.append(g.name)
                        break
                continue
            if node is None or node.get("k") not in ("mcall", "call") or not node.get("callee"):
                continue
            via_pimpl = False
            if node["k"] == "mcall" and (node.get("obj") or {}).get("k") != "this":
                ap = access_path(node.get("obj")) if pimpl else None
                if not (ap and len(ap) == 2 and ap[0] == "this" and ap[1] == pimpl[0]):
                    continue
                via_pimpl = True
            cands = [g for g in fb.by_name.get(node["callee"], []) if g.ok and g.file == f.file and g.kind == "method" and len(g.params) == len(node.get("args", []))]
            if len({(g.file, g.line) for g in cands}) != 1:
                continue
            g = cands[0]
            # only into methods of the class the calling code belongs to (for a lambda: the class of the method that creates it)
            here = chain[bid][-1] if len(chain[bid]) > 1 else None
            if via_pimpl:
                if g.cls != pimpl[1]:
                    continue
            elif not g.cls or not ((here.startswith(g.cls + "::")) if here else f.name.startswith(g.cls + "::")):
                continue
            if g.name in chain[bid] or len(chain[bid]) > depth or not want(g):
                continue
            # blocks created by the splice (callee copy and the rest of this block) are visited too
            work += _splice(raw, blocks, nodes, nxt, chain, blk, i - 1, node, g)
            lambdas += [x for x in g.lambdas if x not in lambdas]
            done.append(g.name)
            break       # the rest of this block now lives in the continuation block
    if not done:
        _VIEWS[ck] = f
        return f
    raw["blocks"] = [blocks[b] for b in sorted(blocks)]
    from ..facts import Function
    v = Function(raw)
    v.sig = f.sig + "#inlined:" + key
    v.lambdas = lambdas
    v.enclosing = f.enclosing
    if hasattr(f, "lambda_node"):
        v.lambda_node = f.lambda_node
    v.inlined_callees = done
    v.unwired = nxt.get("unwired", [])      # bool callees whose value could not be tied to the branch it decides (all returns join)
    v.origin = f
    _VIEWS[ck] = v
    return v


def _transitively(fb, own, excluded):
    """want-predicate for inlined(): g is not one of `excluded` (the rule's own anchors, judged as units) and executes — itself or
    through further such methods of its class — something `own(g)` recognises as an event the rule reads"""
    memo = {}

    def want(g, busy=()):
        k = (g.name, g.file, g.line)
        if k in memo:
            return memo[k]
        if g.name in excluded or not g.ok or k in busy:
            return False
        res = bool(own(g))
        if not res:
            for n in g.nodes.values():
                if n.get("k") in ("mcall", "call") and n.get("callee") and (n["k"] == "call" or (n.get("obj") or {}).get("k") == "this"):
                    for h in fb.by_name.get(n["callee"], []):
                        if h.ok and h.file == g.file and h.kind == "method" and h.cls == g.cls and want(h, busy + (k,)):
                            res = True
                            break
                if res:
                    break
        if not busy:
            memo[k] = res
        return res
    return want


def engine_view(fb, cls, f):
    """f (a method of engine `cls`) with the helpers of that engine that take part in closing a session expanded in place: a helper
    that copies/invokes the close callback, sets Session::closed or changes the session table.  closeNow, shutdownDrain, the
    connect handlers and process() are never expanded — each is judged as a unit by its own rule."""
    SESS = cls + "::Session"
    excluded = {cls + "::" + x for x in CLOSE_FNS + CONNECT_FNS[cls] + ("process",)}

    def own(g):
        for n in g.nodes.values():
            if n.get("k") == "member":
                if n["n"] == CBS + "onClose":
                    return True
                if n["n"] == SESS + "::closed" and access.classify(g, n) in ("write", "rw"):
                    return True
                if n["n"] == cls + "::_sessions" and access.classify(g, n) in ("write", "rw"):
                    return True
        return False
    return inlined(fb, f, _transitively(fb, own, excluded), "close")


def r1(ctx, r):
    fb, cg = ctx.fb(), ctx.cg()
    for cls in (TCP, UDP):
        allowed = {cls + "::" + x for x in CLOSE_FNS + CONNECT_FNS[cls]}
        n = 0
        # the sites inside the closed set, counted where they execute: a notification moved into a helper of the engine counts once
        # per call of that helper from closeNow / shutdownDrain / a connect handler (R2, R3, R3c judge it there, in the same view)
        absorbed = {}
        for name in CLOSE_FNS + CONNECT_FNS[cls]:
            f = engine_fn(fb, cls, name)
            v = engine_view(fb, cls, f)
            absorbed[f.name] = set(getattr(v, "inlined_callees", ()))
            for e in cb_invocations(v, "onClose"):
                n += 1
                r.instance()
                r.ok("%s: onClose invocation" % short(f.name))

        def carried(g, seen=()):
            """every call of helper g comes from the closed set (where the view expanded it) or from a helper that is carried itself"""
            sites = [c for (c, e, nd) in cg.callers.get(g.name, []) if c.ok]
            if not sites or g.name in seen:
                return False
            for c in sites:
                if c.name in allowed:
                    if g.name not in absorbed[c.name]:
                        return False
                elif c.kind != "method" or c.cls != cls or not carried(c, seen + (g.name,)):
                    return False
            return True
        for f in fb.in_file(FILES[cls]):
            if not f.ok or f.name in allowed:
                continue
            invs = cb_invocations(f, "onClose")
            if not invs or (f.kind == "method" and f.cls == cls and carried(f)):
                continue
            if f.kind == "lambda" and f.enclosing is not None and f.name in absorbed.get(f.enclosing.name, ()) and cg.lambda_role.get(f.name, {}).get("role") == "local":
                # a local lambda of a closed-set function that is only ever called there (every mention of its variable is the callee of
                # a call the view expanded): its notification was counted, and is judged, at those calls
                dv = cg.lambda_role[f.name].get("d")
                uses = [x for x in f.enclosing.nodes.values() if x.get("k") == "var" and x.get("d") == dv]
                if uses and all((f.enclosing.nodes.get(f.enclosing.parent.get(x["id"])) or {}).get("k") == "opcall" and f.enclosing.nodes[f.enclosing.parent[x["id"]]].get("op") == "()"
                                and f.enclosing.nodes[f.enclosing.parent[x["id"]]]["args"][0] is x for x in uses):
                    continue
            for e in invs:
                n += 1
                r.instance()
                r.fail(f, e, "onClose invoked in %s" % last(f.name),
                       "a close notification is fired from %s, outside the closed set {closeNow, shutdownDrain, connect handlers}%s: nothing there makes it exactly-once" % (
                           short(f.name), "" if not cg.callers.get(f.name) else " (it is also reached from %s)" % ", ".join(sorted({short(c.name) for (c, e2, nd) in cg.callers[f.name] if c.name not in allowed})[:3] or ["a call the rule cannot expand"])))
        floor = {TCP: 7, UDP: 9}[cls]
        if n < floor:
            raise AnalysisBroken("%s: %d close-notification sites found, floor %d" % (last(cls), n, floor))


def r2(ctx, r):
    fb = ctx.fb()
    for cls in (TCP, UDP):
        SESS = cls + "::Session"
        for name in CLOSE_FNS:
            f = engine_view(fb, cls, engine_fn(fb, cls, name))      # (helpers that notify / mark closed / erase are seen in place)
            invs = cb_invocations(f, "onClose")
            # two kinds of site: notifications for a Session object (first argument reads Session::id) and, in shutdownDrain,
            # notifications for connect commands that never got a Session (first argument comes from the command) — the
            # latter are decided by R3c below
            def about_session(e, SESS=SESS, f=f):
                return _reads_session_id(f, _first_cb_arg(e), SESS)
            cmd_sites = [e for e in invs if not about_session(e)]
            invs = [e for e in invs if about_session(e)]
            r.instance()
            if len(invs) != 1:
                r.fail(f, None, "%s: close notification sites" % name, "%s::%s has %d close-notification sites for a Session object, expected exactly one" % (last(cls), name, len(invs)))
                continue
            if cmd_sites and name != "shutdownDrain":
                r.instance()
                r.fail(f, cmd_sites[0], "%s: close notification for a bare id" % name, "%s::%s fires a close notification whose id is not taken from the Session being closed" % (last(cls), name))
            inv = invs[0]
            vocab = Vocab(["closed"])

            def leaf(n, SESS=SESS):
                if n.get("k") == "member" and n["n"] == SESS + "::closed":
                    return A("closed")
                return cbset_leaf(n)

            def eff(e, SESS=SESS):
                if e.kind == "stmt" and e.node.get("k") == "bin" and e.node["op"] == "=" and field_of(e.node["lhs"]) == SESS + "::closed":
                    v = const_value(e.node["rhs"])
                    return [("set", "closed", bool(v))] if v is not None else [("havoc", "closed")]
                # a new loop iteration looks at another session (the binding of a helper's `Session *` parameter to the caller's
                # pointer is the same session, not another one)
                if e.kind == "stmt" and e.node.get("k") == "decl" and not e.node.get("inlined_param") and any(v["t"].endswith("Session *") for v in e.node["vars"]):
                    return [("havoc", "closed")]
                return None
            pa = PredAbs(f, vocab, leaf, eff)
            sets = [e for (e, n, k) in common.field_writes(f, SESS + "::closed")]
            ok = len(sets) == 1 and elem_dominates(f, sets[0], inv) and pa.entails(sets[0], Not(A("closed"))) and \
                const_value(common.assigned_value(f, [n for (e, n, k) in common.field_writes(f, SESS + "::closed")][0]) or {}) == 1
            r.expect(ok, f, inv, "%s: close not idempotent" % name,
                     "the close notification in %s::%s is not guarded by the closed flag (flag must be seen false, then set, before the callback): a second close of the "
                     "same session — timer close racing a peer FIN, GC, backpressure — would notify twice" % (last(cls), name),
                     okdesc="%s::%s: !closed → closed = true → onClose" % (last(cls), name))
            # the session leaves the table
            r.instance()
            rem = common.member_calls_on(f, cls + "::_sessions", ("erase", "clear"))
            if name == "closeNow":
                r.expect(any(elem_dominates(f, x, inv) for x in rem), f, inv, "closeNow: not erased", "the session is not erased from _sessions before its close notification",
                         okdesc="%s::closeNow: _sessions.erase before onClose" % last(cls))
            else:
                w = search(f, inv, "exit", stop=lambda x: x in rem, eh=False)
                r.expect(bool(rem) and w is None, f, inv, "shutdownDrain: table not cleared", "shutdownDrain can return without clearing _sessions", witness=witness_str(f, w),
                         okdesc="%s::shutdownDrain: _sessions.clear() on every path" % last(cls))


def r3(ctx, r):
    fb = ctx.fb()
    for cls in (TCP, UDP):
        for name in CONNECT_FNS[cls]:
            f = engine_view(fb, cls, engine_fn(fb, cls, name))      # (a failure path that notifies through a helper still notifies)
            invs = cb_invocations(f, "onClose")
            ins = common.member_calls_on(f, cls + "::_sessions", ("emplace", "insert", "try_emplace", "insert_or_assign"))
            if not ins:
                raise AnalysisBroken("%s::%s no longer inserts a session" % (last(cls), name))
            vocab = Vocab(["term", "twice"])

            def eff(e, invs=invs, ins=ins):
                if e in invs or e in ins:
                    return [("assign", "twice", Or(A("twice"), A("term"))), ("set", "term", True)]
                return None
            pa = PredAbs(f, vocab, cbset_leaf, eff, init=And(Not(A("term")), Not(A("twice"))))
            for ret in common.returns(f):
                r.instance()
                st = pa.describe(ret)
                r.expect(pa.entails(ret, And(A("term"), Not(A("twice")))), f, ret, "%s: outcome not terminal exactly once" % name,
                         "%s::%s can return at line %s having produced %s terminal events for the request's session id (close notification or session insertion): "
                         "%s" % (last(cls), name, ret.line, "two" if "twice" in st or "!twice" not in st and "term" in st else "no",
                                 "a parked connectSync / the application never hears about this id" if "!term" in st or "term" not in st else "the id is both announced and closed here"),
                         okdesc="%s::%s: return at line %s after exactly one terminal event" % (last(cls), name, ret.line))
            # the id reported is the request's
            for e in invs:
                r.instance()
                a = strip_wrappers(e.node["args"][1]) if len(e.node["args"]) > 1 else None
                r.expect(a is not None and last((access_path(a) or ("",))[-1]) == "sid", f, e, "%s: wrong id" % name, "the failure is reported for `%s`, not the request's session id" % show(a),
                         okdesc="%s: onClose(%s, …)" % (name, show(a)))


def r3b(ctx, r):
    """a dequeued command that carries a session id the caller already holds always reaches its handler"""
    fb = ctx.fb()
    for cls, kinds in ((TCP, {"Connect": "doConnect"}), (UDP, {"Connect": "connectDo", "Via": "viaDo"})):
        # (the dispatch switch may sit in a method process() calls per command: a method that calls a connect handler is expanded)
        hs = {cls + "::" + x for x in kinds.values()}
        pr = inlined(fb, engine_fn(fb, cls, "process"), _transitively(fb, lambda g, hs=hs: any(n.get("k") == "mcall" and n.get("callee") in hs for n in g.nodes.values()),
                                                                       {cls + "::" + x for x in CLOSE_FNS + CONNECT_FNS[cls] + ("process",)}), "dispatch")
        # where a command of that kind goes: the edge of `switch (c.t)` to `case Kind:`, or the true edge of `c.t == Kind` (if-chain)
        starts = []
        for bb in pr.blocks.values():
            if bb.cond is None:
                continue
            if bb.term and bb.term.get("k") == "SwitchStmt":
                for si, sx in enumerate(bb.succs):
                    lab = bb.edge_label(si) if sx is not None else None
                    if isinstance(lab, tuple) and lab[0] == "case" and lab[1] and last((strip_casts(lab[1]) or {}).get("n", "")) in kinds and (strip_casts(lab[1]) or {}).get("k") == "enum":
                        starts.append((sx, last(strip_casts(lab[1])["n"])))
            else:
                cp = common.cmp_parts(strip_casts(bb.cond))
                if cp and cp[0] == "==" and bb.succs[0] is not None:
                    ks = [last(x["n"]) for x in walk(strip_casts(bb.cond)) if x.get("k") == "enum" and last(x["n"]) in kinds and "Cmd" in x["n"]]
                    if len(ks) == 1:
                        starts.append((bb.succs[0], ks[0]))
        for (sb, kn) in starts:
            b = pr.blocks[sb]
            en = kn
            h = cls + "::" + kinds[kn]
            r.instance()

            def is_handler(x, h=h):
                return x.kind == "stmt" and x.node.get("k") == "mcall" and x.node.get("callee") == h

            def next_cmd(x):
                return x.kind == "stmt" and ((x.node.get("k") == "decl" and not x.node.get("inlined_param") and any(v["n"] == "c" for v in x.node["vars"])) or (x.node.get("k") in ("opcall", "un") and "__begin" in show(x.node)))
            w = search(pr, ("block", b.id), next_cmd, stop=is_handler, eh=False) or search(pr, ("block", b.id), "exit", stop=is_handler, eh=False)
            r.expect(w is None, pr, None, "%s command can be dropped" % last(en),
                     "%s::process can finish a %s command without calling %s: the session id already returned to the caller then never gets a connect or close event" % (
                         last(cls), last(en), last(h)), witness=witness_str(pr, w), okdesc="%s::process: case %s always reaches %s" % (last(cls), last(en), last(h)))
    r.floor(3, "id-bearing command kinds")


def _first_cb_arg(e):
    a = (e.node.get("args") or [None, None])
    return a[1] if e.node.get("k") == "opcall" and len(a) > 1 else a[0]


def _reads_session_id(f, a, SESS, depth=0):
    """the expression reads Session::id, directly or through a local initialised from it (`SessionId sid = s->id`)"""
    if a is None:
        return False
    for x in walk(a):
        if x.get("k") == "member" and x["n"] == SESS + "::id":
            return True
        if x.get("k") == "var" and depth < 3:
            for e in f.stmts():
                if e.node.get("k") == "decl":
                    for dv in e.node["vars"]:
                        if dv["d"] == x.get("d") and dv.get("init") is not None and _reads_session_id(f, dv["init"], SESS, depth + 1):
                            return True
    return False


def r3c(ctx, r):
    """connect() hands out the session id when the command is queued.  Commands still queued when the engine closes its queue
    are swapped into a local ('residual') and never dispatched: every connect-type command among them must get its close
    notification there, exactly once, with the id of that command — or the id the application holds never terminates."""
    from ..finite import dominating_facts
    fb = ctx.fb()
    KINDS = {TCP: {"Connect": "c"}, UDP: {"Connect": "c", "Via": "v"}}
    for cls in (TCP, UDP):
        f = engine_view(fb, cls, engine_fn(fb, cls, "shutdownDrain"))
        SESS = cls + "::Session"
        sites = [(e, _first_cb_arg(e)) for e in cb_invocations(f, "onClose") if not _reads_session_id(f, _first_cb_arg(e), SESS)]
        # kind tests: the true edge of `c.t == Kind` (each leaf of a disjunction has its own block) or the edge of `switch (c.t)` to
        # `case Kind:`; a site is guarded by them if it cannot be reached with all those edges cut, and it covers the kinds from
        # whose edge it can be reached (the other kinds' edges still cut, so the loop does not lead round to it)
        tests = []      # (block, successor index, kind)
        for bb in f.blocks.values():
            c = strip_casts(bb.cond) if bb.cond is not None else None
            if c is None:
                continue
            if bb.term and bb.term.get("k") == "SwitchStmt":
                for si, sx in enumerate(bb.succs):
                    lab = bb.edge_label(si) if sx is not None else None
                    if isinstance(lab, tuple) and lab[0] == "case" and lab[1]:
                        ks = [last(x["n"]) for x in walk(lab[1]) if x.get("k") == "enum" and last(x["n"]) in KINDS[cls]]
                        if len(ks) == 1:
                            tests.append((bb, si, ks[0]))
            elif c.get("k") in ("bin", "opcall") and c.get("op") == "==":
                ks = [last(x["n"]) for x in walk(c) if x.get("k") == "enum" and last(x["n"]) in KINDS[cls]]
                if len(ks) == 1 and bb.succs[0] is not None:
                    tests.append((bb, 0, ks[0]))
        cut = {(bb.id, si) for (bb, si, k) in tests}

        def uncut(b_, si):
            return (b_.id, si) not in cut
        covered = {}
        for (e, a) in sites:
            unguarded = search(f, ("entry",), lambda x, e=e: x is e, eh=False, edge_ok=uncut)
            if unguarded is not None:
                r.instance()
                r.fail(f, e, "residual close not tied to a command kind", "a close notification for a bare command id in shutdownDrain is reachable without a test of the command's kind")
                continue
            for (bb, si, k) in tests:
                if search(f, ("block", bb.succs[si]), lambda x, e=e: x is e, eh=False, edge_ok=uncut, include_start=True) is not None \
                        or any(x is e for x in f.blocks[bb.succs[si]].elems):
                    # the id must be the one stored in that kind's payload
                    covered.setdefault(k, []).append((e, a))
        for kind, member in KINDS[cls].items():
            r.instance()
            got = covered.get(kind, [])
            r.expect(len(got) >= 1, f, None, "residual %s command not closed" % kind,
                     "%s::shutdownDrain drops a %s command left in the queue when it closes without a close notification for its session id: connect() had already returned ok(sid) for it (typically a reconnect "
                     "issued from an onClose callback fired by the drain itself), so that id never gets onConnect nor onClose" % (last(cls), kind),
                     okdesc="%s: residual %s commands get onClose(sid)" % (last(cls), kind))
        # exactly once: no path from one command-site to another command-site within the same iteration, and none of them reachable twice
        for (e, a) in sites:
            r.instance()
            w = None
            for (e2, a2) in sites:
                if e2 is not e:
                    w = w or search(f, e, lambda x, e2=e2: x is e2, stop=lambda x: x.kind == "stmt" and x.node.get("k") == "un" and x.node.get("op") in ("++", "pre++") or (x.kind == "stmt" and x.node.get("k") == "opcall" and x.node.get("op") == "++"), eh=False)
            r.expect(w is None, f, e, "residual command closed twice", "a residual command can be notified by two sites in one iteration", okdesc="residual command notified once")


class PredAbsSw(PredAbs):
    """PredAbs that also refines on the edges of a `switch`: the edge to `case V:` assumes `cond == V`; the default edge (also the
    edge past a switch that has no default) assumes `cond != V` for every labelled case.  The comparisons are offered to the rule's
    leaf function as ordinary `==` nodes, so an if/else-if chain over an enum and a switch over it refine the same atoms."""

    def __init__(self, f, vocab, leaf, effects, init=T, flags=False, **kw):
        if flags:
            # local bool flags (`bool stale = false; switch (…) { case A: stale = !s->pending; break; … } if (!stale) …`): each becomes an
            # atom that follows its assignments exactly where the assigned condition is readable, and is unknown otherwise
            fl = {}
            tested = {x.get("d") for b in f.blocks.values() if b.cond is not None for x in walk(b.cond) if x.get("k") == "var"}
            for e in f.stmts():
                if e.node.get("k") == "decl" and not e.node.get("inlined_param"):
                    for v in e.node["vars"]:
                        if v["t"].strip() in ("bool", "const bool") and v["d"] in tested and len(vocab.atoms) + len(fl) < 11:
                            fl[v["d"]] = "flag:%s:%d" % (v["n"], v["d"])
            if fl:
                vocab = Vocab(list(vocab.atoms) + sorted(fl.values()))
                leaf0, eff0 = leaf, effects

                def leaf(n, leaf0=leaf0):
                    r_ = leaf0(n)
                    if r_ is None and n.get("k") == "var" and n.get("d") in fl:
                        return A(fl[n["d"]])
                    return r_

                def value(x):
                    x = strip_casts(x)
                    if x is not None and x.get("k") == "bool":
                        return T if x.get("cv") else F
                    return translate(x, leaf) if x is not None else None

                def store(a, x):
                    fm = value(x)
                    tf = fm if fm in (T, F) else total(fm)
                    if tf is not None:
                        return [("assign", a, tf)]
                    return [("havoc", a), ("assume", Or(Not(A(a)), known_when(fm, True))), ("assume", Or(A(a), known_when(fm, False)))]

                def effects(e, eff0=eff0):
                    ops = list(eff0(e) or [])
                    if e.kind == "stmt":
                        n = e.node
                        if n.get("k") == "decl":
                            for v in n["vars"]:
                                if v["d"] in fl:
                                    ops += store(fl[v["d"]], v["init"]) if v.get("init") is not None else [("havoc", fl[v["d"]])]
                        elif n.get("k") == "bin" and n.get("op") in _ASSIGN_OPS and strip_casts(n["lhs"]).get("k") == "var" and strip_casts(n["lhs"]).get("d") in fl:
                            a = fl[strip_casts(n["lhs"])["d"]]
                            ops += store(a, n["rhs"]) if n["op"] == "=" else [("havoc", a)]
                        elif n.get("k") == "un" and ("++" in n.get("op", "") or "--" in n.get("op", "")) and strip_casts(n.get("v") or {}).get("d") in fl:
                            ops.append(("havoc", fl[strip_casts(n["v"])["d"]]))
                    return ops
        PredAbs.__init__(self, f, vocab, leaf, effects, init=init, **kw)

    def _edge(self, st, b, si):
        t = b.term
        c = b.cond if t and t.get("k") == "SwitchStmt" else None
        if c is None:
            return PredAbs._edge(self, st, b, si)

        def eq(v):
            return {"k": "bin", "op": "==", "lhs": c, "rhs": v}
        lab = b.edge_label(si)
        if isinstance(lab, tuple) and lab[0] == "case" and lab[1]:
            st = self.v.assume(st, known_when(translate(eq(lab[1]), self.leaf), True))
        elif lab == "default":
            for sj, s in enumerate(b.succs):
                l2 = b.edge_label(sj) if s is not None else None
                if isinstance(l2, tuple) and l2[0] == "case" and l2[1]:
                    st = self.v.assume(st, known_when(translate(eq(l2[1]), self.leaf), False))
        return st if st else None


def _pure_predicate(g):
    """a bool-returning method that only looks: writes no field, calls nothing but const standard-library members"""
    if g.raw.get("ret") != "bool" or not g.ok:
        return False
    for n in g.nodes.values():
        k = n.get("k")
        if k == "member" and access.classify(g, n) in ("write", "rw"):
            return False
        if k in ("lambda", "throw", "delete", "new"):
            return False
        if k in ("call", "mcall", "opcall"):
            c = n.get("callee") or ""
            if not c.startswith("std::") or c == "std::function::operator()" or last(c) in access.MUTATORS:
                return False
        if k == "bin" and n.get("op") in _ASSIGN_OPS or k == "un" and ("++" in n.get("op", "") or "--" in n.get("op", "")):
            return False
    return True


def r4(ctx, r):
    from ..finite import dominating_facts
    fb = ctx.fb()
    # the re-validation may be spelled as a predicate method of the engine (`if (isStale(*s, c.closeOrigin)) break;`): such a pure
    # bool method is expanded at the branch it decides, each of its returns wired to the edge its value selects
    # — and so is a method that reads the command's closeOrigin (the Close case moved out of process() as a whole)
    def revalidates(g):
        if g.name in {TCP + "::" + x for x in CLOSE_FNS + CONNECT_FNS[TCP] + ("process",)}:
            return False
        return _pure_predicate(g) or any(n.get("k") == "member" and n["n"].endswith("Command::closeOrigin") and access.classify(g, n) == "read" for n in g.nodes.values())
    f = inlined(fb, engine_fn(fb, TCP, "process"), revalidates, "revalidation")
    SESS = TCP + "::Session"
    vocab = Vocab(["o_ct", "o_hs", "o_ws", "pending", "hs", "wqempty"])
    origin = {"ConnectTimeout": "o_ct", "HandshakeTimeout": "o_hs", "WriteStall": "o_ws"}

    def leaf(n):
        if n.get("k") == "bin" and n["op"] in ("==", "!="):
            l, rr = strip_casts(n["lhs"]), strip_casts(n["rhs"])
            if rr.get("k") == "enum" and l.get("k") == "member":
                if l["n"].endswith("Command::closeOrigin") and last(rr["n"]) in origin:
                    a = A(origin[last(rr["n"])])
                    return a if n["op"] == "==" else Not(a)
                if l["n"].endswith("Command::closeOrigin") and n["op"] == "==":
                    # any other enumerator (App, …): none of the three timer origins
                    return And(Not(A("o_ct")), Not(A("o_hs")), Not(A("o_ws")))
                if l["n"] == SESS + "::tlsState" and last(rr["n"]) == "Handshake":
                    return A("hs") if n["op"] == "==" else Not(A("hs"))
        if n.get("k") == "member" and n["n"] == SESS + "::connectPending":
            return A("pending")
        if n.get("k") == "mcall" and last(n.get("callee", "")) == "empty" and field_of(n.get("obj")) == SESS + "::wq":
            return A("wqempty")
        return None
    excl = And(Not(And(A("o_ct"), A("o_hs"))), Not(And(A("o_ct"), A("o_ws"))), Not(And(A("o_hs"), A("o_ws"))))

    CMD = ("iora::network::TcpEngine::Command", "iora::network::TcpEngine::Command &", "const iora::network::TcpEngine::Command &", "const iora::network::TcpEngine::Command")

    def eff(e):
        # each command of the loop is a fresh origin (the loop variable is found by its type, whatever it is called)
        if e.kind == "stmt" and e.node.get("k") == "decl" and not e.node.get("inlined_param") and any(v["t"] in CMD for v in e.node["vars"]):
            return [("havoc_all", ["o_ct", "o_hs", "o_ws", "pending", "hs", "wqempty"]), ("assume", excl)]
        return None
    if not any(e.node.get("k") == "decl" and not e.node.get("inlined_param") and any(v["t"] in CMD for v in e.node["vars"]) for e in f.stmts()):
        raise AnalysisBroken("process(): the per-command loop variable (a TcpEngine::Command) was not found")
    pa = PredAbsSw(f, vocab, leaf, eff, init=excl, flags=True)
    closes = [e for e in f.stmts() if e.node.get("k") == "mcall" and e.node.get("callee") == TCP + "::closeNow"]
    if not closes:
        raise AnalysisBroken("process() no longer calls closeNow for Cmd::Close")
    goal = And(Or(Not(A("o_ct")), A("pending")), Or(Not(A("o_hs")), A("hs")), Or(Not(A("o_ws")), Not(A("wqempty"))))
    for e in closes:
        r.instance()
        if not pa.entails(e, goal):
            # a verdict needs every test on the way to be readable: a guard that is a call into the engine which could not be expanded
            # at its branch (not a pure predicate, or its value goes through a variable) hides what it re-checks — refuse, do not guess
            if getattr(f, "unwired", None):
                raise AnalysisBroken("process(): the result of %s reaches its branch through a variable the rule does not track" % short(f.unwired[0]))
            for (c, t) in dominating_facts(f, e):
                for x in walk(c):
                    if x.get("k") in ("call", "mcall") and (x.get("callee") or "").startswith(TCP + "::") and x.get("callee") not in getattr(f, "inlined_callees", ()):
                        raise AnalysisBroken("process(): closeNow is guarded by a call to %s whose result the rule cannot follow to the branch" % short(x["callee"]))
        r.expect(pa.entails(e, goal), f, e, "stale timer close not re-validated",
                 "a timer-originated close command reaches closeNow without the condition that armed the timer being re-checked (connect still pending / handshake still in "
                 "progress / write queue still non-empty): a stale timeout closes a healthy session (known: %s)" % ",".join(pa.describe(e)),
                 okdesc="process(): timer closes re-validated before closeNow")
    # the timer handlers run on the TimerService thread and may only enqueue — judged over what a handler runs, not its own body
    # alone: a call to another method of the engine is followed (one definition, same file) and held to the same terms; the closure
    # stops at enqueue() and at the Command factories, whose bodies are the hand-over itself
    def closure(g):
        seen, work, bad, touches = {}, [g], [], []
        while work:
            x = work.pop()
            if (x.name, x.line) in seen:
                continue
            seen[(x.name, x.line)] = x
            touches += [n["n"] for n in x.nodes.values() if n.get("k") == "member" and n["n"].startswith(TCP + "::_") and n["n"] not in (TCP + "::_cmds",)]
            for (e, n, c) in ctx.cg().callees_of(x):
                if c == TCP + "::enqueue" or c.startswith(TCP + "::Command::") or c.startswith("std::"):
                    continue
                if c.startswith(TCP + "::") and not c.endswith("<ctor>"):
                    defs = [h_ for h_ in fb.by_name.get(c, []) if h_.ok and h_.file == g.file]
                    if len({(h_.file, h_.line) for h_ in defs}) != 1:
                        raise AnalysisBroken("%s calls %s, which the rule cannot resolve to one definition" % (short(g.name), short(c)))
                    work.append(defs[0])
                else:
                    bad.append(c)
        return list(seen.values()), sorted(set(bad)), sorted(set(touches))
    ORIG = (("handleConnectTimeout", "ConnectTimeout"), ("handleHandshakeTimeout", "HandshakeTimeout"), ("handleWriteStallTimeout", "WriteStall"))
    def timer_entry(h, o):
        """what the timer thread runs for that timeout: the handler method, or — when the handler's body was folded into it — the lambda
        handed to the timer service whose id is stored in the Session field of that timeout (Session::connectTimeoutId, …)"""
        if fb.funcs(TCP + "::" + h, FILES[TCP]):
            return engine_fn(fb, TCP, h)
        fld = SESS + "::" + o[0].lower() + o[1:].replace("Timeout", "") + "TimeoutId"
        found = []
        for x in fb.in_file(FILES[TCP]):
            if not x.ok or x.cls != TCP:
                continue
            for n in x.nodes.values():
                if is_assign_node(n):
                    lhs, rhs = (n["lhs"], n["rhs"]) if n.get("k") == "bin" else (n["args"][0], n["args"][1])
                    rhs = strip_wrappers(rhs)
                    if field_of(lhs) == fld and rhs is not None and rhs.get("k") == "mcall" and field_of(rhs.get("obj")) == TCP + "::_timerService":
                        for a in rhs.get("args", []):
                            a = strip_wrappers(a)
                            while a is not None and a.get("k") == "ctor" and len(a.get("args", [])) == 1:
                                a = strip_wrappers(a["args"][0])
                            if a is not None and a.get("k") == "lambda":
                                found += [lf for (ln, lf) in x.lambdas if lf.name == a["fn"] and lf.ok]
        if len(found) != 1:
            raise AnalysisBroken("neither %s nor a single timer-service lambda stored in %s was found (%d)" % (h, short(fld), len(found)))
        return found[0]

    def is_assign_node(n):
        return (n.get("k") == "bin" and n.get("op") == "=") or (n.get("k") == "opcall" and n.get("op") == "=" and len(n.get("args", [])) == 2)
    for h, o in ORIG:
        g = timer_entry(h, o)
        r.instance()
        fns, bad, touches = closure(g)
        r.expect(not bad and not touches, g, None, "%s does more than enqueue" % h, "%s runs on the timer thread but calls %s / touches %s" % (h, bad, touches),
                 okdesc="%s only enqueues a close command" % h)
        # origins are what the handlers say: the enumerator is named in the handler, or in a method only it runs that names no other origin
        r.instance()

        def names(x, which):
            return any(y.get("k") == "enum" and last(y["n"]) == which for y in x.nodes.values())
        tagged = names(g, o) or any(names(x, o) and not any(names(x, o2) for (h2, o2) in ORIG if o2 != o) for x in fns)
        r.expect(tagged, g, None, "%s origin" % h, "%s does not tag its close command with CloseOrigin::%s" % (h, o),
                 okdesc="%s tags CloseOrigin::%s" % (h, o))

def r5(ctx, r):
    fb = ctx.fb()
    for cls in (TCP, UDP):
        def events(g, cls=cls):
            return (cb_invocations(g, "onAccept") + cb_invocations(g, "onConnect"),
                    common.member_calls_on(g, cls + "::_sessions", ("emplace", "insert", "try_emplace")),
                    cb_invocations(g, "onData") + [e for e in g.stmts() if e.node.get("k") == "mcall" and e.node.get("callee") == cls + "::readAvail"])

        def expands(f, cls=cls):
            # two shapes of helper are seen in place in the function that calls them: (a) one that only announces (copy-then-invoke of
            # onAccept/onConnect plus bookkeeping; neither inserts nor delivers) — its call is the announcement; (b) one that creates
            # the session (inserts, and usually announces) called from a function that itself delivers data — the obligation 'announce
            # before the first data of the session just created' spans that call.  process(), the close routines and readAvail (the
            # rule's own name for 'data is delivered') always stay calls.
            delivers = bool(events(f)[2])
            stay = {cls + "::" + x for x in CLOSE_FNS + CONNECT_FNS[cls] + ("process", "readAvail")}

            def reach(g, seen):
                # events of g and of the methods of the engine it runs through (the announcement may sit one helper deeper)
                if (g.name, g.line) in seen or g.name in stay or not g.ok:
                    return (False, False, False)
                seen.add((g.name, g.line))
                a, i, d = (bool(x) for x in events(g))
                for n in g.nodes.values():
                    if n.get("k") in ("mcall", "call") and (n.get("callee") or "").startswith(cls + "::") and (n["k"] == "call" or (n.get("obj") or {}).get("k") == "this"):
                        for h_ in fb.by_name.get(n["callee"], []):
                            if h_.file == g.file and h_.kind == "method" and h_.cls == cls:
                                a2, i2, d2 = reach(h_, seen)
                                a, i, d = a or a2, i or i2, d or d2
                # a call of readAvail is a delivery even though readAvail itself stays a call
                return a, i, d

            def want(g):
                if g.name in stay:
                    return False
                a, i, d = reach(g, set())
                return (a and not i and not d) or (i and delivers)
            return want
        for f in fb.in_file(FILES[cls]):
            if not f.ok or f.cls != cls:
                continue
            f = inlined(fb, f, expands(f), "announce")
            ann = cb_invocations(f, "onAccept") + cb_invocations(f, "onConnect")
            if not ann:
                continue
            ins = common.member_calls_on(f, cls + "::_sessions", ("emplace", "insert", "try_emplace"))
            data = cb_invocations(f, "onData") + [e for e in f.stmts() if e.node.get("k") == "mcall" and e.node.get("callee") == cls + "::readAvail"]
            for a in ann:
                if ins:
                    r.instance()
                    r.expect(any(elem_dominates(f, i, a) for i in ins), f, a, "announce before insertion",
                             "%s announces a session before it is in the session table: a callback that uses the id at once (send, close) finds nothing" % short(f.name),
                             okdesc="%s: session inserted before it is announced" % short(f.name))
            for d in data:
                # on the path that creates/opens the session, the announcement comes first
                starts = ins if ins else []
                for s in starts:
                    r.instance()
                    pa = PredAbs(f, Vocab(["x"]), cbset_leaf, lambda e: None)
                    w = search(f, s, lambda x, d=d: x is d, stop=lambda x: x in ann, eh=False, edge_ok=lambda b, si: pa.edge_feasible(b, si))
                    r.expect(w is None, f, d, "data before announce", "data can be delivered for a newly created session before its accept/connect announcement",
                             witness=witness_str(f, w), okdesc="%s: announce precedes first data" % short(f.name))
                if not ins:
                    for a in ann:
                        if search(f, a, lambda x, d=d: x is d, eh=False) is not None or search(f, d, lambda x, a=a: x is a, eh=False) is not None:
                            r.instance()
                            w = search(f, d, lambda x, a=a: x is a, eh=False)
                            r.expect(w is None, f, d, "data before announce", "in %s data delivery can precede the connect announcement" % short(f.name), witness=witness_str(f, w),
                                     okdesc="%s: announce precedes data" % short(f.name))
    r.floor(8, "announce/data ordering obligations")


def r6(ctx, r):
    fb = ctx.fb()
    for cls in (TCP, UDP):
        fld = cls + "::_nextSessionId"
        n = 0
        for (f, e, node, kind) in access.accesses(fb, fld, [FILES[cls]]):
            par = f.nodes.get(f.parent.get(node["id"]))
            if kind == "read" and par is not None and par.get("k") == "mcall" and last(par.get("callee", "")) in ("load", "operator unsigned long"):
                continue
            if kind == "read":
                continue
            # an increment inside an allocator method (the incremented value is what it returns) stands for each of its call sites
            n += max(1, len([1 for (g, e2, nd) in ctx.cg().callers.get(f.name, []) if g.ok and g.file == f.file])) if f.kind == "method" and any(
                x.node.get("k") == "ret" and any(y is node for y in walk(x.node)) for x in f.stmts()) else 1
            r.instance()
            ok = par is not None and ((par.get("k") == "opcall" and par.get("op") == "++") or (par.get("k") == "un" and "++" in par.get("op", "")) or
                                      (par.get("k") == "mcall" and last(par.get("callee", "")) == "fetch_add" and const_value(par["args"][0]) == 1))
            r.expect(ok, f, e, "_nextSessionId written", "%s writes the session-id counter other than by incrementing it (`%s`): identifiers could be reused" % (short(f.name), show(par)[:60]),
                     okdesc="%s: %s" % (short(f.name), show(par)[:40]))
        if n < 2:
            raise AnalysisBroken("%s: %d increments of _nextSessionId found" % (last(cls), n))


def r7(ctx, r):
    fb = ctx.fb()
    for cls in (TCP, UDP):
        SESS = cls + "::Session"
        for f in fb.in_file(FILES[cls]):
            if not f.ok or f.cls != cls:
                continue
            ins = common.member_calls_on(f, cls + "::_sessions", ("emplace", "insert", "try_emplace"))
            bumps = [e for e in f.stmts() if e.node.get("k") == "mcall" and e.node.get("callee") == cls + "::bumpSess"]
            for i in ins:
                r.instance()
                w = search(f, i, "exit", stop=lambda x: x in bumps, eh=False)
                w2 = search(f, i, lambda x: x in ins and x is not i or x is i, stop=lambda x: x in bumps, eh=False)
                r.expect(w is None and w2 is None, f, i, "insert without gauge bump", "a session is inserted without bumpSess() on some path: the current-sessions gauge under-counts and later wraps",
                         witness=witness_str(f, w or w2), okdesc="%s: emplace followed by bumpSess" % short(f.name))
            for n in f.nodes.values():
                if n.get("k") == "member" and n["n"].endswith("AtomicStats::sessionsCurrent"):
                    par = f.nodes.get(f.parent.get(n["id"]))
                    if par is None:
                        continue
                    dec = (par.get("k") == "opcall" and par.get("op") == "--") or (par.get("k") == "mcall" and last(par.get("callee", "")) == "fetch_sub") or \
                          (par.get("k") == "opcall" and par.get("op") == "-=")
                    if not dec:
                        continue
                    e = f.elem_for(par)
                    r.instance()
                    sets = [x for (x, nn, k) in common.field_writes(f, SESS + "::closed")]
                    r.expect(last(f.name) in CLOSE_FNS and any(elem_dominates(f, s, e) for s in sets), f, e, "gauge decrement unpaired",
                             "sessionsCurrent is decremented in %s outside the closed-flag-guarded close path: the gauge can under-count" % short(f.name),
                             okdesc="%s: sessionsCurrent-- after closed = true" % short(f.name))
    r.floor(8, "gauge sites")


def close_handler(ctx):
    """the transport's engine-close handler (the lambda stored in Callbacks::onClose) as one body: steps that were moved into
    methods of Transport::Impl — a named handler the lambda forwards to, one method per step — are expanded in place when they
    (transitively) invoke a std::function, wait on a condition variable, or touch the per-session maps the fan-out works on"""
    fb = ctx.fb()
    IMPL = c03.IMPL
    maps = {IMPL + "::" + x for x in ("observers", "observerToSession", "sessionData", "receiveBuffers", "readModes", "pendingConnects", "onCloseCb")}

    def own(g):
        for n in g.nodes.values():
            k = n.get("k")
            if k == "member" and n["n"] in maps:
                return True
            if k == "opcall" and n.get("op") == "()" and n.get("callee") == "std::function::operator()":
                return True
            if k == "mcall" and (n.get("callee") or "").startswith("std::condition_variable") and last(n["callee"]) in common.CV_WAIT:
                return True
        return False
    return inlined(fb, c03.lambdas(ctx)["onClose"], _transitively(fb, own, set()), "fanout")


def _fn_copies(f, field):
    """declaration ids of the locals of f that receive a copy of the std::function member `field` (`cb = field` / `auto cb = field`)"""
    out = set()
    for n in f.nodes.values():
        if n.get("k") == "opcall" and n.get("op") == "=" and len(n["args"]) == 2 and field_of(strip_wrappers(n["args"][1])) == field and strip_wrappers(n["args"][0]).get("k") == "var":
            out.add(strip_wrappers(n["args"][0]).get("d"))
        if n.get("k") == "decl":
            for v in n["vars"]:
                i = v.get("init")
                if i is not None and "std::function" in v["t"] and any(x.get("k") == "member" and x["n"] == field for x in walk(i)):
                    out.add(v["d"])
    return out


def fanout_sites(oc):
    """the user callbacks the close handler invokes, told apart by where the callee object comes from (not by what a local is
    called): the global close callback is (a copy of) Impl::onCloseCb, the user-data cleanup is (a copy of) UserData::cleanup, and
    every other std::function invoked there is a per-session observer — it has to obey the observers' place in the order"""
    IMPL = c03.IMPL
    gl, cl = _fn_copies(oc, IMPL + "::onCloseCb"), _fn_copies(oc, IMPL + "::UserData::cleanup")
    gs, os_, cs = [], [], []
    for (e, t) in common.fn_invocations(oc):
        t = strip_wrappers(t)
        if field_of(t) == IMPL + "::onCloseCb" or (t.get("k") == "var" and t.get("d") in gl):
            gs.append(e)
        elif field_of(t) == IMPL + "::UserData::cleanup" or (t.get("k") == "var" and t.get("d") in cl):
            cs.append(e)
        else:
            os_.append(e)
    return gs, os_, cs


def r8(ctx, r):
    la = c03._la(ctx)
    oc = close_handler(ctx)
    IMPL = c03.IMPL
    gs, os_, cs = fanout_sites(oc)
    for xs, what in ((gs, "global close callback"), (os_, "observer"), (cs, "user-data cleanup")):
        r.instance()
        r.expect(bool(xs), oc, None, "no %s" % what, "the transport close handler no longer invokes the %s" % what, okdesc="%s invoked" % what)
    if not (gs and os_ and cs):
        return
    g, o, c = gs[0], os_[0], cs[0]
    tomb = [e for (e, n, k) in common.field_writes(oc, c03.SRB + "::closed")]
    seq = [("global onClose", gs), ("observers", os_), ("tombstone/closed flag", tomb), ("user-data cleanup", cs)]
    for i in range(len(seq)):
        for j in range(i + 1, len(seq)):
            r.instance()
            w = None
            for later in seq[j][1]:
                for earlier in seq[i][1]:
                    w = w or search(oc, later, lambda x, earlier=earlier: x is earlier, eh=False)
                    # "later" must also not be able to run on a path that skips "earlier" entirely *before* it: order = never reversed
                    if w is None and not elem_dominates(oc, earlier, later) and search(oc, ("entry",), lambda x, later=later: x is later, stop=lambda x, earlier=earlier: x is earlier, eh=False) is not None:
                        # reachable without passing `earlier`: acceptable only if `earlier` is conditional on a null test (copy-then-invoke)
                        pa = PredAbs(oc, Vocab(["x"]), cbset_leaf, lambda e: None)
                        if search(oc, ("entry",), lambda x, later=later: x is later, stop=lambda x, earlier=earlier: x is earlier, eh=False,
                                  edge_ok=lambda b, si: pa.edge_feasible(b, si)) is not None and seq[i][0] in ("global onClose",):
                            w = search(oc, ("entry",), lambda x, later=later: x is later, stop=lambda x, earlier=earlier: x is earlier, eh=False,
                                       edge_ok=lambda b, si: pa.edge_feasible(b, si))
            r.expect(w is None, oc, seq[j][1][0], "%s before %s" % (seq[j][0], seq[i][0]), "close fan-out order broken: %s can run before %s" % (seq[j][0], seq[i][0]),
                     witness=witness_str(oc, w), okdesc="%s ≺ %s" % (seq[i][0], seq[j][0]))
    # each outside its lock; copies made under the lock
    for (lst, what, m) in ((gs, "global callback", IMPL + "::callbackMutex"), (os_, "observer", IMPL + "::observerMutex"), (cs, "cleanup", IMPL + "::userDataMutex")):
        for e in lst:
            r.instance()
            held = la.mutexes(oc, e) & {IMPL + "::callbackMutex", IMPL + "::observerMutex", IMPL + "::userDataMutex", c03.SYNC}
            r.expect(not held, oc, e, "%s under lock" % what, "%s invoked holding %s" % (what, ",".join(sorted(held))), okdesc="%s invoked with no transport lock" % what)
    # observers and user data are removed under their locks before the callbacks run (at most once)
    er_obs = common.member_calls_on(oc, IMPL + "::observers", ("erase",))
    er_ud = common.member_calls_on(oc, IMPL + "::sessionData", ("erase",))
    r.instance(2)
    r.expect(er_obs and all(la.holds(oc, e, IMPL + "::observerMutex") and search(oc, o, lambda x, e=e: x is e, eh=False) is None for e in er_obs), oc, o, "observers not removed first",
             "the session's observers are not erased (under observerMutex) before they are invoked: a re-entrant close would notify them twice, and an unobserve() issued while the fan-out runs still finds "
             "its id, reports success, and the observer taken in the copy fires anyway (a no-longer-registered observer receives the close)", okdesc="observers erased under observerMutex before invocation")
    r.expect(er_ud and all(la.holds(oc, e, IMPL + "::userDataMutex") and search(oc, c, lambda x, e=e: x is e, eh=False) is None for e in er_ud), oc, c, "user data not removed first",
             "the session's user data is not erased (under userDataMutex) before its cleanup runs: cleanup could run twice", okdesc="user data erased under userDataMutex before cleanup")
    # the per-session observer vector keeps registration order: additions at the back, removals order-preserving
    fb = ctx.fb()
    nobs = 0
    for f in fb.in_file(c03.FILE):
        if not f.ok:
            continue
        if not any(n.get("k") == "member" and n["n"] == IMPL + "::observers" for n in f.nodes.values()):
            continue
        # names that denote a per-session vector: references bound to observers[...] / it->second
        vecs = set()
        for e in f.stmts():
            if e.node.get("k") == "decl":
                for v in e.node["vars"]:
                    if "vector<std::pair<unsigned long, std::function" in v["t"] and "&" in v["t"]:
                        vecs.add(v["n"])
        for e in f.stmts():
            n = e.node
            if "root" not in e.raw:
                continue
            for x in walk(n):
                tgt = None
                if x.get("k") == "mcall":
                    o = x.get("obj") or {}
                    if (o.get("k") == "var" and o["n"] in vecs) or ("vector<std::pair<unsigned long, std::function" in o.get("t", "") and "observers" in show(o)) or \
                            (o.get("k") == "member" and last(o["n"]) == "second" and "obs" in show(o).lower()):
                        m = last(x.get("callee", ""))
                        if m in access.MUTATORS:
                            nobs += 1
                            r.instance()
                            ok = m in ("emplace_back", "push_back", "clear") or (m == "erase")
                            r.expect(ok, f, e, "observer order: %s" % m, "%s modifies a session's observer list with %s(): the close fan-out iterates that list front to back, "
                                     "so removals and additions must keep registration order" % (short(f.name), m), okdesc="%s: observer list %s" % (short(f.name), m))
                if x.get("k") in ("opcall", "bin") and x.get("op") == "=":
                    lhs = x["args"][0] if x.get("k") == "opcall" else x["lhs"]
                    lt = show(lhs)
                    if "std::pair<unsigned long, std::function" in (lhs.get("t", "") + str((lhs.get("args") or [{}])[0].get("t", ""))) and f.name.endswith("unobserve"):
                        r.instance()
                        r.fail(f, e, "observer slot overwritten", "%s overwrites an element of a session's observer list (`%s`): registration order is lost" % (short(f.name), show(x)[:70]))
                    elif f.name.endswith("unobserve") and x.get("k") == "opcall" and lhs.get("k") == "opcall" and lhs.get("op") == "*":
                        r.instance()
                        r.fail(f, e, "observer slot overwritten", "%s overwrites an element of a session's observer list (`%s`): registration order is lost" % (short(f.name), show(x)[:70]))
    if nobs < 2:
        raise AnalysisBroken("observer list mutations: %d found" % nobs)
    # user data: the registration API replaces — what the close handler cleans up is the LAST registration ("registered and
    # unregistered at any point"): the store is an overwriting form on every path, with both parameters
    sd = ctx.fb().func("iora::network::Transport::setSessionData", file_suffix=c03.FILE)
    r.instance()
    stores, weak = [], []
    for e in sd.stmts():
        n = e.node
        if n.get("k") == "opcall" and n.get("op") == "=" and any(y.get("k") == "member" and y["n"] == IMPL + "::sessionData" for y in walk(n["args"][0])):
            lhs = n["args"][0]
            if lhs.get("k") == "opcall" and lhs.get("op") == "[]" or (lhs.get("k") == "member" and "->second" in show(lhs)) or "second" in show(lhs):
                stores.append(e)
        if n.get("k") == "mcall" and field_of(n.get("obj")) == IMPL + "::sessionData":
            m = last(n["callee"])
            if m == "insert_or_assign":
                stores.append(e)
            elif m in ("emplace", "insert", "try_emplace", "emplace_hint"):
                weak.append(e)
    if not stores and not weak:
        raise AnalysisBroken("setSessionData: no store into sessionData found")
    # a non-overwriting insert is fine only behind an erase of the same key on every path
    for e in weak:
        er = [x for x in common.member_calls_on(sd, IMPL + "::sessionData", ("erase",)) if elem_dominates(sd, x, e)]
        r.expect(bool(er), sd, e, "registration does not replace", "setSessionData stores with %s(), which leaves an existing entry untouched: a second registration (replacement, or un-registration with nullptr) "
                 "is ignored and the close handler cleans up the stale pointer, never the current one" % last(e.node["callee"]), okdesc="insert behind an erase of the key")
    pnames = {p_["n"] for p_ in sd.params[1:]}
    for e in stores:
        used = {y["n"] for y in walk(e.node) if y.get("k") == "var" and y.get("parm") is not None}
        r.expect(pnames <= used, sd, e, "registration drops a parameter", "setSessionData stores %s but not %s" % (sorted(used & pnames), sorted(pnames - used)), okdesc="sessionData[sid] = {data, cleanup}")
    if stores and not weak:
        exits_without = search(sd, ("entry",), "exit", stop=lambda x: x in stores, eh=False)
        r.expect(exits_without is None, sd, stores[0], "registration skipped on a path", "setSessionData can return without storing (%s)" % (witness_str(sd, exits_without) if exits_without else ""),
                 okdesc="every path of setSessionData stores")
    # the session's read-mode entry dies with the session on EVERY announced close: a mode left behind (Sync) routes a later
    # setReadMode(Async) into the flush path, which delivers the tombstone's bytes through the data callback after the close
    rm = common.member_calls_on(oc, IMPL + "::readModes", ("erase",))
    r.instance()
    if not rm:
        r.fail(oc, None, "read mode kept after close", "the close handler no longer erases readModes[sid]")
    else:
        w = search(oc, gs[0], "exit", stop=lambda x: x in rm, eh=False)
        r.expect(w is None, oc, rm[0], "read mode kept after close", "after the global close callback the handler can return without erasing readModes[sid] (%s): the session stays in its old mode after its close, and a later "
                 "setReadMode(sid, Async) takes the Sync→Async flush path and hands the undrained bytes to the data callback — data after close" % witness_str(oc, w), okdesc="readModes[sid] erased on every announced close")
    # observers iterate the copy front to back
    r.instance()
    begins = [e for e in oc.stmts() if e.node.get("k") == "mcall" and last(e.node.get("callee", "")) in ("rbegin", "crbegin") and "vector<std::pair<unsigned long, std::function" in (e.node.get("obj") or {}).get("t", "")]
    r.expect(not begins, oc, begins[0] if begins else None, "observer order", "observers are iterated in reverse registration order", okdesc="observers invoked in registration order")


def r9(ctx, r):
    """'nothing is delivered for it after the close': the Sync→Async flush of setReadMode runs on an application thread and
    invokes the data callback with no lock held, one batch per loop iteration.  A close of that session processed by the I/O
    thread in between must not let a later batch follow the close notification.  Two proofs are accepted: (P1) the close handler
    waits the flush out (a condition-variable wait on `flushing` before the global close callback); (P2) a flag the close handler
    raises under syncMutex before its first callback is tested by the flusher in the critical section that takes each batch."""
    from ..finite import dominating_facts
    fb = ctx.fb()
    la = c03._la(ctx)
    IMPL, SRB = c03.IMPL, c03.SRB
    # (the flush loop may live in a method of Impl that setReadMode forwards to: any Impl method on the way that invokes a
    # std::function is expanded into the view; the known finding stays keyed on setReadMode)
    f = inlined(fb, fb.func("iora::network::Transport::setReadMode"),
                _transitively(fb, lambda g: any(n.get("k") == "opcall" and n.get("op") == "()" and n.get("callee") == "std::function::operator()" for n in g.nodes.values()), set()),
                "flush", pimpl=("iora::network::Transport::_impl", IMPL))
    oc = close_handler(ctx)
    deliveries = [e for (e, t) in common.fn_invocations(f)]
    if not deliveries:
        raise AnalysisBroken("setReadMode: flush delivery not found")
    glob = fanout_sites(oc)[0]
    if not glob:
        raise AnalysisBroken("onClose handler: global close callback invocation not found")
    # P1
    p1 = False
    for e in oc.stmts():
        n = e.node
        if n.get("k") == "mcall" and n.get("callee", "").startswith("std::condition_variable") and last(n["callee"]) in common.CV_WAIT:
            args = [a for a in n.get("args", []) if not a.get("def")]
            P = common._resolve_pred(fb, oc, args[-1]) if args else None
            reads = {x["n"] for x in P.nodes.values() if x.get("k") == "member"} if P is not None else set()
            # the wait is conditional (`if (buffer exists && flushing) wait`): it must lie on the way to the global callback, never after it
            if SRB + "::flushing" in reads and c03.SYNC in la.mutexes(oc, e) and all(search(oc, e, lambda x, g=g: x is g, eh=False) is not None and search(oc, g, lambda x, e=e: x is e, eh=False) is None for g in glob):
                p1 = True
    # P2
    raised = set()
    for fld in fb.record(SRB)["fields"]:
        name = SRB + "::" + fld["n"]
        for (e, n, k) in common.field_writes(oc, name):
            if c03.SYNC in la.mutexes(oc, e) and all(elem_dominates(oc, e, g) for g in glob):
                raised.add(name)
    p2 = bool(raised)
    for d in deliveries:
        tested = set()
        for (c, t) in dominating_facts(f, d):
            tested |= {x["n"] for x in walk(c) if x.get("k") == "member"}
        if not (tested & raised):
            p2 = False
    r.instance()
    r.expect(p1 or p2, f, deliveries[0], "flush delivers after the close",
             "the flush loop of setReadMode hands a batch to the data callback without any coordination with the close handler: while the flusher is inside the callback for one batch the I/O thread can buffer more "
             "bytes and then run the whole close fan-out for the session, after which the flusher's next iteration delivers those bytes — event order data(A), close, data(B). The close handler neither waits for "
             "`flushing` to clear before its first callback nor raises a flag (under syncMutex) that the flusher tests when it takes a batch",
             okdesc="close handler waits the flush out / flusher re-validates a closing flag")


def r10(ctx, r):
    """'no data callback after the close' on a UDP listener: readFromListener picks the delivery session through _peerIndex, so a route that
    survives its session's close (or is taken over by a session that does not clean it up) delivers datagrams under a closed id.  The two
    C06 rules that keep index and session table coherent decide exactly this; they are run here under this property's id."""
    c06 = __import__("iora_sa.props.c06", fromlist=["r5"])
    c06.resolve_state(ctx.fb())
    c06.r5(ctx, r)
    c06.r6(ctx, r)


def run(ctx, ck):
    ck.run_rule("C02-R1", "close notifications are fired only from the closed set of sites", "A3 who-may-call", lambda r: r1(ctx, r))
    ck.run_rule("C02-R2", "close is idempotent: !closed → closed=true → erase → notify", "A5 + A2", lambda r: r2(ctx, r))
    ck.run_rule("C02-R3", "every connect outcome is terminal exactly once", "A5 ghost counting", lambda r: r3(ctx, r))
    ck.run_rule("C02-R3b", "a dequeued connect command always reaches its handler", "A2 must-pass", lambda r: r3b(ctx, r))
    ck.run_rule("C02-R3c", "connect commands dropped at queue close still get their close notification", "A2 closed set of command kinds vs. notification sites", lambda r: r3c(ctx, r))
    ck.run_rule("C02-R4", "timer-originated closes are re-validated; timer handlers only enqueue", "A5 + A3", lambda r: r4(ctx, r))
    ck.run_rule("C02-R5", "announce after insertion and before data", "A2", lambda r: r5(ctx, r))
    ck.run_rule("C02-R6", "session ids are only ever incremented", "A10", lambda r: r6(ctx, r))
    ck.run_rule("C02-R7", "session gauge: every insert bumps, every decrement is on the closed-guarded path", "A2", lambda r: r7(ctx, r))
    ck.run_rule("C02-R9", "an application-thread flush cannot deliver data after the session's close notification", "protocol rule: wait-out or flag/test agreement between flusher and close handler", lambda r: r9(ctx, r))
    ck.run_rule("C02-R8", "transport close fan-out order and lock discipline", "A2 + A1", lambda r: r8(ctx, r))
    ck.run_rule("C02-R10", "UDP: a closed listener-side session leaves no route behind — the peer index never maps a peer to a session that has been announced closed "
                "(= C06-R5 + C06-R6: index entries are erased by their owner, never overwritten, and a ServerPeer session leaves the table only through the index clean-up)",
                "A5 contradiction rule + A2", lambda r: r10(ctx, r))
