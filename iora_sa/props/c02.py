"""C02 — Every session gets exactly one close; nothing before announce or after close (DESIGN.md §2 C02)."""
from .. import access
from ..cfg import search, witness_str, elem_dominates
from ..expr import show, walk, last, field_of, strip_wrappers, strip_casts, short, const_value, access_path
from ..facts import AnalysisBroken
from ..predabs import Vocab, PredAbs, A, Not, And, Or, T, F, translate, known_when, total
from ..rules import common
from . import c03

TITLE = "Every session gets exactly one close; nothing before announce or after close"
TECHNIQUE = 'custom static analysis over clang-14 CFG facts: exhaustiveness of the command switch against the enum, must-pass-through to handlers, order rules over the callback list, must-lockset'
TCP, UDP = "iora::network::TcpEngine", "iora::network::UdpEngine"
FILES = {TCP: "iora/network/detail/tcp_engine.hpp", UDP: "iora/network/detail/udp_engine.hpp"}
CONNECT_FNS = {TCP: ("doConnect",), UDP: ("connectDo", "viaDo")}
CLOSE_FNS = ("closeNow", "shutdownDrain")
CBS = "iora::network::detail::EngineBase::Callbacks::"

EXPLANATION = (
    "Static obligations over both engines and the transport's close fan-out: R1 the close notification is invoked only from closeNow, "
    "shutdownDrain and the pre-insertion failure paths of the connect handlers (closed set, with instance floors); R2 in closeNow and in "
    "shutdownDrain's loop the notification is dominated by `closed = true`, which is itself reached only with closed seen false, and the "
    "session leaves the table; R3 in every connect handler each path to a return passes exactly one terminal event (close notification "
    "for the request's id, or insertion of the session) — counted with ghost atoms in a predicate abstraction; R4 timer-originated close "
    "commands are re-validated against the session state and the timer handlers only enqueue; R5 announce precedes data and follows "
    "insertion; R6 session ids are only ever post-incremented; R7 every insertion bumps the gauge, every decrement is paired with the "
    "closed flag; R8 transport fan-out order: global callback, observers, tombstone, user-data cleanup, each outside its lock.")
NOT_DECIDED = ["which close site is reached in which session state at run time (the schedule quantifier)",
               "'never none while the transport keeps running' for sessions that see no event (liveness)",
               "observer registration racing the close"]


def cb_invocations(f, cbname):
    """invocations of a copy of _cbs.<cbname> (copy-then-invoke idiom) or of the member itself"""
    copies = set()
    for n in f.nodes.values():
        if n.get("k") == "opcall" and n.get("op") == "=" and len(n["args"]) == 2:
            if field_of(strip_wrappers(n["args"][1])) == CBS + cbname and n["args"][0].get("k") == "var":
                copies.add(n["args"][0]["n"])
    for e in f.stmts():
        if e.node.get("k") == "decl":
            for v in e.node["vars"]:
                i = v.get("init")
                if i is not None and any(x.get("k") == "member" and x["n"] == CBS + cbname for x in walk(i)) and "std::function" in v["t"]:
                    copies.add(v["n"])
    out = []
    for (e, tgt) in common.fn_invocations(f):
        t = strip_wrappers(tgt)
        if (t.get("k") == "var" and t["n"] in copies) or field_of(t) == CBS + cbname:
            out.append(e)
    return out


def cbset_leaf(n):
    """`if (cb)` on a copied std::function: the callback is assumed installed (DESIGN 1.3 A2 copy-then-invoke)"""
    if n.get("k") == "mcall" and last(n.get("callee", "")).startswith("operator bool") and "std::function" in (n.get("obj") or {}).get("t", ""):
        return T
    return None


def engine_fn(fb, cls, name):
    return fb.func(cls + "::" + name, file_suffix=FILES[cls])


def r1(ctx, r):
    fb = ctx.fb()
    for cls in (TCP, UDP):
        allowed = {cls + "::" + x for x in CLOSE_FNS + CONNECT_FNS[cls]}
        n = 0
        for f in fb.in_file(FILES[cls]):
            if not f.ok:
                continue
            for e in cb_invocations(f, "onClose"):
                n += 1
                r.instance()
                r.expect(f.name in allowed, f, e, "onClose invoked in %s" % last(f.name),
                         "a close notification is fired from %s, outside the closed set {closeNow, shutdownDrain, connect handlers}: nothing there makes it exactly-once" % short(f.name),
                         okdesc="%s: onClose invocation" % short(f.name))
        floor = {TCP: 7, UDP: 9}[cls]
        if n < floor:
            raise AnalysisBroken("%s: %d close-notification sites found, floor %d" % (last(cls), n, floor))


def r2(ctx, r):
    fb = ctx.fb()
    for cls in (TCP, UDP):
        SESS = cls + "::Session"
        for name in CLOSE_FNS:
            f = engine_fn(fb, cls, name)
            invs = cb_invocations(f, "onClose")
            # two kinds of site: notifications for a Session object (first argument reads Session::id) and, in shutdownDrain,
            # notifications for connect commands that never got a Session (first argument comes from the command) — the
            # latter are decided by R3c below
            def about_session(e, SESS=SESS, f=f):
                return _reads_session_id(f, _first_cb_arg(e), SESS)
            cmd_sites = [e for e in invs if not about_session(e)]
            invs = [e for e in invs if about_session(e)]
            r.instance()
            if len(invs) != 1:
                r.fail(f, None, "%s: close notification sites" % name, "%s::%s has %d close-notification sites for a Session object, expected exactly one" % (last(cls), name, len(invs)))
                continue
            if cmd_sites and name != "shutdownDrain":
                r.instance()
                r.fail(f, cmd_sites[0], "%s: close notification for a bare id" % name, "%s::%s fires a close notification whose id is not taken from the Session being closed" % (last(cls), name))
            inv = invs[0]
            vocab = Vocab(["closed"])

            def leaf(n, SESS=SESS):
                if n.get("k") == "member" and n["n"] == SESS + "::closed":
                    return A("closed")
                return cbset_leaf(n)

            def eff(e, SESS=SESS):
                if e.kind == "stmt" and e.node.get("k") == "bin" and e.node["op"] == "=" and field_of(e.node["lhs"]) == SESS + "::closed":
                    v = const_value(e.node["rhs"])
                    return [("set", "closed", bool(v))] if v is not None else [("havoc", "closed")]
                # a new loop iteration looks at another session
                if e.kind == "stmt" and e.node.get("k") == "decl" and any(v["t"].endswith("Session *") for v in e.node["vars"]):
                    return [("havoc", "closed")]
                return None
            pa = PredAbs(f, vocab, leaf, eff)
            sets = [e for (e, n, k) in common.field_writes(f, SESS + "::closed")]
            ok = len(sets) == 1 and elem_dominates(f, sets[0], inv) and pa.entails(sets[0], Not(A("closed"))) and \
                const_value(common.assigned_value(f, [n for (e, n, k) in common.field_writes(f, SESS + "::closed")][0]) or {}) == 1
            r.expect(ok, f, inv, "%s: close not idempotent" % name,
                     "the close notification in %s::%s is not guarded by the closed flag (flag must be seen false, then set, before the callback): a second close of the "
                     "same session — timer close racing a peer FIN, GC, backpressure — would notify twice" % (last(cls), name),
                     okdesc="%s::%s: !closed → closed = true → onClose" % (last(cls), name))
            # the session leaves the table
            r.instance()
            rem = common.member_calls_on(f, cls + "::_sessions", ("erase", "clear"))
            if name == "closeNow":
                r.expect(any(elem_dominates(f, x, inv) for x in rem), f, inv, "closeNow: not erased", "the session is not erased from _sessions before its close notification",
                         okdesc="%s::closeNow: _sessions.erase before onClose" % last(cls))
            else:
                w = search(f, inv, "exit", stop=lambda x: x in rem, eh=False)
                r.expect(bool(rem) and w is None, f, inv, "shutdownDrain: table not cleared", "shutdownDrain can return without clearing _sessions", witness=witness_str(f, w),
                         okdesc="%s::shutdownDrain: _sessions.clear() on every path" % last(cls))


def r3(ctx, r):
    fb = ctx.fb()
    for cls in (TCP, UDP):
        for name in CONNECT_FNS[cls]:
            f = engine_fn(fb, cls, name)
            invs = cb_invocations(f, "onClose")
            ins = common.member_calls_on(f, cls + "::_sessions", ("emplace", "insert", "try_emplace", "insert_or_assign"))
            if not ins:
                raise AnalysisBroken("%s::%s no longer inserts a session" % (last(cls), name))
            vocab = Vocab(["term", "twice"])

            def eff(e, invs=invs, ins=ins):
                if e in invs or e in ins:
                    return [("assign", "twice", Or(A("twice"), A("term"))), ("set", "term", True)]
                return None
            pa = PredAbs(f, vocab, cbset_leaf, eff, init=And(Not(A("term")), Not(A("twice"))))
            for ret in common.returns(f):
                r.instance()
                st = pa.describe(ret)
                r.expect(pa.entails(ret, And(A("term"), Not(A("twice")))), f, ret, "%s: outcome not terminal exactly once" % name,
                         "%s::%s can return at line %s having produced %s terminal events for the request's session id (close notification or session insertion): "
                         "%s" % (last(cls), name, ret.line, "two" if "twice" in st or "!twice" not in st and "term" in st else "no",
                                 "a parked connectSync / the application never hears about this id" if "!term" in st or "term" not in st else "the id is both announced and closed here"),
                         okdesc="%s::%s: return at line %s after exactly one terminal event" % (last(cls), name, ret.line))
            # the id reported is the request's
            for e in invs:
                r.instance()
                a = strip_wrappers(e.node["args"][1]) if len(e.node["args"]) > 1 else None
                r.expect(a is not None and last((access_path(a) or ("",))[-1]) == "sid", f, e, "%s: wrong id" % name, "the failure is reported for `%s`, not the request's session id" % show(a),
                         okdesc="%s: onClose(%s, …)" % (name, show(a)))


def r3b(ctx, r):
    """a dequeued command that carries a session id the caller already holds always reaches its handler"""
    fb = ctx.fb()
    for cls, kinds in ((TCP, {"Connect": "doConnect"}), (UDP, {"Connect": "connectDo", "Via": "viaDo"})):
        pr = engine_fn(fb, cls, "process")
        for b in pr.blocks.values():
            lab = b.label
            if not lab or lab.get("k") != "case":
                continue
            en = lab["v"].get("n", "") if lab.get("v") else ""
            if last(en) not in kinds:
                continue
            h = cls + "::" + kinds[last(en)]
            r.instance()

            def is_handler(x, h=h):
                return x.kind == "stmt" and x.node.get("k") == "mcall" and x.node.get("callee") == h

            def next_cmd(x):
                return x.kind == "stmt" and ((x.node.get("k") == "decl" and any(v["n"] == "c" for v in x.node["vars"])) or (x.node.get("k") in ("opcall", "un") and "__begin" in show(x.node)))
            w = search(pr, ("block", b.id), next_cmd, stop=is_handler, eh=False) or search(pr, ("block", b.id), "exit", stop=is_handler, eh=False)
            r.expect(w is None, pr, None, "%s command can be dropped" % last(en),
                     "%s::process can finish a %s command without calling %s: the session id already returned to the caller then never gets a connect or close event" % (
                         last(cls), last(en), last(h)), witness=witness_str(pr, w), okdesc="%s::process: case %s always reaches %s" % (last(cls), last(en), last(h)))
    r.floor(3, "id-bearing command kinds")


def _first_cb_arg(e):
    a = (e.node.get("args") or [None, None])
    return a[1] if e.node.get("k") == "opcall" and len(a) > 1 else a[0]


def _reads_session_id(f, a, SESS, depth=0):
    """the expression reads Session::id, directly or through a local initialised from it (`SessionId sid = s->id`)"""
    if a is None:
        return False
    for x in walk(a):
        if x.get("k") == "member" and x["n"] == SESS + "::id":
            return True
        if x.get("k") == "var" and depth < 3:
            for e in f.stmts():
                if e.node.get("k") == "decl":
                    for dv in e.node["vars"]:
                        if dv["d"] == x.get("d") and dv.get("init") is not None and _reads_session_id(f, dv["init"], SESS, depth + 1):
                            return True
    return False


def r3c(ctx, r):
    """connect() hands out the session id when the command is queued.  Commands still queued when the engine closes its queue
    are swapped into a local ('residual') and never dispatched: every connect-type command among them must get its close
    notification there, exactly once, with the id of that command — or the id the application holds never terminates."""
    from ..finite import dominating_facts
    fb = ctx.fb()
    KINDS = {TCP: {"Connect": "c"}, UDP: {"Connect": "c", "Via": "v"}}
    for cls in (TCP, UDP):
        f = engine_fn(fb, cls, "shutdownDrain")
        SESS = cls + "::Session"
        sites = [(e, _first_cb_arg(e)) for e in cb_invocations(f, "onClose") if not _reads_session_id(f, _first_cb_arg(e), SESS)]
        # kind tests `c.t == Kind` (each leaf of a disjunction has its own block); a site is guarded by them if it cannot be reached
        # with all their true edges cut, and it covers the kinds from whose true edge it can be reached
        tests = []
        for bb in f.blocks.values():
            c = strip_casts(bb.cond) if bb.cond is not None else None
            if c is not None and c.get("k") in ("bin", "opcall") and c.get("op") == "==":
                ks = [last(x["n"]) for x in walk(c) if x.get("k") == "enum" and last(x["n"]) in KINDS[cls]]
                if len(ks) == 1 and bb.succs[0] is not None:
                    tests.append((bb, ks[0]))
        covered = {}
        for (e, a) in sites:
            cut = {bb.id for (bb, k) in tests}
            unguarded = search(f, ("entry",), lambda x, e=e: x is e, eh=False, edge_ok=lambda b_, si: not (b_.id in cut and si == 0))
            if unguarded is not None:
                r.instance()
                r.fail(f, e, "residual close not tied to a command kind", "a close notification for a bare command id in shutdownDrain is reachable without a test of the command's kind")
                continue
            for (bb, k) in tests:
                if search(f, ("block", bb.succs[0]), lambda x, e=e: x is e, eh=False, edge_ok=lambda b_, si: not (b_.id in cut and si == 0), include_start=True) is not None \
                        or any(x is e for x in f.blocks[bb.succs[0]].elems):
                    # the id must be the one stored in that kind's payload
                    covered.setdefault(k, []).append((e, a))
        for kind, member in KINDS[cls].items():
            r.instance()
            got = covered.get(kind, [])
            r.expect(len(got) >= 1, f, None, "residual %s command not closed" % kind,
                     "%s::shutdownDrain drops a %s command left in the queue when it closes without a close notification for its session id: connect() had already returned ok(sid) for it (typically a reconnect "
                     "issued from an onClose callback fired by the drain itself), so that id never gets onConnect nor onClose" % (last(cls), kind),
                     okdesc="%s: residual %s commands get onClose(sid)" % (last(cls), kind))
        # exactly once: no path from one command-site to another command-site within the same iteration, and none of them reachable twice
        for (e, a) in sites:
            r.instance()
            w = None
            for (e2, a2) in sites:
                if e2 is not e:
                    w = w or search(f, e, lambda x, e2=e2: x is e2, stop=lambda x: x.kind == "stmt" and x.node.get("k") == "un" and x.node.get("op") in ("++", "pre++") or (x.kind == "stmt" and x.node.get("k") == "opcall" and x.node.get("op") == "++"), eh=False)
            r.expect(w is None, f, e, "residual command closed twice", "a residual command can be notified by two sites in one iteration", okdesc="residual command notified once")


def r4(ctx, r):
    fb = ctx.fb()
    f = engine_fn(fb, TCP, "process")
    SESS = TCP + "::Session"
    vocab = Vocab(["o_ct", "o_hs", "o_ws", "pending", "hs", "wqempty"])
    origin = {"ConnectTimeout": "o_ct", "HandshakeTimeout": "o_hs", "WriteStall": "o_ws"}

    def leaf(n):
        if n.get("k") == "bin" and n["op"] in ("==", "!="):
            l, rr = strip_casts(n["lhs"]), strip_casts(n["rhs"])
            if rr.get("k") == "enum" and l.get("k") == "member":
                if l["n"].endswith("Command::closeOrigin") and last(rr["n"]) in origin:
                    a = A(origin[last(rr["n"])])
                    return a if n["op"] == "==" else Not(a)
                if l["n"] == SESS + "::tlsState" and last(rr["n"]) == "Handshake":
                    return A("hs") if n["op"] == "==" else Not(A("hs"))
        if n.get("k") == "member" and n["n"] == SESS + "::connectPending":
            return A("pending")
        if n.get("k") == "mcall" and last(n.get("callee", "")) == "empty" and field_of(n.get("obj")) == SESS + "::wq":
            return A("wqempty")
        return None
    excl = And(Not(And(A("o_ct"), A("o_hs"))), Not(And(A("o_ct"), A("o_ws"))), Not(And(A("o_hs"), A("o_ws"))))

    def eff(e):
        # each command of the loop is a fresh origin
        if e.kind == "stmt" and e.node.get("k") == "decl" and any(v["n"] == "c" for v in e.node["vars"]):
            return [("havoc_all", ["o_ct", "o_hs", "o_ws", "pending", "hs", "wqempty"]), ("assume", excl)]
        return None
    pa = PredAbs(f, vocab, leaf, eff, init=excl)
    closes = [e for e in f.stmts() if e.node.get("k") == "mcall" and e.node.get("callee") == TCP + "::closeNow"]
    if not closes:
        raise AnalysisBroken("process() no longer calls closeNow for Cmd::Close")
    goal = And(Or(Not(A("o_ct")), A("pending")), Or(Not(A("o_hs")), A("hs")), Or(Not(A("o_ws")), Not(A("wqempty"))))
    for e in closes:
        r.instance()
        r.expect(pa.entails(e, goal), f, e, "stale timer close not re-validated",
                 "a timer-originated close command reaches closeNow without the condition that armed the timer being re-checked (connect still pending / handshake still in "
                 "progress / write queue still non-empty): a stale timeout closes a healthy session (known: %s)" % ",".join(pa.describe(e)),
                 okdesc="process(): timer closes re-validated before closeNow")
    # the timer handlers run on the TimerService thread and may only enqueue
    for h in ("handleConnectTimeout", "handleHandshakeTimeout", "handleWriteStallTimeout"):
        g = engine_fn(fb, TCP, h)
        r.instance()
        callees = {c for (e, n, c) in ctx.cg().callees_of(g)}
        bad = [c for c in callees if not (c == TCP + "::enqueue" or c.startswith(TCP + "::Command::") or c.startswith("std::"))]
        touches = [n["n"] for n in g.nodes.values() if n.get("k") == "member" and n["n"].startswith(TCP + "::_") and n["n"] not in (TCP + "::_cmds",)]
        r.expect(not bad and not touches, g, None, "%s does more than enqueue" % h, "%s runs on the timer thread but calls %s / touches %s" % (h, bad, touches),
                 okdesc="%s only enqueues a close command" % h)
    # origins are what the handlers say
    for h, o in (("handleConnectTimeout", "ConnectTimeout"), ("handleHandshakeTimeout", "HandshakeTimeout"), ("handleWriteStallTimeout", "WriteStall")):
        g = engine_fn(fb, TCP, h)
        r.instance()
        r.expect(any(x.get("k") == "enum" and last(x["n"]) == o for x in g.nodes.values()), g, None, "%s origin" % h, "%s does not tag its close command with CloseOrigin::%s" % (h, o),
                 okdesc="%s tags CloseOrigin::%s" % (h, o))


def r5(ctx, r):
    fb = ctx.fb()
    for cls in (TCP, UDP):
        for f in fb.in_file(FILES[cls]):
            if not f.ok or f.cls != cls:
                continue
            ann = cb_invocations(f, "onAccept") + cb_invocations(f, "onConnect")
            if not ann:
                continue
            ins = common.member_calls_on(f, cls + "::_sessions", ("emplace", "insert", "try_emplace"))
            data = cb_invocations(f, "onData") + [e for e in f.stmts() if e.node.get("k") == "mcall" and e.node.get("callee") == cls + "::readAvail"]
            for a in ann:
                if ins:
                    r.instance()
                    r.expect(any(elem_dominates(f, i, a) for i in ins), f, a, "announce before insertion",
                             "%s announces a session before it is in the session table: a callback that uses the id at once (send, close) finds nothing" % short(f.name),
                             okdesc="%s: session inserted before it is announced" % short(f.name))
            for d in data:
                # on the path that creates/opens the session, the announcement comes first
                starts = ins if ins else []
                for s in starts:
                    r.instance()
                    pa = PredAbs(f, Vocab(["x"]), cbset_leaf, lambda e: None)
                    w = search(f, s, lambda x, d=d: x is d, stop=lambda x: x in ann, eh=False, edge_ok=lambda b, si: pa.edge_feasible(b, si))
                    r.expect(w is None, f, d, "data before announce", "data can be delivered for a newly created session before its accept/connect announcement",
                             witness=witness_str(f, w), okdesc="%s: announce precedes first data" % short(f.name))
                if not ins:
                    for a in ann:
                        if search(f, a, lambda x, d=d: x is d, eh=False) is not None or search(f, d, lambda x, a=a: x is a, eh=False) is not None:
                            r.instance()
                            w = search(f, d, lambda x, a=a: x is a, eh=False)
                            r.expect(w is None, f, d, "data before announce", "in %s data delivery can precede the connect announcement" % short(f.name), witness=witness_str(f, w),
                                     okdesc="%s: announce precedes data" % short(f.name))
    r.floor(8, "announce/data ordering obligations")


def r6(ctx, r):
    fb = ctx.fb()
    for cls in (TCP, UDP):
        fld = cls + "::_nextSessionId"
        n = 0
        for (f, e, node, kind) in access.accesses(fb, fld, [FILES[cls]]):
            par = f.nodes.get(f.parent.get(node["id"]))
            if kind == "read" and par is not None and par.get("k") == "mcall" and last(par.get("callee", "")) in ("load", "operator unsigned long"):
                continue
            if kind == "read":
                continue
            n += 1
            r.instance()
            ok = par is not None and ((par.get("k") == "opcall" and par.get("op") == "++") or (par.get("k") == "un" and "++" in par.get("op", "")) or
                                      (par.get("k") == "mcall" and last(par.get("callee", "")) == "fetch_add" and const_value(par["args"][0]) == 1))
            r.expect(ok, f, e, "_nextSessionId written", "%s writes the session-id counter other than by incrementing it (`%s`): identifiers could be reused" % (short(f.name), show(par)[:60]),
                     okdesc="%s: %s" % (short(f.name), show(par)[:40]))
        if n < 2:
            raise AnalysisBroken("%s: %d increments of _nextSessionId found" % (last(cls), n))


def r7(ctx, r):
    fb = ctx.fb()
    for cls in (TCP, UDP):
        SESS = cls + "::Session"
        for f in fb.in_file(FILES[cls]):
            if not f.ok or f.cls != cls:
                continue
            ins = common.member_calls_on(f, cls + "::_sessions", ("emplace", "insert", "try_emplace"))
            bumps = [e for e in f.stmts() if e.node.get("k") == "mcall" and e.node.get("callee") == cls + "::bumpSess"]
            for i in ins:
                r.instance()
                w = search(f, i, "exit", stop=lambda x: x in bumps, eh=False)
                w2 = search(f, i, lambda x: x in ins and x is not i or x is i, stop=lambda x: x in bumps, eh=False)
                r.expect(w is None and w2 is None, f, i, "insert without gauge bump", "a session is inserted without bumpSess() on some path: the current-sessions gauge under-counts and later wraps",
                         witness=witness_str(f, w or w2), okdesc="%s: emplace followed by bumpSess" % short(f.name))
            for n in f.nodes.values():
                if n.get("k") == "member" and n["n"].endswith("AtomicStats::sessionsCurrent"):
                    par = f.nodes.get(f.parent.get(n["id"]))
                    if par is None:
                        continue
                    dec = (par.get("k") == "opcall" and par.get("op") == "--") or (par.get("k") == "mcall" and last(par.get("callee", "")) == "fetch_sub") or \
                          (par.get("k") == "opcall" and par.get("op") == "-=")
                    if not dec:
                        continue
                    e = f.elem_for(par)
                    r.instance()
                    sets = [x for (x, nn, k) in common.field_writes(f, SESS + "::closed")]
                    r.expect(last(f.name) in CLOSE_FNS and any(elem_dominates(f, s, e) for s in sets), f, e, "gauge decrement unpaired",
                             "sessionsCurrent is decremented in %s outside the closed-flag-guarded close path: the gauge can under-count" % short(f.name),
                             okdesc="%s: sessionsCurrent-- after closed = true" % short(f.name))
    r.floor(8, "gauge sites")


def r8(ctx, r):
    la = c03._la(ctx)
    oc = c03.lambdas(ctx)["onClose"]
    IMPL = c03.IMPL
    invs = common.fn_invocations(oc)

    def pick(pred, what):
        xs = [e for (e, t) in invs if pred(show(t))]
        r.instance()
        r.expect(bool(xs), oc, None, "no %s" % what, "the transport close handler no longer invokes the %s" % what, okdesc="%s invoked" % what)
        return xs
    gs = pick(lambda t: "closeCb" in t or "onCloseCb" in t, "global close callback")
    os_ = pick(lambda t: "obs" in t.lower(), "observer")
    cs = pick(lambda t: "cleanup" in t, "user-data cleanup")
    if not (gs and os_ and cs):
        return
    g, o, c = gs[0], os_[0], cs[0]
    tomb = [e for (e, n, k) in common.field_writes(oc, c03.SRB + "::closed")]
    seq = [("global onClose", gs), ("observers", os_), ("tombstone/closed flag", tomb), ("user-data cleanup", cs)]
    for i in range(len(seq)):
        for j in range(i + 1, len(seq)):
            r.instance()
            w = None
            for later in seq[j][1]:
                for earlier in seq[i][1]:
                    w = w or search(oc, later, lambda x, earlier=earlier: x is earlier, eh=False)
                    # "later" must also not be able to run on a path that skips "earlier" entirely *before* it: order = never reversed
                    if w is None and not elem_dominates(oc, earlier, later) and search(oc, ("entry",), lambda x, later=later: x is later, stop=lambda x, earlier=earlier: x is earlier, eh=False) is not None:
                        # reachable without passing `earlier`: acceptable only if `earlier` is conditional on a null test (copy-then-invoke)
                        pa = PredAbs(oc, Vocab(["x"]), cbset_leaf, lambda e: None)
                        if search(oc, ("entry",), lambda x, later=later: x is later, stop=lambda x, earlier=earlier: x is earlier, eh=False,
                                  edge_ok=lambda b, si: pa.edge_feasible(b, si)) is not None and seq[i][0] in ("global onClose",):
                            w = search(oc, ("entry",), lambda x, later=later: x is later, stop=lambda x, earlier=earlier: x is earlier, eh=False,
                                       edge_ok=lambda b, si: pa.edge_feasible(b, si))
            r.expect(w is None, oc, seq[j][1][0], "%s before %s" % (seq[j][0], seq[i][0]), "close fan-out order broken: %s can run before %s" % (seq[j][0], seq[i][0]),
                     witness=witness_str(oc, w), okdesc="%s ≺ %s" % (seq[i][0], seq[j][0]))
    # each outside its lock; copies made under the lock
    for (lst, what, m) in ((gs, "global callback", IMPL + "::callbackMutex"), (os_, "observer", IMPL + "::observerMutex"), (cs, "cleanup", IMPL + "::userDataMutex")):
        for e in lst:
            r.instance()
            held = la.mutexes(oc, e) & {IMPL + "::callbackMutex", IMPL + "::observerMutex", IMPL + "::userDataMutex", c03.SYNC}
            r.expect(not held, oc, e, "%s under lock" % what, "%s invoked holding %s" % (what, ",".join(sorted(held))), okdesc="%s invoked with no transport lock" % what)
    # observers and user data are removed under their locks before the callbacks run (at most once)
    er_obs = common.member_calls_on(oc, IMPL + "::observers", ("erase",))
    er_ud = common.member_calls_on(oc, IMPL + "::sessionData", ("erase",))
    r.instance(2)
    r.expect(er_obs and all(la.holds(oc, e, IMPL + "::observerMutex") and search(oc, o, lambda x, e=e: x is e, eh=False) is None for e in er_obs), oc, o, "observers not removed first",
             "the session's observers are not erased (under observerMutex) before they are invoked: a re-entrant close would notify them twice", okdesc="observers erased under observerMutex before invocation")
    r.expect(er_ud and all(la.holds(oc, e, IMPL + "::userDataMutex") and search(oc, c, lambda x, e=e: x is e, eh=False) is None for e in er_ud), oc, c, "user data not removed first",
             "the session's user data is not erased (under userDataMutex) before its cleanup runs: cleanup could run twice", okdesc="user data erased under userDataMutex before cleanup")
    # the per-session observer vector keeps registration order: additions at the back, removals order-preserving
    fb = ctx.fb()
    nobs = 0
    for f in fb.in_file(c03.FILE):
        if not f.ok:
            continue
        if not any(n.get("k") == "member" and n["n"] == IMPL + "::observers" for n in f.nodes.values()):
            continue
        # names that denote a per-session vector: references bound to observers[...] / it->second
        vecs = set()
        for e in f.stmts():
            if e.node.get("k") == "decl":
                for v in e.node["vars"]:
                    if "vector<std::pair<unsigned long, std::function" in v["t"] and "&" in v["t"]:
                        vecs.add(v["n"])
        for e in f.stmts():
            n = e.node
            if "root" not in e.raw:
                continue
            for x in walk(n):
                tgt = None
                if x.get("k") == "mcall":
                    o = x.get("obj") or {}
                    if (o.get("k") == "var" and o["n"] in vecs) or ("vector<std::pair<unsigned long, std::function" in o.get("t", "") and "observers" in show(o)) or \
                            (o.get("k") == "member" and last(o["n"]) == "second" and "obs" in show(o).lower()):
                        m = last(x.get("callee", ""))
                        if m in access.MUTATORS:
                            nobs += 1
                            r.instance()
                            ok = m in ("emplace_back", "push_back", "clear") or (m == "erase")
                            r.expect(ok, f, e, "observer order: %s" % m, "%s modifies a session's observer list with %s(): the close fan-out iterates that list front to back, "
                                     "so removals and additions must keep registration order" % (short(f.name), m), okdesc="%s: observer list %s" % (short(f.name), m))
                if x.get("k") in ("opcall", "bin") and x.get("op") == "=":
                    lhs = x["args"][0] if x.get("k") == "opcall" else x["lhs"]
                    lt = show(lhs)
                    if "std::pair<unsigned long, std::function" in (lhs.get("t", "") + str((lhs.get("args") or [{}])[0].get("t", ""))) and f.name.endswith("unobserve"):
                        r.instance()
                        r.fail(f, e, "observer slot overwritten", "%s overwrites an element of a session's observer list (`%s`): registration order is lost" % (short(f.name), show(x)[:70]))
                    elif f.name.endswith("unobserve") and x.get("k") == "opcall" and lhs.get("k") == "opcall" and lhs.get("op") == "*":
                        r.instance()
                        r.fail(f, e, "observer slot overwritten", "%s overwrites an element of a session's observer list (`%s`): registration order is lost" % (short(f.name), show(x)[:70]))
    if nobs < 2:
        raise AnalysisBroken("observer list mutations: %d found" % nobs)
    # user data: the registration API replaces — what the close handler cleans up is the LAST registration ("registered and
    # unregistered at any point"): the store is an overwriting form on every path, with both parameters
    sd = ctx.fb().func("iora::network::Transport::setSessionData", file_suffix=c03.FILE)
    r.instance()
    stores, weak = [], []
    for e in sd.stmts():
        n = e.node
        if n.get("k") == "opcall" and n.get("op") == "=" and any(y.get("k") == "member" and y["n"] == IMPL + "::sessionData" for y in walk(n["args"][0])):
            lhs = n["args"][0]
            if lhs.get("k") == "opcall" and lhs.get("op") == "[]" or (lhs.get("k") == "member" and "->second" in show(lhs)) or "second" in show(lhs):
                stores.append(e)
        if n.get("k") == "mcall" and field_of(n.get("obj")) == IMPL + "::sessionData":
            m = last(n["callee"])
            if m == "insert_or_assign":
                stores.append(e)
            elif m in ("emplace", "insert", "try_emplace", "emplace_hint"):
                weak.append(e)
    if not stores and not weak:
        raise AnalysisBroken("setSessionData: no store into sessionData found")
    # a non-overwriting insert is fine only behind an erase of the same key on every path
    for e in weak:
        er = [x for x in common.member_calls_on(sd, IMPL + "::sessionData", ("erase",)) if elem_dominates(sd, x, e)]
        r.expect(bool(er), sd, e, "registration does not replace", "setSessionData stores with %s(), which leaves an existing entry untouched: a second registration (replacement, or un-registration with nullptr) "
                 "is ignored and the close handler cleans up the stale pointer, never the current one" % last(e.node["callee"]), okdesc="insert behind an erase of the key")
    pnames = {p_["n"] for p_ in sd.params[1:]}
    for e in stores:
        used = {y["n"] for y in walk(e.node) if y.get("k") == "var" and y.get("parm") is not None}
        r.expect(pnames <= used, sd, e, "registration drops a parameter", "setSessionData stores %s but not %s" % (sorted(used & pnames), sorted(pnames - used)), okdesc="sessionData[sid] = {data, cleanup}")
    if stores and not weak:
        exits_without = search(sd, ("entry",), "exit", stop=lambda x: x in stores, eh=False)
        r.expect(exits_without is None, sd, stores[0], "registration skipped on a path", "setSessionData can return without storing (%s)" % (witness_str(sd, exits_without) if exits_without else ""),
                 okdesc="every path of setSessionData stores")
    # the session's read-mode entry dies with the session on EVERY announced close: a mode left behind (Sync) routes a later
    # setReadMode(Async) into the flush path, which delivers the tombstone's bytes through the data callback after the close
    rm = common.member_calls_on(oc, IMPL + "::readModes", ("erase",))
    r.instance()
    if not rm:
        r.fail(oc, None, "read mode kept after close", "the close handler no longer erases readModes[sid]")
    else:
        w = search(oc, gs[0], "exit", stop=lambda x: x in rm, eh=False)
        r.expect(w is None, oc, rm[0], "read mode kept after close", "after the global close callback the handler can return without erasing readModes[sid] (%s): the session stays in its old mode after its close, and a later "
                 "setReadMode(sid, Async) takes the Sync→Async flush path and hands the undrained bytes to the data callback — data after close" % witness_str(oc, w), okdesc="readModes[sid] erased on every announced close")
    # observers iterate the copy front to back
    r.instance()
    begins = [e for e in oc.stmts() if e.node.get("k") == "mcall" and last(e.node.get("callee", "")) in ("rbegin", "crbegin") and "sessionObservers" in show(e.node)]
    r.expect(not begins, oc, begins[0] if begins else None, "observer order", "observers are iterated in reverse registration order", okdesc="observers invoked in registration order")


def r9(ctx, r):
    """'nothing is delivered for it after the close': the Sync→Async flush of setReadMode runs on an application thread and
    invokes the data callback with no lock held, one batch per loop iteration.  A close of that session processed by the I/O
    thread in between must not let a later batch follow the close notification.  Two proofs are accepted: (P1) the close handler
    waits the flush out (a condition-variable wait on `flushing` before the global close callback); (P2) a flag the close handler
    raises under syncMutex before its first callback is tested by the flusher in the critical section that takes each batch."""
    from ..finite import dominating_facts
    fb = ctx.fb()
    la = c03._la(ctx)
    IMPL, SRB = c03.IMPL, c03.SRB
    f = fb.func("iora::network::Transport::setReadMode")
    oc = c03.lambdas(ctx)["onClose"]
    deliveries = [e for (e, t) in common.fn_invocations(f)]
    if not deliveries:
        raise AnalysisBroken("setReadMode: flush delivery not found")
    glob = [e for (e, t) in common.fn_invocations(oc) if "closeCb" in show(t) or "onCloseCb" in show(t)]
    if not glob:
        raise AnalysisBroken("onClose handler: global close callback invocation not found")
    # P1
    p1 = False
    for e in oc.stmts():
        n = e.node
        if n.get("k") == "mcall" and n.get("callee", "").startswith("std::condition_variable") and last(n["callee"]) in common.CV_WAIT:
            args = [a for a in n.get("args", []) if not a.get("def")]
            P = common._resolve_pred(fb, oc, args[-1]) if args else None
            reads = {x["n"] for x in P.nodes.values() if x.get("k") == "member"} if P is not None else set()
            # the wait is conditional (`if (buffer exists && flushing) wait`): it must lie on the way to the global callback, never after it
            if SRB + "::flushing" in reads and c03.SYNC in la.mutexes(oc, e) and all(search(oc, e, lambda x, g=g: x is g, eh=False) is not None and search(oc, g, lambda x, e=e: x is e, eh=False) is None for g in glob):
                p1 = True
    # P2
    raised = set()
    for fld in fb.record(SRB)["fields"]:
        name = SRB + "::" + fld["n"]
        for (e, n, k) in common.field_writes(oc, name):
            if c03.SYNC in la.mutexes(oc, e) and all(elem_dominates(oc, e, g) for g in glob):
                raised.add(name)
    p2 = bool(raised)
    for d in deliveries:
        tested = set()
        for (c, t) in dominating_facts(f, d):
            tested |= {x["n"] for x in walk(c) if x.get("k") == "member"}
        if not (tested & raised):
            p2 = False
    r.instance()
    r.expect(p1 or p2, f, deliveries[0], "flush delivers after the close",
             "the flush loop of setReadMode hands a batch to the data callback without any coordination with the close handler: while the flusher is inside the callback for one batch the I/O thread can buffer more "
             "bytes and then run the whole close fan-out for the session, after which the flusher's next iteration delivers those bytes — event order data(A), close, data(B). The close handler neither waits for "
             "`flushing` to clear before its first callback nor raises a flag (under syncMutex) that the flusher tests when it takes a batch",
             okdesc="close handler waits the flush out / flusher re-validates a closing flag")


def run(ctx, ck):
    ck.run_rule("C02-R1", "close notifications are fired only from the closed set of sites", "A3 who-may-call", lambda r: r1(ctx, r))
    ck.run_rule("C02-R2", "close is idempotent: !closed → closed=true → erase → notify", "A5 + A2", lambda r: r2(ctx, r))
    ck.run_rule("C02-R3", "every connect outcome is terminal exactly once", "A5 ghost counting", lambda r: r3(ctx, r))
    ck.run_rule("C02-R3b", "a dequeued connect command always reaches its handler", "A2 must-pass", lambda r: r3b(ctx, r))
    ck.run_rule("C02-R3c", "connect commands dropped at queue close still get their close notification", "A2 closed set of command kinds vs. notification sites", lambda r: r3c(ctx, r))
    ck.run_rule("C02-R4", "timer-originated closes are re-validated; timer handlers only enqueue", "A5 + A3", lambda r: r4(ctx, r))
    ck.run_rule("C02-R5", "announce after insertion and before data", "A2", lambda r: r5(ctx, r))
    ck.run_rule("C02-R6", "session ids are only ever incremented", "A10", lambda r: r6(ctx, r))
    ck.run_rule("C02-R7", "session gauge: every insert bumps, every decrement is on the closed-guarded path", "A2", lambda r: r7(ctx, r))
    ck.run_rule("C02-R9", "an application-thread flush cannot deliver data after the session's close notification", "protocol rule: wait-out or flag/test agreement between flusher and close handler", lambda r: r9(ctx, r))
    ck.run_rule("C02-R8", "transport close fan-out order and lock discipline", "A2 + A1", lambda r: r8(ctx, r))
