"""C06 — UDP keeps datagram boundaries and the peer-to-session mapping (DESIGN.md §2 C06)."""
import copy

from .. import access
from .. import facts as facts_mod
from ..cfg import search, witness_str, elem_dominates, Forward
from ..expr import show, walk, last, field_of, strip_wrappers, strip_casts, short, const_value, mentions_field
from ..facts import AnalysisBroken
from ..predabs import Vocab, PredAbs, A, Not, And, Or, T, F, translate, known_when, total
from ..rules import common

TITLE = "UDP keeps datagram boundaries and the peer-to-session mapping"
TECHNIQUE = 'custom static analysis over clang-14 CFG facts: call-site inlining of same-class helpers, reaching definitions / canonical access paths, predicate abstraction with ghost counters and sentinel atoms, owner-check dominance'
UDP = "iora::network::UdpEngine"
FILE = "iora/network/detail/udp_engine.hpp"
SESS, LST, ODG = UDP + "::Session", UDP + "::Listener", UDP + "::OutDg"
RECV = ("recvfrom", "recv", "recvmsg", "read")
SEND = ("sendto", "send", "sendmsg", "write")

EXPLANATION = (
    "Static obligations over udp_engine.hpp: R1 in readFromListener and onClient every positive receive result reaches exactly one data "
    "callback with (buf.data(), n) of that call before the next receive (ghost counting), and every receive is given the whole "
    "(data(), size()) of a buffer that is sized ioReadChunk and not otherwise modified (per datagram or per wake-up alike); R2 sendDo performs at most one send/sendto of (payload.data(), payload.size()) per command, queues the WHOLE payload on "
    "would-block, and the flush functions send one whole queue element and pop exactly it — nothing ever splits a datagram; R3 the "
    "destination of every sendto is the peer address of the session looked up by the command's id (or the copy stored with the queued "
    "datagram); R4 the session a datagram is delivered on is the one indexed under the sender's address or the one just created and "
    "indexed under it, inserted and indexed before the accept announcement; R5 every erase of a peer-index entry is conditional on the "
    "entry mapping to the closing session (the index is conditionally written, so unconditional erase contradicts it); R6 index values are "
    "ids of sessions inserted on the same path and a ServerPeer session leaves the table only through the index clean-up; R9 the admission "
    "cap (maxSessions) can make readFromListener drop a datagram only on paths on which the peer-index lookup for its source address has "
    "failed - a peer that has an open session is never silenced by the cap.  All rules but R8 read the anchored functions with the calls "
    "to private helpers of the engine folded in, and identify locals by dataflow (reaching definitions), not by name.")
# exempt from the function-inventory guard (report.py): these rules judge the anchored functions with every call to a non-anchor
# method of the engine replaced by the callee's body (flatten below), so a helper they have never seen is part of what they read
_FOLLOW = "judged on the flattened function: calls to same-class helpers are replaced by the helpers' bodies (parameters bound to arguments, returns to the call's value)"
FOLLOWS_HELPERS = {"C06-R%d" % i: _FOLLOW for i in (1, 2, 3, 4, 5, 6, 7, 9)}
NOT_DECIDED = ["that the kernel preserves datagram boundaries", "truncation when ioReadChunk is smaller than the datagram (no MSG_TRUNC test exists; configuration)",
               "ordering between datagrams", "datagrams of NEW peers dropped by the configured maxSessions admission cap (documented; noted, not reported)"]


def fn(ctx, name):
    return ctx.fb().func(UDP + "::" + name, file_suffix=FILE)


def calls(f, names):
    return [e for e in f.stmts() if e.node.get("k") == "call" and e.node.get("callee") in names]


# ------------------------------------------------------------------ following helpers: call-site inlining over the raw CFG facts
#
# The obligations below are properties of what an anchored function DOES, not of how its body is cut into private helpers.  So every
# rule looks at the *flattened* function: each call `this->h(args)` / `h(args)` to a method h of the same class that is not itself an
# anchor is replaced by h's blocks (ids renumbered), with
#   * one synthetic declaration `T p = <argument expression>` per parameter at the callee's entry (a parameter is then just a local
#     that the dataflow below resolves to the caller's expression),
#   * every `return X` turned into a declaration `R $ret = X` that jumps to the continuation, and
#   * the call expression itself turned into a read of `$ret` (so `if (atCap())`, `sid = c ? a : acceptPeer()` are ordinary
#     variable reads whose reaching definitions are the callee's return statements).
# The result is an ordinary facts.Function; dominance, path search and the predicate abstraction work on it unchanged.

ANCHOR_FNS = ("readFromListener", "onClient", "sendDo", "flushListener", "writeClient", "viaDo", "connectDo", "closeNow", "shutdownDrain", "key", "onListener")
INLINE_DEPTH = 3


def _walk_raw(x):
    stack = [x]
    while stack:
        y = stack.pop()
        if isinstance(y, dict):
            yield y
            stack.extend(v for v in y.values() if isinstance(v, (dict, list)))
        elif isinstance(y, list):
            stack.extend(v for v in y if isinstance(v, (dict, list)))


class _Ids:
    """first free node / block / declaration / try id of a raw function record"""

    def __init__(self, raw):
        n = b = d = t = 0
        for blk in raw["blocks"]:
            b = max(b, blk["id"])
            for x in _walk_raw([blk.get("label"), blk.get("term"), blk["elems"]]):
                for k in ("id", "e"):
                    if isinstance(x.get(k), int):
                        n = max(n, x[k])
                if isinstance(x.get("d"), int):
                    d = max(d, x["d"])
                for k in ("try", "catch"):
                    if isinstance(x.get(k), int):
                        t = max(t, x[k])
        for p in raw.get("params", []):
            d = max(d, p.get("d", 0))
        for tr in raw.get("trys", []):
            t = max(t, tr["id"])
        self.n, self.b, self.d, self.t = n + 1, b + 1, d + 1, t + 1


def _inlinable(fb, f, node, want):
    """the Function a call node may be replaced by, or None"""
    if node.get("k") not in ("call", "mcall") or not node.get("callee"):
        return None
    if node["k"] == "mcall" and ((node.get("obj") or {}).get("k") != "this" or node.get("virt")):
        return None         # another object's method (its `this` is not ours) or a virtual call (the body is not known statically)
    chain = node.get("ichain", ())
    cands = {}
    for g in fb.by_name.get(node["callee"], []):
        if g.ok and g.file == f.file and len(g.params) == len(node.get("args", [])) and g.kind not in ("ctor", "dtor", "lambda"):
            cands[(g.file, g.line)] = g
    if len(cands) != 1:
        return None
    g = list(cands.values())[0]
    if g.name == f.name or g.name in chain or len(chain) >= INLINE_DEPTH or not want(g) or g.raw.get("variadic"):
        return None
    return g


def _splice(raw, ids, blk, ei, call, G):
    cb = copy.deepcopy(G.raw["blocks"])
    gi = _Ids(G.raw)
    noff, boff, doff, toff = ids.n, ids.b, ids.d, ids.t
    elem = blk["elems"][ei]
    ctry, ccatch = elem.get("try", 0), elem.get("catch", 0)
    rett = G.raw.get("ret", "void")
    retd = doff + gi.d if rett != "void" else None
    chain = tuple(call.get("ichain", ())) + (G.name,)
    for b in cb:
        b["id"] += boff
        b["succs"] = [s + boff if isinstance(s, int) else s for s in b["succs"]]
        if isinstance(b.get("looptarget"), int):
            b["looptarget"] += boff
        for x in _walk_raw([b.get("label"), b.get("term"), b["elems"]]):
            for k in ("id", "e", "cond", "fullcond"):
                if isinstance(x.get(k), int):
                    x[k] += noff
            if isinstance(x.get("d"), int):
                x["d"] += doff
            for k in ("try", "catch"):
                if isinstance(x.get(k), int) and x[k]:
                    x[k] += toff
            if "parm" in x:
                x["iparm"] = x.pop("parm")
            if x.get("k") in ("call", "mcall"):
                x["ichain"] = chain
        for x in list(_walk_raw(b["elems"])):        # (second pass: what it creates must not be renumbered again)
            if x.get("k") == "ret":
                v = x.pop("v", None)
                if v is not None and retd is not None:
                    x.update({"k": "decl", "vars": [{"n": "$ret", "d": retd, "t": rett, "init": v, "iret": True}]})
                else:
                    x.update({"k": "other", "cls": "InlinedReturn", "ch": [v] if v is not None else []})
        for el in b["elems"]:
            if "e" in el:
                if ctry and not el.get("try"):
                    el["try"] = ctry
                if ccatch and not el.get("catch"):
                    el["catch"] = ccatch
    for tr in G.raw.get("trys", []):
        t2 = dict(tr)
        t2["id"] += toff
        t2["parent"] = t2["parent"] + toff if t2.get("parent") else ctry
        raw.setdefault("trys", []).append(t2)
    ids.n += gi.n
    ids.b += gi.b
    ids.d += gi.d + 1
    ids.t += gi.t

    def fresh(n):
        n = copy.deepcopy(n)
        for x in _walk_raw(n):
            if isinstance(x.get("id"), int):
                x["id"] = ids.n
                ids.n += 1
        return n
    # parameters: `T p = <argument>` at the callee's entry
    pdecls = []
    args = call.get("args", [])
    for j, p in enumerate(G.params):
        nid = ids.n
        ids.n += 1
        var = {"n": p.get("n") or "$p%d" % j, "d": p["d"] + doff, "t": p["t"], "init": fresh(args[j]), "iparm": j}
        pdecls.append({"e": nid, "try": ctry, "catch": ccatch, "root": {"id": nid, "k": "decl", "l": call.get("l"), "vars": [var], "iparams": G.name}})
    entry = next(b for b in cb if b["id"] == G.raw["entry"] + boff)
    exit_ = next(b for b in cb if b["id"] == G.raw["exit"] + boff)
    entry["elems"] = pdecls + entry["elems"]
    # the call expression becomes a read of the returned value; its argument expressions stay (they are evaluated there)
    keep = {"id": call["id"], "l": call.get("l"), "t": call.get("t"), "icall": call["callee"], "iargs": ([call["obj"]] if call.get("obj") else []) + list(args)}
    call.clear()
    call.update(keep)
    if retd is not None:
        call.update({"k": "var", "n": "$ret", "d": retd})
    else:
        call.update({"k": "other", "cls": "InlinedCall", "ch": []})
    # split the calling block at the call
    tail = {"id": ids.b, "elems": blk["elems"][ei:], "succs": blk["succs"]}
    ids.b += 1
    for k in ("term", "noreturn", "looptarget"):
        if k in blk:
            tail[k] = blk.pop(k)
    blk["elems"] = blk["elems"][:ei]
    blk["succs"] = [entry["id"]]
    exit_["succs"] = [tail["id"]]
    raw["blocks"].extend(cb + [tail])


def flatten(fb, f, want):
    """f with the calls to same-class helpers selected by want(Function) replaced by the helpers' bodies; (Function, names inlined)"""
    if not f.ok:
        return f, ()
    raw, ids, done = None, None, []
    src = f.raw
    while True:
        idmap = {}
        for blk in src["blocks"]:
            for el in blk["elems"]:
                for x in _walk_raw([el.get("root"), el.get("v")]):
                    if isinstance(x.get("id"), int) and "k" in x:
                        idmap[x["id"]] = x
        site = None
        for blk in src["blocks"]:
            for ei, el in enumerate(blk["elems"]):
                node = idmap.get(el.get("e")) if "e" in el else None
                if node is not None:
                    g = _inlinable(fb, f, node, want)
                    if g is not None:
                        site = (blk, ei, node, g)
                        break
            if site:
                break
        if site is None:
            break
        if raw is None:
            raw = copy.deepcopy(f.raw)      # first site: work on a private copy and look the site up again in it
            ids = _Ids(raw)
            src = raw
            continue
        _splice(raw, ids, *site)
        done.append(site[3].name)
        if len(done) > 80:
            raise AnalysisBroken("%s: more than 80 helper calls to follow" % short(f.name))
    if raw is None:
        return f, ()
    g = facts_mod.Function(raw)
    g.lambdas, g.enclosing, g.flat_of = f.lambdas, f.enclosing, f
    return g, tuple(done)


# ------------------------------------------------------------------ value flow over one (flattened) function

def _peel(n):
    """through casts, std::move-like wrappers and copy / move constructions: the expression whose value is meant"""
    while n is not None:
        n = strip_wrappers(n)
        if n is None:
            return None
        args = [a for a in n.get("args", []) if not a.get("def")] if n.get("k") == "ctor" else None
        if args is not None and len(args) == 1 and (n.get("copy") or n.get("cls") in ("std::basic_string", "std::basic_string_view")):
            n = args[0]
            continue
        if n.get("k") == "other" and n.get("cls") in ("ExprWithCleanups", "MaterializeTemporaryExpr", "CXXBindTemporaryExpr") and len(n.get("ch", [])) == 1:
            n = n["ch"][0]
            continue
        return n
    return None


def _built_in_place(n):
    """the initialiser constructs a new object (default / aggregate / converting construction) rather than naming an existing value:
    such a local IS the object — it keeps its identity instead of standing for its initialiser"""
    n = _peel(n)
    if n is None:
        return True
    k = n.get("k")
    return k in ("ctor", "ilist", "zero") or (k == "other" and n.get("cls") == "ImplicitValueInitExpr")


def _is_null(n):
    n = _peel(n) if n is not None else None
    return n is not None and n.get("k") == "null"


class Flow:
    """reaching definitions of the locals of one function, and on top of them
       canon(expr)  : a canonical form of an expression in which every local that has exactly one reaching definition is replaced by
                      the canonical form of what it was defined as (so renamed locals, named temporaries, reference aliases and helper
                      parameters all denote the expression they stand for); objects that are built in place (default-initialised, or
                      whose address is taken) keep their identity ('var', decl id);
       values(expr) : the expressions a value may have come from, through every reaching definition and both arms of `?:`."""

    def __init__(self, f):
        self.f = f
        self.gen = {}       # (block id, idx) -> [(decl id, key)]
        self.rhs = {}       # key -> defining expression (None: modified in place)
        self.defelem = {}
        self.escaped = set()
        self.defs_of = {}   # decl id -> [key]
        self.refs = {}      # reference-typed local -> the local it is bound to (a name for the same object), if it is bound to one
        for n in f.nodes.values():
            if n.get("k") == "un" and n.get("op") == "&":
                v = strip_casts(n.get("v"))
                if v is not None and v.get("k") == "var":
                    self.escaped.add(v["d"])
            elif n.get("k") == "decl":
                for v in n["vars"]:
                    i = _peel(v["init"]) if v.get("init") is not None else None
                    if v.get("t", "").rstrip().endswith("&") and i is not None and i.get("k") == "var":
                        self.refs[v["d"]] = i["d"]
        for _ in range(4):      # taking the address of a reference takes the address of what it names
            self.escaped |= {self.refs[d] for d in self.escaped if d in self.refs}
        for e in f.stmts():
            n = e.node
            k = n.get("k")
            out = []
            if k == "decl":
                for i, v in enumerate(n["vars"]):
                    out.append((v["d"], (n["id"], i), v.get("init")))
            elif k == "bin" and n["op"].endswith("=") and n["op"] not in ("==", "!=", "<=", ">="):
                l = strip_casts(n["lhs"])
                if l.get("k") == "var":
                    out.append((l["d"], (n["id"], 0), n["rhs"] if n["op"] == "=" else None))
            elif k == "un" and ("++" in n["op"] or "--" in n["op"]):
                l = strip_casts(n["v"])
                if l.get("k") == "var":
                    out.append((l["d"], (n["id"], 0), None))
            elif k == "opcall" and n.get("memberop") and n["args"] and strip_casts(n["args"][0]).get("k") == "var" and n["op"] in ("=", "+=", "-=", "|=", "&=", "++", "--"):
                out.append((strip_casts(n["args"][0])["d"], (n["id"], 0), n["args"][1] if n["op"] == "=" and len(n["args"]) == 2 else None))
            for (d, key, rhs) in out:
                self.gen.setdefault((e.block.id, e.idx), []).append((d, key))
                self.rhs[key] = rhs
                self.defelem[key] = e
                self.defs_of.setdefault(d, []).append(key)
        self.flow = Forward(f, frozenset(), self._transfer, lambda a, b: a | b, eh=False)

    def _transfer(self, st, e):
        g = self.gen.get((e.block.id, e.idx))
        if not g:
            return st
        ds = {d for (d, _) in g}
        return frozenset(x for x in st if x[0] not in ds) | frozenset(g)

    def reaching(self, var_node):
        e = self.f.elem_for(var_node)
        st = self.flow.before(e) if e is not None else None
        if st is None:
            return [k for k in self.defs_of.get(var_node["d"], [])]
        return [k for (d, k) in st if d == var_node["d"]]

    def canon(self, n, depth=0, seen=()):
        n = _peel(n)
        if n is None:
            return ("?", None)
        k = n.get("k")
        c = self.canon
        if k == "this":
            return ("this",)
        if k == "var":
            d = n.get("d")
            if "parm" in n and d not in self.defs_of:
                return ("param", n["parm"])
            if (d in self.escaped and d not in self.refs) or depth > 14:
                return ("var", d)
            rs = self.reaching(n)
            if len(rs) > 1:
                # `return found ? p : nullptr` / `T *p = nullptr; if (…) p = x;`: as an access path a pointer denotes its non-null value
                rs = [x for x in rs if not _is_null(self.rhs[x])] if len([x for x in rs if not _is_null(self.rhs[x])]) == 1 else rs
            if len(rs) == 1 and rs[0] not in seen:
                rhs = self.rhs[rs[0]]
                if rhs is not None and not _built_in_place(rhs):
                    return c(rhs, depth + 1, seen + (rs[0],))
            return ("var", d)
        if k in ("int", "bool", "char", "sizeof") or (k in ("gvar", "enum") and n.get("cv") is not None):
            return ("const", n.get("cv"))
        if k in ("gvar", "gref", "enum", "fref"):
            return ("g", n["n"])
        if k == "member":
            return (".", c(n.get("b"), depth, seen), n["n"])
        if k == "opcall" and n.get("op") in ("->", "*") and len(n["args"]) == 1:
            return c(n["args"][0], depth, seen)
        if k == "un" and n.get("op") in ("*", "&"):
            return c(n["v"], depth, seen)
        if k == "mcall" and last(n.get("callee", "")) in ("get", "load") and not [a for a in n["args"] if not a.get("def")]:
            return c(n.get("obj"), depth, seen)
        if k == "mcall":
            return ("mcall", last(n.get("callee", "")), c(n.get("obj"), depth, seen), tuple(c(a, depth, seen) for a in n["args"] if not a.get("def")))
        if k == "call":
            return ("call", n.get("callee") or "?", tuple(c(a, depth, seen) for a in n["args"] if not a.get("def")))
        if k == "opcall":
            return ("op", n.get("op"), tuple(c(a, depth, seen) for a in n["args"]))
        if k == "bin":
            return ("bin", n["op"], c(n["lhs"], depth, seen), c(n["rhs"], depth, seen))
        if k == "un":
            return ("un", n["op"], c(n["v"], depth, seen))
        if k == "cond":
            if _is_null(n["t"]) != _is_null(n["f"]):
                return c(n["f"] if _is_null(n["t"]) else n["t"], depth, seen)
            return ("cond", c(n["c"], depth, seen), c(n["t"], depth, seen), c(n["f"], depth, seen))
        if k == "idx":
            return ("idx", c(n["b"], depth, seen), c(n["i"], depth, seen))
        if k == "null":
            return ("const", 0)
        return ("?", n.get("id"))

    def values(self, n):
        out, seen = [], set()

        def go(x, depth):
            x = _peel(x)
            if x is None:
                return
            if x.get("k") == "cond":
                go(x["t"], depth + 1)
                go(x["f"], depth + 1)
                return
            if x.get("k") == "var" and (x.get("d") not in self.escaped or x.get("d") in self.refs) and depth < 14 and not ("parm" in x and x["d"] not in self.defs_of):
                rs = self.reaching(x)
                if rs and all(self.rhs[r] is not None for r in rs):
                    for r in rs:
                        if r not in seen:
                            seen.add(r)
                            go(self.rhs[r], depth + 1)
                    return
            out.append(x)
        go(n, 0)
        return out


def opaque_tests(f):
    """calls into the repository's own code that a branch condition of f depends on and that were NOT folded in (another object's
    method, a lambda, a function of another header): a rule that needs to know what such a branch establishes cannot judge it"""
    out = []
    for b in f.blocks.values():
        c = b.cond
        for x in (walk(c) if c is not None else ()):
            if x.get("k") in ("call", "mcall", "opcall") and (x.get("callee") or "").startswith("iora::"):
                out.append(x)
    return out


def need_known(r, ok, f, where, construct, msg, okdesc):
    """an obligation of the form 'predicate P is established here': if it fails while a branch of f goes through a test the rule cannot
    read, the failure may only mean that P is spelled through that test — refuse instead of reporting"""
    if not ok:
        op = opaque_tests(f)
        if op:
            raise AnalysisBroken("%s [%s]: the function branches on `%s`, which this rule cannot read (not a helper of the engine that could be folded in); "
                                 "what that branch establishes is unknown" % (short(f.name), construct, show(op[0])[:60]))
    return r.expect(ok, f, where, construct, msg, okdesc=okdesc)


def cfield(c):
    """last field on a canonical access path"""
    return c[2] if isinstance(c, tuple) and c and c[0] == "." else None


def cbase(c):
    return c[1] if isinstance(c, tuple) and c and c[0] == "." else None


class Sentinels:
    """Atoms `local == constant` for the predicate abstraction: a helper that reports 'nothing to do' through a sentinel return value
    (`return kNone;` … `if (id == kNone) continue;`) is the same control flow as the nested `if` it replaced.  Every local that a
    branch compares with a constant gets an atom; at each definition of the local the atom is assigned from what is stored: a constant
    (equal or not), another tracked local (its atom), `c ? a : b` (by the translated condition), or an expression the rule knows to
    differ from the constant (`differs`); anything else makes it unknown."""

    def __init__(self, f, flow, differs, budget=5):
        self.f, self.flow, self.differs, self.budget = f, flow, differs, budget
        self.atoms = {}
        for b in f.blocks.values():
            c = b.cond
            if c is None:
                continue
            for x in walk(c):
                for (op, l, rr) in common.cmp_both(x):
                    l = strip_casts(l)
                    if op in ("==", "!=") and l is not None and l.get("k") == "var" and self._const(rr) is not None and not ("parm" in l and l["d"] not in flow.defs_of):
                        self._track(l["d"], self._const(rr))
                # a bool local that is only ever given constants and is branched on as it stands (`bool done = false; while (!done) { … done = true; }`,
                # a helper's `return true;` / `return false;`): the flag form of break / early return — atom `flag == true`
                if x.get("k") == "var" and (x.get("t") or "").strip() in ("bool", "const bool") and len(self.atoms) < self.budget:
                    ds = flow.defs_of.get(x.get("d"), [])
                    if ds and all(flow.rhs[k] is not None and (_peel(flow.rhs[k]) or {}).get("k") == "bool" for k in ds):
                        self.atoms.setdefault((x["d"], 1), "eq:%s:1" % x["d"])

    @staticmethod
    def _const(n):
        n = strip_casts(n)
        if n is not None and n.get("k") in ("int", "gvar", "enum", "bool", "char", "null") and (n.get("cv") is not None or n.get("k") == "null"):
            return n.get("cv", 0)
        return None

    def _track(self, d, cv):
        if (d, cv) in self.atoms or len(self.atoms) >= self.budget:
            return
        self.atoms[(d, cv)] = "eq:%s:%s" % (d, cv)
        for key in self.flow.defs_of.get(d, []):
            rhs = self.flow.rhs[key]
            stack = [rhs]
            while stack:
                x = _peel(stack.pop())
                if x is None:
                    continue
                if x.get("k") == "cond":
                    stack += [x["t"], x["f"]]
                elif x.get("k") == "var" and x["d"] in self.flow.defs_of:
                    self._track(x["d"], cv)

    def names(self):
        return sorted(self.atoms.values())

    def leaf(self, n):
        if n.get("k") == "var" and (n.get("t") or "").strip() in ("bool", "const bool") and (n.get("d"), 1) in self.atoms:
            return A(self.atoms[(n["d"], 1)])
        for (op, l, rr) in common.cmp_both(n):
            l = strip_casts(l)
            if op in ("==", "!=") and l is not None and l.get("k") == "var" and (l["d"], self._const(rr)) in self.atoms:
                a = A(self.atoms[(l["d"], self._const(rr))])
                return a if op == "==" else Not(a)
        return None

    def _eq(self, x, cv, leaf):
        x = _peel(x)
        if x is None:
            return None
        if self._const(x) is not None:
            return T if self._const(x) == cv else F
        if x.get("k") == "var" and (x["d"], cv) in self.atoms:
            return A(self.atoms[(x["d"], cv)])
        if x.get("k") == "cond":
            cf = total(translate(x["c"], leaf))
            a, b = self._eq(x["t"], cv, leaf), self._eq(x["f"], cv, leaf)
            if cf is None or a is None or b is None:
                return None
            return Or(And(cf, a), And(Not(cf), b))
        if self.differs(x, cv):
            return F
        return None

    def effects(self, e, leaf):
        ops = []
        for (d, key) in self.flow.gen.get((e.block.id, e.idx), []):
            for (d2, cv), atom in self.atoms.items():
                if d2 != d:
                    continue
                fm = self._eq(self.flow.rhs[key], cv, leaf) if self.flow.rhs[key] is not None else None
                ops.append(("assign", atom, fm) if fm is not None else ("havoc", atom))
        return ops


class Model:
    """flattened functions and their value flow, built once per run"""

    def __init__(self, ctx):
        self.fb = ctx.fb()
        self._flat, self._flow, self.inlined = {}, {}, set()

    def want(self, g):
        # helpers of the engine: its own non-anchor methods, static methods of its nested types, free functions of the same header
        mine = g.cls is None or g.cls == UDP or g.cls.startswith(UDP + "::")
        return mine and g.file.endswith(FILE) and not (g.cls == UDP and last(g.name) in ANCHOR_FNS) and len(g.blocks) <= 120

    def flat(self, f):
        key = (f.name, f.file, f.line)
        if key not in self._flat:
            g, names = flatten(self.fb, f, self.want)
            self._flat[key] = g
            self.inlined |= set(names)
        return self._flat[key]

    def fn(self, name):
        return self.flat(self.fb.func(UDP + "::" + name, file_suffix=FILE))

    def flow(self, f):
        if id(f) not in self._flow:
            self._flow[id(f)] = Flow(f)
        return self._flow[id(f)]

    def roots(self):
        """the functions of the engine that are judged on their own: everything that is not folded into its callers"""
        fs = [f for f in self.fb.in_file(FILE) if f.ok and f.cls == UDP]
        flats = [(f, self.flat(f)) for f in fs]
        return [g for (f, g) in flats if f.name not in self.inlined]


def model(ctx):
    key = "_c06_model_" + ctx.config
    if not hasattr(ctx, key):
        setattr(ctx, key, Model(ctx))
    return getattr(ctx, key)



CBS = "iora::network::detail::EngineBase::Callbacks::"
SREQ = UDP + "::SendReq"
IDX, SESSIONS = UDP + "::_peerIndex", UDP + "::_sessions"
LWQ, SWQ, OTO, OTOLEN, OPAY = LST + "::wq", SESS + "::wq", ODG + "::to", ODG + "::toLen", ODG + "::payload"


def resolve_state(fb):
    """The private state the rules talk about is identified by its TYPE inside its record, not by its spelling: the peer index is the
    engine's map from a string key to a session id, the out-queues are the deque<OutDg> of a listener and the deque<ByteBuffer> of a
    session, a queued datagram is (sockaddr_storage, socklen_t, ByteBuffer).  A renamed member is the same member; two candidates (or
    none) and the rules refuse."""
    global IDX, LWQ, SWQ, OTO, OTOLEN, OPAY

    def one(rec, pred, what):
        c = [fld["n"] for fld in fb.record(rec)["fields"] if pred((fld.get("t") or "").replace(" ", ""))]
        if len(c) != 1:
            raise AnalysisBroken("%s: %d members of %s have the type of %s — cannot tell which one it is" % (short(rec), len(c), short(rec), what))
        return c[0] if "::" in c[0] else rec + "::" + c[0]
    bb = "std::vector<unsignedchar>"
    IDX = one(UDP, lambda t: t.startswith("std::unordered_map<std::basic_string<char>,unsignedlong") or t.startswith("std::map<std::basic_string<char>,unsignedlong"), "the peer index")
    LWQ = one(LST, lambda t: t.startswith("std::deque<") and t.endswith("::OutDg>"), "the listener out-queue")
    SWQ = one(SESS, lambda t: t == "std::deque<%s>" % bb, "the session out-queue")
    OTO = one(ODG, lambda t: t == "sockaddr_storage", "the queued destination")
    OTOLEN = one(ODG, lambda t: t in ("unsignedint", "socklen_t"), "the queued destination length")
    OPAY = one(ODG, lambda t: t == bb, "the queued payload")
INSERTS = ("emplace", "insert", "try_emplace")


def result_decl(f, call_elem):
    """declaration id of the local that receives the call's result (n = send(...); int n = send(...))"""
    pid = f.parent.get(call_elem.node["id"])
    while pid is not None:
        p = f.nodes[pid]
        if p.get("k") == "cast":
            pid = f.parent.get(pid)
            continue
        if p.get("k") == "bin" and p["op"] == "=" and strip_casts(p["lhs"]).get("k") == "var":
            return strip_casts(p["lhs"])["d"]
        if p.get("k") == "decl":
            for v in p["vars"]:
                if v.get("init") is not None and any(x is call_elem.node for x in walk(v["init"])):
                    return v["d"]
        return None
    return None


def cb_invs(f, fl, cbname):
    """invocations of the engine callback `cbname`: of the member itself or of a local every value of which is a copy of it"""
    out = []
    for (e, tgt) in common.fn_invocations(f):
        if any(field_of(v) == CBS + cbname for v in fl.values(tgt)):
            out.append(e)
    return out


def cbset_leaf(n):
    """`if (cb)` on a copied std::function: the callback is assumed installed (DESIGN 1.3 A2 copy-then-invoke)"""
    if n.get("k") == "mcall" and last(n.get("callee", "")).startswith("operator bool") and "std::function" in (n.get("obj") or {}).get("t", ""):
        return T
    return None


def is_index_call(c, methods):
    """canonical form of `_peerIndex.<method>(…)`"""
    return isinstance(c, tuple) and c[0] == "mcall" and c[1] in methods and cfield(c[2]) == IDX


def hit_key(fl, x):
    """canonical key under which x reads the peer index (`find(K)->second`, `at(K)`), else None"""
    c = fl.canon(x)
    if cfield(c) == "std::pair::second" and is_index_call(cbase(c), ("find",)) and len(cbase(c)[3]) == 1:
        return cbase(c)[3][0]
    if is_index_call(c, ("at",)) and len(c[3]) == 1:
        return c[3][0]
    return None


def id_valued(fl, x):
    """'hit' for the value of a peer-index entry, 'fresh' for a newly allocated session id, else None"""
    c = fl.canon(x)
    if hit_key(fl, x) is not None:
        return "hit"
    if c[0] == "op" and c[1] == "++" and cfield(c[2][0]) == UDP + "::_nextSessionId":
        return "fresh"
    if c[0] == "mcall" and c[1] == "fetch_add" and cfield(c[2]) == UDP + "::_nextSessionId":
        return "fresh"
    return None


class RecvModel:
    """the receive loop of readFromListener / onClient (helpers folded in) under the predicate abstraction shared by R1, R4 and R9:
       npos    the receive that just returned reported n > 0
       once / twice   ghost counters of payload-carrying data events since that receive
       capped  the admission test `sessionsCurrent >= maxSessions` holds for this datagram
       newpeer the peer-index lookup under the sender's key found nothing
       eq:…    sentinel atoms (Sentinels)"""

    def __init__(self, m, name):
        self.name = name
        self.f = f = m.fn(name)
        self.fl = fl = m.flow(f)
        reads = calls(f, RECV)
        if len(reads) != 1:
            raise AnalysisBroken("%s: %d receive calls" % (name, len(reads)))
        self.rd = rd = reads[0]
        self.nd = nd = result_decl(f, rd)
        if nd is None:
            raise AnalysisBroken("%s: receive result not kept" % name)
        self.invs = cb_invs(f, fl, "onData")
        self.payload_invs = [e for e in self.invs if "nullptr" not in show(e.node)]     # the zero-length EOF-style event of onClient is a separate site
        try:
            floor = common.field_default(m.fb, "::UdpEngine", "_nextSessionId")
        except AnalysisBroken:
            floor = None
        # session ids are allocated from a counter that starts above 0 and is only ever incremented (C02-R6), and the index only holds
        # ids (R6): neither a fresh id nor an index hit equals the constant 0
        self.sent = Sentinels(f, fl, lambda x, cv: cv == 0 and floor is not None and floor >= 1 and id_valued(fl, x) is not None)
        base = ["npos", "once", "twice", "capped", "newpeer"]
        vocab = Vocab(base + self.sent.names())

        def leaf(n):
            for (op, l, rr) in common.cmp_both(n):
                l0 = strip_casts(l)
                if l0 is not None and l0.get("k") == "var" and const_value(rr) == 0 and strip_casts(rr).get("k") == "int" and fl.values(l0) == [rd.node]:
                    return {">": A("npos"), "<=": Not(A("npos")), "<": Not(A("npos")), "==": Not(A("npos"))}.get(op)
                if op in (">=", "<") and mentions_field(rr, "::maxSessions") and not mentions_field(l, "::maxSessions") and mentions_field(l, "::sessionsCurrent"):
                    return A("capped") if op == ">=" else Not(A("capped"))
                if op in ("==", "!=") and is_index_call(fl.canon(rr), ("end", "cend")) and is_index_call(fl.canon(l), ("find",)):
                    return A("newpeer") if op == "==" else Not(A("newpeer"))
                if op in ("==", "!=", ">") and const_value(rr) == 0 and is_index_call(fl.canon(l), ("count",)):
                    return A("newpeer") if op == "==" else Not(A("newpeer"))
            if n.get("k") == "mcall" and is_index_call(fl.canon(n), ("count",)):
                return Not(A("newpeer"))
            return self.sent.leaf(n) or cbset_leaf(n)
        self.leaf = leaf

        def eff(e):
            ops = []
            if e is rd:
                ops = [("havoc", "npos"), ("set", "once", False), ("set", "twice", False), ("havoc", "capped"), ("havoc", "newpeer")]
            elif e in self.payload_invs:
                ops = [("assign", "twice", Or(A("twice"), A("once"))), ("set", "once", True)]
            return ops + self.sent.effects(e, leaf)
        self.pa = PredAbs(f, vocab, leaf, eff, init=And(Not(A("npos")), Not(A("once")), Not(A("twice"))), track_bools=True)

    def cap_branch(self):
        """the branch on whose outcome the cap test decides the path (the place to report), preferably in the anchored function itself"""
        best = None
        v = self.pa.v
        for b in self.f.blocks.values():
            c, st = b.cond, self.pa.flow.at_block_end(b)
            if c is None or not st or v.entails(st, A("capped")):
                continue
            fm = translate(c, self.pa.leaf)
            for lab in (True, False):
                s2 = v.assume(st, known_when(fm, lab))
                if s2 and v.entails(s2, A("capped")):
                    e = self.f.elem_for(c)
                    own = e is not None and getattr(self.f, "flat_of", self.f).line <= (e.line or 0) <= getattr(self.f, "flat_of", self.f).endline
                    if best is None or (own and not best[0]):
                        best = (own, e)
        return best[1] if best else None

    def holds(self, goal):
        return self.pa.entails(self.rd, goal) and self.pa.exit_entails(goal)

    def cap_test(self):
        """the element at which the admission cap is tested (for the report position)"""
        for x in self.f.nodes.values():       # (wherever it is spelled: a branch condition, a named bool, a helper's return value)
            if x.get("k") in ("bin", "opcall") and self.leaf(x) in (A("capped"), Not(A("capped"))):
                return self.f.elem_for(x)
        return None


def recv_model(ctx, name):
    m = model(ctx)
    if name not in m.__dict__.setdefault("_recv", {}):
        m._recv[name] = RecvModel(m, name)
    return m._recv[name]


def r1(ctx, r):
    for name in ("readFromListener", "onClient"):
        rm = recv_model(ctx, name)
        f, fl, rd, pa = rm.f, rm.fl, rm.rd, rm.pa
        # exactly one data event per datagram; the only datagrams that may go undelivered are those refused by the admission cap
        # (which ones the cap may refuse is R9's question)
        goal = Or(Not(A("npos")), And(A("once"), Not(A("twice"))), And(A("capped"), Not(A("once"))))
        r.instance()
        r.expect(rm.holds(goal), f, rd, "%s: datagram not delivered exactly once" % name,
                 "a received datagram (n > 0) can reach the next receive call or the function exit without exactly one data event (known at loop head: %s; at exit: %s): "
                 "datagrams are dropped, merged or duplicated" % (",".join(pa.describe(rd)), ",".join(pa.describe_exit())),
                 okdesc="%s: n > 0 ⇒ exactly one onData before the next receive" % name)
        if name == "readFromListener" and rm.cap_test() is not None:
            r.note("readFromListener: datagrams from unknown peers are dropped when the configured maxSessions cap is reached (documented admission control)")
        # the event carries (buffer.data(), n) of that receive: the buffer is the object handed to the receive call, n its result
        bufc = None
        for x in walk(strip_wrappers(rd.node["args"][1])):
            if x.get("k") == "var":
                bufc = fl.canon(x)
        for e in rm.payload_invs:
            r.instance()
            bv = None
            for x in walk(e.node):
                if x.get("k") in ("ctor", "ilist", "cast") and "BufferView" in x.get("t", "") + x.get("cls", ""):
                    args = x.get("args") or x.get("vals") or []
                    if x.get("k") == "cast" and (x.get("v") or {}).get("k") in ("ilist", "ctor"):
                        args = x["v"].get("args") or x["v"].get("vals") or []
                    if len(args) == 2:
                        bv = args
                        break
            ok = bv is not None and bufc is not None and fl.canon(bv[0]) == ("mcall", "data", bufc, ()) and [v for v in fl.values(bv[1])] == [rd.node]
            r.expect(ok, f, e, "%s: payload" % name, "the data event does not carry (buffer.data(), n) of the receive that just returned: %s" % show(e.node)[:100],
                     okdesc="%s: onData(buf.data(), n)" % name)
        # the buffer the kernel writes each datagram into: at every receive it is the WHOLE of a buffer of ioReadChunk bytes — the receive
        # is given (B.data(), B.size()), every operation that sets B's size sets it to the configured chunk (constructor argument or
        # resize), one of them on every path to the receive, and nothing else changes B (no append / insert / erase / assignment).  Then
        # no datagram is truncated to an earlier one's length or stored behind earlier bytes, whether B is created per datagram or once
        # per wake-up (the event exposes only the first n bytes, clause above).
        bn = None
        for x in walk(strip_wrappers(rd.node["args"][1])):
            if x.get("k") == "var":
                bn = x
        bd = bn.get("d") if bn is not None else None
        while bd in fl.refs:        # (a helper's reference parameter names the caller's buffer)
            bd = fl.refs[bd]

        def names_buf(x, bd=bd, fl=fl):
            x = strip_wrappers(x) if x is not None else None
            d = x.get("d") if x is not None and x.get("k") == "var" else None
            while d in fl.refs:
                d = fl.refs[d]
            return d is not None and d == bd

        def is_chunk(x, fl=fl):
            return (cfield(fl.canon(x)) or "").endswith("::ioReadChunk")
        sizers, bad = [], []
        for e in f.stmts():
            n = e.node
            if n.get("k") == "decl":
                for v in n["vars"]:
                    if v["d"] == bd:
                        i = _peel(v["init"]) if v.get("init") is not None else None
                        args = [a_ for a_ in (i or {}).get("args", []) if not a_.get("def")] if i is not None and i.get("k") == "ctor" else None
                        if args is None or len(args) > 1:
                            bad.append((e, "initialised with `%s`" % show(v.get("init"))[:50]))
                        elif len(args) == 1:
                            sizers.append((e, args[0]))
            elif n.get("k") == "mcall" and names_buf(n.get("obj")):
                mth = last(n.get("callee", ""))
                if mth == "resize" and len([a_ for a_ in n["args"] if not a_.get("def")]) == 1:
                    sizers.append((e, n["args"][0]))
                elif mth in access.MUTATORS and mth not in ("reserve", "shrink_to_fit"):
                    bad.append((e, "%s()" % mth))
            elif n.get("k") == "opcall" and n.get("memberop") and n["args"] and names_buf(n["args"][0]) and n.get("op") in ("=", "+="):
                bad.append((e, "assigned"))
        a_ = rd.node["args"]
        B = fl.canon(bn) if bn is not None else None
        whole = B is not None and len(a_) > 2 and fl.canon(a_[1]) == ("mcall", "data", B, ()) and fl.canon(a_[2]) == ("mcall", "size", B, ())
        wrong = [(e, "sized with `%s`" % show(x)[:50]) for (e, x) in sizers if not is_chunk(x)] + bad
        sized = any(elem_dominates(f, e, rd) for (e, x) in sizers)
        r.instance()
        r.expect(whole and sized and not wrong, f, wrong[0][0] if wrong else rd, "%s: receive buffer" % name,
                 "the receive call is not given, for every datagram, the whole of a buffer of ioReadChunk bytes (%s): a datagram can be cut to the size left by an earlier one or stored "
                 "behind earlier bytes" % ("; ".join(w for (_, w) in wrong) or ("the call does not get (buffer.data(), buffer.size())" if not whole else "the buffer is not sized before the receive")),
                 okdesc="%s: every receive gets (buf.data(), buf.size()) of a buffer sized ioReadChunk and not otherwise modified" % name)


def r9(ctx, r):
    """'While a session that receives a peer's datagrams is open, further datagrams from that peer keep arriving on it': the admission
    cap (maxSessions) exists to refuse NEW peers.  A datagram may therefore leave the loop undelivered under the cap only on paths on
    which the peer-index lookup for its source address has failed; a cap test that is reached before, or regardless of, the lookup
    silences every open session of the listener while the engine is full."""
    rm = recv_model(ctx, "readFromListener")
    r.instance()
    ct = rm.cap_test()
    if ct is None:
        r.ok("readFromListener: no admission cap on the receive path")
        return
    goal = Not(And(A("npos"), Not(A("once")), A("capped"), Not(A("newpeer"))))
    r.expect(rm.holds(goal), rm.f, rm.cap_branch() or ct, "session cap drops datagrams of routed peers",
             "readFromListener can drop a datagram (n > 0, no data event) because the engine is at its session cap (sessionsCurrent >= maxSessions) on a path where the peer-index "
             "lookup has not failed: the cap test is not confined to the peer-not-found side, so datagrams of a peer whose session is OPEN are silently discarded while the engine is "
             "full (the cap is admission control for new peers only)", okdesc="readFromListener: the session cap refuses only peers that have no index entry")


def r2(ctx, r):
    m = model(ctx)
    sd = m.fn("sendDo")
    fl = m.flow(sd)
    sends = calls(sd, SEND)
    if len(sends) < 2:
        raise AnalysisBroken("sendDo: %d send calls" % len(sends))
    vocab = Vocab(["once", "twice"])

    def eff(e):
        if e in sends:
            return [("assign", "twice", Or(A("twice"), A("once"))), ("set", "once", True)]
        return None
    pa = PredAbs(sd, vocab, lambda n: None, eff, init=And(Not(A("once")), Not(A("twice"))))
    r.instance()
    r.expect(pa.exit_entails(Not(A("twice"))) and all(pa.entails(x, Not(A("twice"))) for x in common.returns(sd)), sd, sends[0], "two datagrams per command",
             "sendDo can issue more than one send/sendto for a single send command: the datagram is duplicated or split", okdesc="sendDo: at most one send/sendto per command")
    P = (".", ("param", 0), SREQ + "::payload")      # the payload of the command this call handles
    for e in sends:
        r.instance()
        a = e.node["args"]
        c1, c2 = fl.canon(a[1]), fl.canon(a[2])
        r.expect(c1 == ("mcall", "data", P, ()) and c2 == ("mcall", "size", P, ()), sd, e, "datagram not the payload",
                 "%s is not given exactly (payload.data(), payload.size()) of the command: %s" % (e.node["callee"], [show(strip_wrappers(x)) for x in a[1:3]]),
                 okdesc="%s(payload.data(), payload.size())" % e.node["callee"])
    # send flags: a datagram socket is corked by MSG_MORE (0x8000) — the payload is held back and the next send is APPENDED to
    # it, its destination ignored — so the flags of every datagram send are constants without that bit
    MSG_MORE, OK_BITS = 0x8000, 0x4000 | 0x40      # allowed: MSG_NOSIGNAL, MSG_DONTWAIT
    nfl = 0
    for f in (sd, m.fn("flushListener"), m.fn("writeClient")):
        inits = {}
        for e in f.stmts():
            if e.node.get("k") == "decl":
                for dv in e.node["vars"]:
                    if dv.get("init") is not None:
                        inits[dv["d"]] = dv["init"]
        for e in calls(f, ("sendto", "send", "sendmsg")):
            a = e.node["args"]
            fl_ = a[3] if e.node["callee"] in ("sendto", "send") and len(a) > 3 else (a[2] if len(a) > 2 else None)
            if fl_ is None:
                raise AnalysisBroken("%s: flags argument of %s not found" % (short(f.name), e.node["callee"]))
            nfl += 1
            consts, opaque = [], []

            def collect(n, depth=0):
                n = strip_casts(n)
                if n is None:
                    return
                if n.get("cv") is not None and n.get("k") in ("int", "gvar", "enum", "bin", "un", "cast", "cond"):
                    consts.append(n["cv"])
                    return
                if n.get("k") == "var" and n.get("d") in inits and depth < 4:
                    return collect(inits[n["d"]], depth + 1)
                if n.get("k") == "bin" and n.get("op") in ("|", "+"):
                    collect(n["lhs"], depth)
                    collect(n["rhs"], depth)
                    return
                if n.get("k") == "cond":
                    collect(n["t"], depth)
                    collect(n["f"], depth)
                    return
                opaque.append(show(n)[:30])
            collect(fl_)
            if opaque:
                raise AnalysisBroken("%s: flags of %s contain `%s`, not a combination of constants" % (short(f.name), e.node["callee"], opaque[0]))
            bits = 0
            for c in consts:
                bits |= c
            r.instance()
            r.expect(not (bits & MSG_MORE) and not (bits & ~OK_BITS), f, e, "datagram send flags", "%s calls %s with flags that can include %s: on a UDP socket MSG_MORE corks the datagram — the payload is not sent, the next queued "
                     "payload is appended to it and that entry's destination is ignored, so two sends leave as one merged datagram to the first peer" % (
                         short(f.name), e.node["callee"], "MSG_MORE" if bits & MSG_MORE else hex(bits & ~OK_BITS)), okdesc="%s: %s flags ⊆ {MSG_NOSIGNAL, MSG_DONTWAIT}" % (short(f.name), e.node["callee"]))
    if nfl < 3:
        raise AnalysisBroken("only %d datagram send sites with flags found" % nfl)
    # nothing builds a partial range from the payload (the stream idiom must not leak into UDP)
    for f in (sd, m.fn("flushListener"), m.fn("writeClient")):
        for e in f.stmts():
            n = e.node
            bad = None
            if n.get("k") == "decl":
                for v in n["vars"]:
                    i = v.get("init")
                    if i is not None and i.get("k") == "ctor" and "vector" in v["t"] and any(".begin()" in show(x) and "+" in show(x) for x in i["args"]):
                        bad = "a buffer built from a sub-range"
            if n.get("k") == "mcall" and last(n.get("callee", "")) == "erase" and "vector" in (n.get("obj") or {}).get("t", "") + str((n.get("obj") or {}).get("t", "")):
                if ".begin()" in show(n) and ("payload" in show(n) or (n.get("obj") or {}).get("k") == "var"):
                    bad = "erase of a prefix"
            if bad:
                r.instance()
                r.fail(f, e, "datagram split", "%s: %s of a datagram payload — a datagram must be sent whole or not at all" % (short(f.name), bad))
    # a queued datagram is never modified (merging or splitting queue elements changes datagram boundaries)
    for f in (sd, m.fn("flushListener"), m.fn("writeClient"), m.fn("closeNow")):
        refs = set()
        for e in f.stmts():
            if e.node.get("k") == "decl":
                for v in e.node["vars"]:
                    i = strip_wrappers(v.get("init")) if v.get("init") else None
                    if i is not None and i.get("k") in ("mcall", "opcall") and field_of(i.get("obj") or (i.get("args") or [None])[0]) in (SWQ, LWQ) and "&" in v["t"] and "const" not in v["t"] and \
                            last(i.get("callee", "")) in ("back", "front", "at", "operator[]"):
                        refs.add(v["d"])
        for e in f.stmts():
            n = e.node
            if n.get("k") not in ("mcall", "opcall"):
                continue
            mth = last(n.get("callee", ""))
            if mth not in access.MUTATORS or mth in ("pop_front",):
                continue
            recv = n.get("obj") if n.get("k") == "mcall" else (n["args"][0] if n.get("memberop") and n["args"] else None)
            if recv is None:
                continue
            via_elem = any(x.get("k") in ("mcall", "opcall") and last(x.get("callee", "")) in ("back", "front", "at", "operator[]") and
                           field_of(x.get("obj") or (x.get("args") or [None])[0]) in (SWQ, LWQ) for x in walk(recv))
            via_ref = any(x.get("k") == "var" and x.get("d") in refs for x in walk(recv))
            if via_elem or via_ref:
                r.instance()
                r.fail(f, e, "queued datagram modified", "%s changes a datagram that is already queued (`%s`): queue elements are whole datagrams and may only be sent and popped — "
                       "merging or trimming them changes datagram boundaries" % (short(f.name), show(n)[:90]))
    # would-block: the whole payload is queued — on the connected socket's queue the command's payload itself, on the listener's queue a
    # datagram object whose payload field is assigned the command's payload and nothing else
    qs = [e for e in sd.stmts() if (e.node.get("k") == "mcall" and last(e.node.get("callee", "")) in ("emplace_back", "push_back") and
                                    field_of(e.node.get("obj")) in (SWQ, LWQ))]
    kinds = {field_of(e.node.get("obj")) for e in qs}
    r.instance()
    r.expect(kinds == {SWQ, LWQ}, sd, None, "would-block not queued", "sendDo no longer queues the datagram on EAGAIN for both session kinds (found %d queueing sites)" % len(qs),
             okdesc="sendDo queues on would-block (client and listener)")
    for e in qs:
        r.instance()
        ok = False
        args = [a for a in e.node["args"] if not a.get("def")]
        if len(args) <= 1:
            c = fl.canon(args[0]) if args else fl.canon(e.node)     # emplace_back(): the element itself, filled through the returned reference
            if c == P:
                ok = True
            elif c[0] == "var" or not args:
                ws = [x.node for x in sd.stmts() if x.node.get("k") in ("opcall", "bin") and x.node.get("op") == "=" and
                      fl.canon((x.node.get("args") or [x.node.get("lhs")])[0]) == (".", c, OPAY)]
                ok = bool(ws) and all(fl.canon((w.get("args") or [None, w.get("rhs")])[1]) == P for w in ws)
            elif c[0] in ("?", "call", "mcall"):
                raise AnalysisBroken("sendDo: the queued value `%s` is built in a shape this rule does not know" % show(args[0])[:60])
        r.expect(ok, sd, e, "queued payload", "the datagram queued on would-block is not the whole payload of the command: `%s`" % show(e.node)[:90], okdesc="whole payload moved into the queue element")
    # flush: one whole element per send, popped exactly when sent or failed hard
    for name, fld in (("flushListener", LWQ), ("writeClient", SWQ)):
        f = m.fn(name)
        ff = m.flow(f)
        ws = calls(f, SEND)
        r.instance()
        if len(ws) != 1:
            r.fail(f, None, "%s: send sites" % name, "%s has %d send calls" % (name, len(ws)))
            continue
        w = ws[0]
        c1, c2 = ff.canon(w.node["args"][1]), ff.canon(w.node["args"][2])
        X = c1[2] if c1[0] == "mcall" and c1[1] == "data" and not c1[3] else None
        E = cbase(X) if cfield(X) == OPAY else X
        ok = X is not None and c2 == ("mcall", "size", X, ()) and isinstance(E, tuple) and E[0] == "mcall" and E[1] == "front" and cfield(E[2]) == fld
        r.expect(ok, f, w, "%s: not the front element" % name, "%s does not send exactly the front queue element's data()/size(): %s" % (name, [show(strip_wrappers(x)) for x in w.node["args"][1:3]]),
                 okdesc="%s: send(front.data(), front.size())" % name)
        vocab = Vocab(["sent", "eagain", "popped"])

        def leaf(n, w=w, ff=ff):
            for (op, l, rr) in common.cmp_both(n):
                l0 = strip_casts(l)
                if l0 is not None and l0.get("k") == "var" and const_value(rr) == 0 and ff.values(l0) == [w.node]:
                    return {">=": A("sent"), "<": Not(A("sent"))}.get(op)
            if n.get("k") == "bin" and n["op"] in ("==", "!=") and any(x.get("mac") in ("EAGAIN", "EWOULDBLOCK") for x in walk(n)):
                return A("eagain") if n["op"] == "==" else None
            return None
        pops = common.member_calls_on(f, fld, ("pop_front", "pop_back", "erase", "clear"))

        def eff2(e, w=w, pops=pops):
            if e is w:
                return [("havoc_all", ["sent", "eagain"]), ("assume", Not(And(A("sent"), A("eagain")))), ("set", "popped", False)]
            if e in pops:
                return [("set", "popped", True)]
            return None
        pa2 = PredAbs(f, vocab, leaf, eff2, init=And(Not(A("sent")), Not(A("eagain")), Not(A("popped"))), track_bools=True)
        for p in pops:
            r.instance()
            need_known(r, last(p.node["callee"]) == "pop_front" and pa2.entails(p, Not(A("eagain"))), f, p, "%s: queue element dropped on would-block" % name,
                       "%s removes a queued datagram (%s) on a path where the send may merely have hit EAGAIN: the datagram is lost" % (name, last(p.node["callee"])),
                       okdesc="%s: pop_front only after a completed or hard-failed send" % name)
        # a datagram the kernel accepted leaves the queue before the next send and before the function returns
        r.instance()
        goal = Or(Not(A("sent")), A("popped"))
        r.expect(pa2.entails(w, goal) and pa2.exit_entails(goal), f, w, "%s: sent element not popped" % name, "a sent datagram is not removed from the queue: it would be sent again",
                 okdesc="%s: sent element popped" % name)


def r3(ctx, r):
    m = model(ctx)
    sd = m.fn("sendDo")
    fl = m.flow(sd)
    # the session addressed by the command: the entry of _sessions found under the command's session id
    finds = common.member_calls_on(sd, SESSIONS, ("find",))
    if not finds:
        raise AnalysisBroken("sendDo: no _sessions.find(): the session lookup has a shape this rule does not know")
    r.instance()
    r.expect(len(finds) == 1 and fl.canon(finds[0].node["args"][0]) == (".", ("param", 0), SREQ + "::sid"), sd, finds[0], "session lookup", "sendDo does not look the session up by the command's session id",
             okdesc="_sessions.find(sr.sid)")
    S = (".", fl.canon(finds[0].node), "std::pair::second")
    for e in calls(sd, ("sendto",)):
        r.instance()
        a = e.node["args"]
        r.expect(len(a) >= 6 and fl.canon(a[4]) == (".", S, SESS + "::peer") and fl.canon(a[5]) == (".", S, SESS + "::plen"), sd, e, "destination not the session's peer",
                 "sendto is addressed to %s, not to the peer stored in the session looked up by the command's id" % [show(strip_wrappers(x)) for x in a[-2:]], okdesc="sendto(…, &s->peer, s->plen)")
    # queued copy of the destination: the datagram object put on the listener's queue has `to` copied from that session's peer and
    # `toLen` assigned from its plen (copied at queueing time — the session may be gone when the queue is flushed)
    qs = [e for e in sd.stmts() if e.node.get("k") == "mcall" and last(e.node.get("callee", "")) in ("emplace_back", "push_back") and field_of(e.node.get("obj")) == LWQ]
    r.instance()
    if not qs:
        r.fail(sd, None, "queued destination", "sendDo does not queue on the listener's out-queue")
    for e in qs:
        args = [a for a in e.node["args"] if not a.get("def")]
        c = fl.canon(args[0]) if len(args) == 1 else (fl.canon(e.node) if not args else ("?", None))
        if c[0] != "var" and args:
            raise AnalysisBroken("sendDo: the datagram queued for the listener (`%s`) is not a local object: shape not known to this rule" % show(e.node)[:60])
        cps = [x for x in calls(sd, ("memcpy", "std::memcpy")) if fl.canon(x.node["args"][0]) == (".", c, OTO)]
        asg = [x for x in sd.stmts() if x.node.get("k") == "bin" and x.node["op"] == "=" and fl.canon(x.node["lhs"]) == (".", c, OTOLEN)]
        ok = bool(cps) and all(fl.canon(x.node["args"][1]) == (".", S, SESS + "::peer") for x in cps) and bool(asg) and all(fl.canon(x.node["rhs"]) == (".", S, SESS + "::plen") for x in asg)
        r.expect(ok, sd, cps[0] if cps else e, "queued destination", "the destination stored with a queued datagram is not a copy of the session's peer address/length", okdesc="OutDg.to/toLen copied from s->peer/s->plen")
    f2 = m.fn("flushListener")
    ff = m.flow(f2)
    for e in calls(f2, ("sendto",)):
        r.instance()
        a = e.node["args"]
        c1 = ff.canon(a[1])
        E = cbase(c1[2]) if c1[0] == "mcall" and cfield(c1[2]) == OPAY else None
        r.expect(E is not None and len(a) >= 6 and ff.canon(a[4]) == (".", E, OTO) and ff.canon(a[5]) == (".", E, OTOLEN), f2, e, "flush destination",
                 "flushListener does not address the queued datagram to its stored destination: %s" % [show(strip_wrappers(x)) for x in a[-2:]], okdesc="flushListener: sendto(…, &d.to, d.toLen)")
    # connected sessions use their own descriptor
    for e in calls(sd, ("send",)):
        r.instance()
        r.expect(fl.canon(e.node["args"][0]) == (".", S, SESS + "::fd"), sd, e, "client send fd", "connected-session send does not use the session's own descriptor", okdesc="send(s->fd, …)")


def r4(ctx, r):
    rm = recv_model(ctx, "readFromListener")
    f, fl, rd = rm.f, rm.fl, rm.rd
    frm = None
    for a in rd.node["args"]:
        for x in walk(a):
            if x.get("k") == "var" and "sockaddr_storage" in x.get("t", ""):
                frm = x
    if frm is None:
        raise AnalysisBroken("readFromListener: cannot identify the source-address variable")
    KEY = ("call", UDP + "::key", (fl.canon(frm),))       # key(<the address the receive call reported>)
    finds = common.member_calls_on(f, IDX, ("find", "count", "at"))
    r.instance()
    r.expect(bool(finds) and all(fl.canon(x.node["args"][0]) == KEY for x in finds), f, finds[0] if finds else rd, "index lookup", "the peer index is not searched under key(source address of the datagram)",
             okdesc="_peerIndex.find(key(from))")
    # every value the delivery session id can hold is the index hit for that key or a freshly allocated id (whose session the accept
    # path below inserts and indexes); a constant (a 'no session' sentinel) only if the path to the delivery excludes it
    for e in rm.invs:
        r.instance()
        arg = e.node["args"][1]
        bad = []
        for v in fl.values(arg):
            kind = id_valued(fl, v)
            if kind == "hit" and hit_key(fl, v) == KEY:
                continue
            if kind == "fresh":
                continue
            cv = Sentinels._const(v)
            a0 = strip_casts(arg)
            atom = rm.sent.atoms.get((a0.get("d"), cv)) if cv is not None and a0.get("k") == "var" else None
            if atom is not None and rm.pa.entails(e, Not(A(atom))):
                continue
            bad.append(show(v)[:60])
        r.expect(not bad, f, e, "delivered on other session", "the datagram is delivered on a session id that can come from `%s`, which is neither the index entry of the sender's address nor "
                 "the id of the session just created for it" % "`, `".join(bad), okdesc="onData(index hit | fresh id, …)")
    # accept path: inserted and indexed under the key before the announcement
    ins = common.member_calls_on(f, SESSIONS, INSERTS)
    idx = common.member_calls_on(f, IDX, INSERTS)
    acc = cb_invs(f, fl, "onAccept")
    r.instance()
    ok = len(ins) == 1 and len(idx) == 1 and acc and all(elem_dominates(f, ins[0], a) and elem_dominates(f, idx[0], a) for a in acc) and \
        len(idx[0].node["args"]) >= 2 and fl.canon(idx[0].node["args"][0]) == KEY and id_valued(fl, idx[0].node["args"][1]) == "fresh" and \
        fl.canon(ins[0].node["args"][0]) == fl.canon(idx[0].node["args"][1]) and all(fl.canon(a.node["args"][1]) == fl.canon(idx[0].node["args"][1]) for a in acc)
    r.expect(ok, f, idx[0] if idx else None, "accept path", "a new peer's session is not inserted under its fresh id and indexed under the sender's key before it is announced",
             okdesc="accept: _sessions.emplace(sid) and _peerIndex.emplace(k, sid) before onAccept")
    # pkey stored in the session is that key (closeNow cleans the index by it)
    pk = [e for e in f.stmts() if e.node.get("k") in ("opcall", "bin") and e.node.get("op") == "=" and field_of((e.node.get("args") or [e.node.get("lhs")])[0]) == SESS + "::pkey"]
    r.instance()
    r.expect(len(pk) == 1 and fl.canon((pk[0].node.get("args") or [None, pk[0].node.get("rhs")])[1]) == KEY, f, pk[0] if pk else None, "session key", "the session does not remember the key it is indexed under",
             okdesc="s->pkey = k")


def r5(ctx, r):
    m = model(ctx)
    n = 0
    for f in m.roots():
        ers = common.member_calls_on(f, IDX, ("erase", "clear"))
        if not ers:
            continue
        fl = m.flow(f)
        vocab = Vocab(["own"])

        def leaf(nn, fl=fl):
            # `<index entry found by find()>->second == <id of a session>`: the entry maps to the closing session
            for (op, l, rr) in common.cmp_both(nn):
                if op in ("==", "!="):
                    cl, cr = fl.canon(l), fl.canon(rr)
                    if cfield(cl) == "std::pair::second" and is_index_call(cbase(cl), ("find",)) and cfield(cr) == SESS + "::id":
                        return A("own") if op == "==" else Not(A("own"))
            return None
        pa = PredAbs(f, vocab, leaf, lambda e: None, track_bools=True)
        for e in ers:
            n += 1
            r.instance()
            if last(f.name) == "shutdownDrain":
                # every session is closed in this one pass on the I/O thread and nothing reads the index in between
                reads = [x for x in f.stmts() if x.node.get("k") == "mcall" and x.node.get("callee") in (UDP + "::readFromListener", UDP + "::onListener", UDP + "::handleFdEvent")]
                r.expect(not reads, f, e, "shutdownDrain dispatches", "shutdownDrain erases index entries unconditionally and also dispatches datagrams", okdesc="shutdownDrain: whole index dropped in one pass, no dispatch (exempt)")
                continue
            need_known(r, last(e.node["callee"]) == "erase" and pa.entails(e, A("own")), f, e, "unowned peer-index erase",
                       "%s erases a peer-index entry without having checked that it maps to the closing session: the index is written conditionally (connect-via-listener does not "
                       "re-index an existing peer), so this can unroute another session's datagrams" % short(f.name), okdesc="%s: erase only when pit->second == sid" % short(f.name))
    if n < 2:
        raise AnalysisBroken("expected peer-index erase sites in closeNow and shutdownDrain, found %d" % n)
    # the premise: the index is written only by insertions that keep an existing entry (emplace / insert / try_emplace)
    via = m.fn("viaDo")
    idx = common.member_calls_on(via, IDX, INSERTS)
    r.instance()
    r.expect(len(idx) == 1, via, None, "viaDo indexing", "viaDo has %d index insertions" % len(idx), okdesc="viaDo indexes the new session only if the peer is not indexed")


def r6(ctx, r):
    m = model(ctx)
    for f in m.roots():
        fl = None
        for e in common.member_calls_on(f, IDX, INSERTS):
            r.instance()
            fl = fl or m.flow(f)
            v = fl.canon(e.node["args"][1]) if len(e.node["args"]) > 1 else ("?", None)
            ins = [i for i in common.member_calls_on(f, SESSIONS, INSERTS) if elem_dominates(f, i, e)]
            ok = False
            for i in ins:
                k = fl.canon(i.node["args"][0])
                # the session is inserted under the indexed id itself, or under `s->id` of a session whose id field was assigned it
                if k == v or (cfield(k) == SESS + "::id" and any(x.node.get("k") == "bin" and x.node["op"] == "=" and fl.canon(x.node["lhs"]) == k and fl.canon(x.node["rhs"]) == v for x in f.stmts())):
                    ok = True
            r.expect(ok, f, e, "index value without session", "%s indexes `%s` which is not the id of a session inserted on the same path: the next datagram from that peer "
                     "dereferences a session that does not exist" % (short(f.name), show(e.node["args"][1]) if len(e.node["args"]) > 1 else "?"), okdesc="%s: indexed id is the inserted session's" % short(f.name))
    # index entries are never overwritten (emplace/insert keep an existing entry; operator[] / insert_or_assign take it over)
    for f in m.roots():
        for (g, e, n, kind) in [(f, f.elem_for(n), n, access.classify(f, n)) for n in f.nodes.values() if n.get("k") == "member" and n["n"] == IDX]:
            par = f.nodes.get(f.parent.get(n["id"]))
            if par is None:
                continue
            mth = last(par.get("callee", "")) if par.get("k") in ("mcall", "opcall") else ""
            if mth in ("operator[]", "insert_or_assign", "at") and kind in ("write", "rw"):
                r.instance()
                r.fail(f, e, "peer index overwritten", "%s writes the peer index with `%s`, which replaces an existing entry: a peer that already has a receiving session is re-routed to "
                       "another session (and un-routed when that one closes)" % (short(f.name), show(f.nodes.get(f.parent.get(par["id"]), par))[:80]))
    cn = m.fn("closeNow")
    vocab = Vocab(["client", "idx"])

    def leaf(n):
        if n.get("k") == "bin" and n["op"] in ("==", "!=") and any(x.get("k") == "enum" and last(x["n"]) == "ClientConnected" for x in walk(n)):
            return A("client") if n["op"] == "==" else Not(A("client"))
        return None
    touched = common.member_calls_on(cn, IDX, ("find", "erase"))

    def eff(e):
        if e in touched:
            return [("set", "idx", True)]
        return None
    pa = PredAbs(cn, vocab, leaf, eff, init=Not(A("idx")), track_bools=True)

    def not_client_edge(b, si):
        """False for an edge that can only be taken by a connected-client session: the `case ClientConnected:` edge of a switch over the
        role, or a branch edge on which the abstraction knows `client`"""
        lab = b.edge_label(si)
        if isinstance(lab, tuple):
            return not any(x.get("k") == "enum" and last(x["n"]) == "ClientConnected" for x in walk(lab[1]))
        st = pa.flow.at_block_end(b)
        s2 = pa._edge(st, b, si) if st is not None else None
        return s2 is not None and not pa.v.entails(s2, A("client"))
    for e in common.member_calls_on(cn, SESSIONS, ("erase",)):
        r.instance()
        w = search(cn, ("entry",), lambda x, e=e: x is e, stop=lambda x: x in touched, edge_ok=not_client_edge, eh=False)
        r.expect(w is None, cn, e, "index not cleaned", "a listener-side session is erased from _sessions on a path that never consulted the peer index: "
                 "a stale index entry makes the next datagram from that peer hit a missing session", okdesc="closeNow: ServerPeer sessions leave through the index clean-up")
    r.floor(3, "index coherence sites")


def r7(ctx, r):
    """Sockets are registered edge-triggered: a wake-up is the only notification for everything queued in the socket at that
    moment.  So a receive loop may stop only on would-block / error / (connected socket) the zero-length event: after a positive
    receive every path returns to the receive call."""
    for name in ("readFromListener", "onClient"):
        rm = recv_model(ctx, name)
        f, rd = rm.f, rm.rd
        vocab = Vocab(["npos"] + rm.sent.names())       # + flags and sentinels: `while (!drained)` / `if (!readOne()) return` are the loop's exits

        def leaf(n, rd=rd, fl=rm.fl, rm=rm):
            for (op, l, rr) in common.cmp_both(n):
                l0 = strip_casts(l)
                if l0 is not None and l0.get("k") == "var" and const_value(rr) == 0 and strip_casts(rr).get("k") == "int" and fl.values(l0) == [rd.node]:
                    return {">": A("npos"), "<=": Not(A("npos")), "<": Not(A("npos")), "==": Not(A("npos"))}.get(op)
            return rm.sent.leaf(n)

        def eff(e, rd=rd, leaf=leaf, rm=rm):
            return ([("set", "npos", True)] if e is rd else []) + rm.sent.effects(e, leaf)
        pa = PredAbs(f, vocab, leaf, eff, init=Not(A("npos")))
        r.instance()
        w = search(f, rd, "exit", stop=lambda x, rd=rd: x is rd or (x.kind == "stmt" and x.node.get("k") == "mcall" and last(x.node.get("callee", "")) == "closeNow"),
                   eh=False, edge_ok=lambda b, si: pa.edge_feasible(b, si))
        r.expect(w is None, f, rd, "%s: receive loop stops before would-block" % name,
                 "after a datagram was received (n > 0) %s can leave the receive loop without receiving again: with edge-triggered epoll the datagrams still queued in the socket are not delivered "
                 "until some later datagram causes a new edge — never, if the peer stays quiet" % name, witness=witness_str(f, w), okdesc="%s: n > 0 always returns to the receive call" % name)
        # the sockets really are edge-triggered or the loop is the only reader: nothing else to check here


CSIZE = {"unsigned short": 2, "in_port_t": 2, "in_addr": 4, "in6_addr": 16, "unsigned int": 4, "uint32_t": 4, "sa_family_t": 2, "unsigned char": 1, "char": 1}
FAMILY_FIELDS = {"sockaddr_in": {"sin_port", "sin_addr"}, "sockaddr_in6": {"sin6_port", "sin6_addr"}}


def r8(ctx, r):
    """The peer index maps key(source address) to a session: two different (family, address, port) triples must never share a
    key, or one peer's datagrams arrive on another peer's session.  Decided for the two ways the key can be built."""
    f = fn(ctx, "key")
    gni = [e for e in f.stmts() if e.node.get("k") == "call" and e.node.get("callee") == "getnameinfo"]
    copies = [e for e in f.stmts() if e.node.get("k") in ("mcall", "call") and last(e.node.get("callee", "")) in ("assign", "append", "memcpy", "insert")
              and any(x.get("k") == "un" and x.get("op") == "&" and (x.get("v") or {}).get("k") == "member" for a in e.node.get("args", []) for x in walk(a))]
    r.instance()
    if gni:
        n = gni[0].node
        a = n["args"]
        flags = const_value(a[6]) if len(a) > 6 else None
        sizes = [const_value(x) for x in (a[3], a[5])]
        bufs = [strip_casts(a[2]), strip_casts(a[4])]
        ok_bufs = all(b.get("k") == "var" for b in bufs) and all(sz and sz >= need for sz, need in zip(sizes, (46, 6)))
        r.expect(flags is not None and (flags & 3) == 3, f, gni[0], "key: name lookup", "key() calls getnameinfo without NI_NUMERICHOST|NI_NUMERICSERV (flags %s): the key depends on resolver state, not on the address" % flags,
                 okdesc="getnameinfo numeric host and service")
        r.instance()
        r.expect(ok_bufs, f, gni[0], "key: truncated text", "key() gives getnameinfo buffers of %s bytes: a numeric IPv6 host needs 46, a port 6" % sizes, okdesc="host/service buffers large enough")
        # the address length handed in covers the whole sockaddr of the family
        sl = strip_casts(a[1])
        if sl.get("k") == "var":
            for e in f.stmts():
                if e.node.get("k") == "decl":
                    for dv in e.node["vars"]:
                        if dv["d"] == sl.get("d") and dv.get("init") is not None:
                            sl = strip_casts(dv["init"])
        r.instance()
        lens = sorted(x.get("cv") for x in walk(sl) if x.get("k") == "sizeof" and x.get("cv"))
        r.expect(lens == [16, 28] or lens == [128], f, gni[0], "key: address length", "the length given to getnameinfo is %s, expected sizeof(sockaddr_in)/sizeof(sockaddr_in6)" % lens, okdesc="salen = sizeof(sockaddr_in) : sizeof(sockaddr_in6)")
        # both texts are part of the returned key
        hn, sn = bufs[0].get("n"), bufs[1].get("n")
        succ = [e for e in common.returns(f) if any(c.get("k") in ("call",) and c.get("callee") == "getnameinfo" and t for (c0, t) in __import__("iora_sa.finite", fromlist=["x"]).dominating_facts(f, e) for c in walk(c0))]
        used = set()
        for e in f.stmts():
            if e.node.get("k") in ("decl", "mcall", "ctor", "opcall"):
                for x in walk(e.node):
                    if x.get("k") == "var" and x.get("n") in (hn, sn) and e.node.get("k") != "call":
                        used.add(x["n"])
        r.instance()
        r.expect({hn, sn} <= used and bool(succ), f, gni[0], "key: host or port missing", "the key is built from %s only: peers that differ in the other part share a key" % (sorted(used) or "nothing"),
                 okdesc="key = numeric host + ':' + numeric port")
    elif copies:
        covered = {}
        for e in copies:
            n = e.node
            args = n.get("args", [])
            src = next((x for a_ in args for x in walk(a_) if x.get("k") == "un" and x.get("op") == "&" and (x.get("v") or {}).get("k") == "member"), None)
            ln = next((a_ for a_ in args if strip_casts(a_).get("k") in ("sizeof", "int")), None)
            fld = src["v"]
            rec, fname = fld["n"].rsplit("::", 1)
            want = CSIZE.get(fld.get("t"))
            if want is None:
                raise AnalysisBroken("key(): size of %s (%s) not in the table" % (fld["n"], fld.get("t")))
            got = const_value(ln) if ln is not None else None
            r.instance()
            r.expect(got == want, f, e, "key: %s truncated" % fname, "key() copies %s bytes of %s, which is %d bytes wide: addresses that differ only in the remaining bytes share a key and are folded into one session"
                     % (got, fld["n"], want), okdesc="key: whole %s" % fname)
            covered.setdefault(rec, set()).add(fname)
        for rec, need in FAMILY_FIELDS.items():
            r.instance()
            r.expect(need <= covered.get(rec, set()), f, None, "key: %s fields missing" % rec, "key() does not include %s of %s" % (sorted(need - covered.get(rec, set())), rec),
                     okdesc="key covers %s" % sorted(need))
    else:
        raise AnalysisBroken("UdpEngine::key: neither the getnameinfo form nor a raw field copy — shape not known to this rule")


def run(ctx, ck):
    try:
        resolve_state(ctx.fb())
    except AnalysisBroken as ex:
        ck.broken.append("setup: %s" % ex)
        return
    ck.run_rule("C06-R1", "one receive → exactly one data event with the whole payload; every receive into a whole ioReadChunk buffer", "A5 ghost counting + A2", lambda r: r1(ctx, r))
    ck.run_rule("C06-R2", "one command → at most one datagram, sent whole; queued whole; flushed whole", "A5 + shape", lambda r: r2(ctx, r))
    ck.run_rule("C06-R3", "destination comes from the addressed session", "A10 dataflow shape", lambda r: r3(ctx, r))
    ck.run_rule("C06-R4", "delivery session is chosen by source address; accept path indexes before announcing", "A2 + dataflow shape", lambda r: r4(ctx, r))
    ck.run_rule("C06-R5", "peer-index entries are erased only by their owner", "A5 contradiction rule", lambda r: r5(ctx, r))
    ck.run_rule("C06-R7", "receive loops drain the socket: after a datagram the loop always receives again (edge-triggered wake-ups)", "A5 + path search", lambda r: r7(ctx, r))
    ck.run_rule("C06-R8", "the peer-index key is injective in (family, address, port)", "closed-form shape rule over key(): numeric getnameinfo of the whole address, or whole-field byte copies", lambda r: r8(ctx, r))
    ck.run_rule("C06-R6", "peer index and session table stay coherent", "A2 + A5", lambda r: r6(ctx, r))
    ck.run_rule("C06-R9", "the session cap refuses new peers only: a peer with an index entry is never silenced by it", "A5 over the flattened receive loop", lambda r: r9(ctx, r))
