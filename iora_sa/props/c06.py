"""C06 — UDP keeps datagram boundaries and the peer-to-session mapping (DESIGN.md §2 C06)."""
from .. import access
from ..cfg import search, witness_str, elem_dominates
from ..expr import show, walk, last, field_of, strip_wrappers, strip_casts, short, const_value, access_path
from ..facts import AnalysisBroken
from ..predabs import Vocab, PredAbs, A, Not, And, Or, T, F, translate, known_when, total
from ..rules import common
from .c02 import cb_invocations, cbset_leaf
from .c01 import _result_var

TITLE = "UDP keeps datagram boundaries and the peer-to-session mapping"
TECHNIQUE = 'custom static analysis over clang-14 CFG facts: who-may-write tables for the peer index and datagram queue, owner-check dominance, must-lockset'
UDP = "iora::network::UdpEngine"
FILE = "iora/network/detail/udp_engine.hpp"
SESS, LST, ODG = UDP + "::Session", UDP + "::Listener", UDP + "::OutDg"
RECV = ("recvfrom", "recv", "recvmsg", "read")
SEND = ("sendto", "send", "sendmsg", "write")

EXPLANATION = (
    "Static obligations over udp_engine.hpp: R1 in readFromListener and onClient every positive receive result reaches exactly one data "
    "callback with (buf.data(), n) of that call before the next receive (ghost counting), and the receive buffer is re-created per "
    "iteration; R2 sendDo performs at most one send/sendto of (payload.data(), payload.size()) per command, queues the WHOLE payload on "
    "would-block, and the flush functions send one whole queue element and pop exactly it — nothing ever splits a datagram; R3 the "
    "destination of every sendto is the peer address of the session looked up by the command's id (or the copy stored with the queued "
    "datagram); R4 the session a datagram is delivered on is the one indexed under the sender's address or the one just created and "
    "indexed under it, inserted and indexed before the accept announcement; R5 every erase of a peer-index entry is conditional on the "
    "entry mapping to the closing session (the index is conditionally written, so unconditional erase contradicts it); R6 index values are "
    "ids of sessions inserted on the same path and a ServerPeer session leaves the table only through the index clean-up.")
NOT_DECIDED = ["that the kernel preserves datagram boundaries", "truncation when ioReadChunk is smaller than the datagram (no MSG_TRUNC test exists; configuration)",
               "ordering between datagrams", "datagrams dropped by the configured maxSessions admission cap (documented; noted, not reported)"]


def fn(ctx, name):
    return ctx.fb().func(UDP + "::" + name, file_suffix=FILE)


def calls(f, names):
    return [e for e in f.stmts() if e.node.get("k") == "call" and e.node.get("callee") in names]


def r1(ctx, r):
    for name in ("readFromListener", "onClient"):
        f = fn(ctx, name)
        reads = calls(f, RECV)
        if len(reads) != 1:
            raise AnalysisBroken("%s: %d receive calls" % (name, len(reads)))
        rd = reads[0]
        nv = _result_var(f, rd)
        if nv is None:
            raise AnalysisBroken("%s: receive result not kept" % name)
        invs = cb_invocations(f, "onData")
        vocab = Vocab(["npos", "once", "twice", "capped"])

        def leaf(n, nv=nv):
            if n.get("k") == "bin" and n["op"] in (">", "<=", "<", "==", ">="):
                l, rr = strip_casts(n["lhs"]), strip_casts(n["rhs"])
                if l.get("k") == "var" and l["n"] == nv and const_value(rr) == 0 and rr.get("k") == "int":
                    return {">": A("npos"), "<=": Not(A("npos")), "<": Not(A("npos")), "==": Not(A("npos")), ">=": None}[n["op"]]
                if any(x.get("k") == "member" and x["n"].endswith("::maxSessions") for x in walk(n)) and n["op"] == ">=":
                    return A("capped")
            return cbset_leaf(n)

        def eff(e, rd=rd, invs=invs):
            if e is rd:
                return [("havoc", "npos"), ("set", "once", False), ("set", "twice", False), ("set", "capped", False)]
            if e in invs:
                # positive payload deliveries only (the zero-length EOF-style event of onClient is a separate site)
                if "nullptr" in show(e.node):
                    return None
                return [("assign", "twice", Or(A("twice"), A("once"))), ("set", "once", True)]
            return None
        pa = PredAbs(f, vocab, leaf, eff, init=And(Not(A("npos")), Not(A("once")), Not(A("twice")), Not(A("capped"))))
        goal = Or(Not(A("npos")), And(A("once"), Not(A("twice"))), A("capped"))
        r.instance()
        st_loop = pa.before(rd)
        ok_loop = pa.entails(rd, goal)
        r.expect(ok_loop and pa.exit_entails(goal), f, rd, "%s: datagram not delivered exactly once" % name,
                 "a received datagram (n > 0) can reach the next receive call or the function exit without exactly one data event (known at loop head: %s; at exit: %s): "
                 "datagrams are dropped, merged or duplicated" % (",".join(pa.describe(rd)), ",".join(pa.describe_exit())),
                 okdesc="%s: n > 0 ⇒ exactly one onData before the next receive" % name)
        if "capped" in [a for a in vocab.atoms] and name == "readFromListener":
            r.note("readFromListener: datagrams from unknown peers are dropped when the configured maxSessions cap is reached (documented admission control)")
        for e in invs:
            if "nullptr" in show(e.node):
                continue
            r.instance()
            bv = common.bufferview_args(e.node)
            r.expect(bv == ["buf.data()", nv], f, e, "%s: payload" % name,
                     "the data event does not carry (buf.data(), %s) of the receive that just returned: %s" % (nv, show(e.node)[:100]), okdesc="%s: onData(buf.data(), n)" % name)
        # a fresh buffer per datagram
        bufarg = strip_wrappers(rd.node["args"][1])
        bn = None
        for x in walk(bufarg):
            if x.get("k") == "var":
                bn = x
        decls = [e for e in f.stmts() if e.node.get("k") == "decl" and bn is not None and any(v["d"] == bn.get("d") for v in e.node["vars"])]
        r.instance()
        ok = bool(decls) and search(f, rd, lambda x: x is rd, stop=lambda x: x in decls, eh=False) is None
        r.expect(ok, f, rd, "%s: buffer reused" % name, "the receive buffer outlives a loop iteration: bytes of consecutive datagrams can accumulate in one buffer",
                 okdesc="%s: receive buffer declared inside the loop" % name)


def r2(ctx, r):
    sd = fn(ctx, "sendDo")
    sends = calls(sd, SEND)
    if len(sends) < 2:
        raise AnalysisBroken("sendDo: %d send calls" % len(sends))
    vocab = Vocab(["once", "twice"])

    def eff(e):
        if e in sends:
            return [("assign", "twice", Or(A("twice"), A("once"))), ("set", "once", True)]
        return None
    pa = PredAbs(sd, vocab, lambda n: None, eff, init=And(Not(A("once")), Not(A("twice"))))
    r.instance()
    r.expect(pa.exit_entails(Not(A("twice"))) and all(pa.entails(x, Not(A("twice"))) for x in common.returns(sd)), sd, sends[0], "two datagrams per command",
             "sendDo can issue more than one send/sendto for a single send command: the datagram is duplicated or split", okdesc="sendDo: at most one send/sendto per command")
    for e in sends:
        r.instance()
        a = [show(strip_wrappers(x)).replace(" ", "") for x in e.node["args"]]
        r.expect("sr.payload.data()" in a and any(x.endswith("sr.payload.size()") for x in a), sd, e, "datagram not the payload",
                 "%s is not given exactly (payload.data(), payload.size()): %s" % (e.node["callee"], a[1:3]), okdesc="%s(payload.data(), payload.size())" % e.node["callee"])
    # send flags: a datagram socket is corked by MSG_MORE (0x8000) — the payload is held back and the next send is APPENDED to
    # it, its destination ignored — so the flags of every datagram send are constants without that bit
    MSG_MORE, OK_BITS = 0x8000, 0x4000 | 0x40      # allowed: MSG_NOSIGNAL, MSG_DONTWAIT
    nfl = 0
    for f in (sd, fn(ctx, "flushListener"), fn(ctx, "writeClient")):
        inits = {}
        for e in f.stmts():
            if e.node.get("k") == "decl":
                for dv in e.node["vars"]:
                    if dv.get("init") is not None:
                        inits[dv["d"]] = dv["init"]
        for e in calls(f, ("sendto", "send", "sendmsg")):
            a = e.node["args"]
            fl = a[3] if e.node["callee"] in ("sendto", "send") and len(a) > 3 else (a[2] if len(a) > 2 else None)
            if fl is None:
                raise AnalysisBroken("%s: flags argument of %s not found" % (short(f.name), e.node["callee"]))
            nfl += 1
            consts, opaque = [], []

            def collect(n, depth=0):
                n = strip_casts(n)
                if n is None:
                    return
                if n.get("cv") is not None and n.get("k") in ("int", "gvar", "enum", "bin", "un", "cast", "cond"):
                    consts.append(n["cv"])
                    return
                if n.get("k") == "var" and n.get("d") in inits and depth < 4:
                    return collect(inits[n["d"]], depth + 1)
                if n.get("k") == "bin" and n.get("op") in ("|", "+"):
                    collect(n["lhs"], depth)
                    collect(n["rhs"], depth)
                    return
                if n.get("k") == "cond":
                    collect(n["t"], depth)
                    collect(n["f"], depth)
                    return
                opaque.append(show(n)[:30])
            collect(fl)
            if opaque:
                raise AnalysisBroken("%s: flags of %s contain `%s`, not a combination of constants" % (short(f.name), e.node["callee"], opaque[0]))
            bits = 0
            for c in consts:
                bits |= c
            r.instance()
            r.expect(not (bits & MSG_MORE) and not (bits & ~OK_BITS), f, e, "datagram send flags", "%s calls %s with flags that can include %s: on a UDP socket MSG_MORE corks the datagram — the payload is not sent, the next queued "
                     "payload is appended to it and that entry's destination is ignored, so two sends leave as one merged datagram to the first peer" % (
                         short(f.name), e.node["callee"], "MSG_MORE" if bits & MSG_MORE else hex(bits & ~OK_BITS)), okdesc="%s: %s flags ⊆ {MSG_NOSIGNAL, MSG_DONTWAIT}" % (short(f.name), e.node["callee"]))
    if nfl < 3:
        raise AnalysisBroken("only %d datagram send sites with flags found" % nfl)
    # nothing builds a partial range from the payload (the stream idiom must not leak into UDP)
    for f in (sd, fn(ctx, "flushListener"), fn(ctx, "writeClient")):
        for e in f.stmts():
            n = e.node
            bad = None
            if n.get("k") == "decl":
                for v in n["vars"]:
                    i = v.get("init")
                    if i is not None and i.get("k") == "ctor" and "vector" in v["t"] and any(".begin()" in show(x) and "+" in show(x) for x in i["args"]):
                        bad = "a buffer built from a sub-range"
            if n.get("k") == "mcall" and last(n.get("callee", "")) == "erase" and "vector" in (n.get("obj") or {}).get("t", "") + str((n.get("obj") or {}).get("t", "")):
                if ".begin()" in show(n) and ("payload" in show(n) or (n.get("obj") or {}).get("k") == "var"):
                    bad = "erase of a prefix"
            if bad:
                r.instance()
                r.fail(f, e, "datagram split", "%s: %s of a datagram payload — a datagram must be sent whole or not at all" % (short(f.name), bad))
    # a queued datagram is never modified (merging or splitting queue elements changes datagram boundaries)
    for f in (sd, fn(ctx, "flushListener"), fn(ctx, "writeClient"), fn(ctx, "closeNow")):
        refs = set()
        for e in f.stmts():
            if e.node.get("k") == "decl":
                for v in e.node["vars"]:
                    i = strip_wrappers(v.get("init")) if v.get("init") else None
                    if i is not None and i.get("k") in ("mcall", "opcall") and field_of(common.obj_of(i) if hasattr(common, "obj_of") else (i.get("obj") or (i.get("args") or [None])[0])) in (SESS + "::wq", LST + "::wq") and "&" in v["t"]:
                        refs.add(v["n"])
        for e in f.stmts():
            n = e.node
            if n.get("k") not in ("mcall", "opcall"):
                continue
            m = last(n.get("callee", ""))
            if m not in access.MUTATORS or m in ("pop_front",):
                continue
            recv = n.get("obj") if n.get("k") == "mcall" else (n["args"][0] if n.get("memberop") and n["args"] else None)
            if recv is None:
                continue
            via_elem = any(x.get("k") in ("mcall", "opcall") and last(x.get("callee", "")) in ("back", "front", "at", "operator[]") and
                           field_of(x.get("obj") or (x.get("args") or [None])[0]) in (SESS + "::wq", LST + "::wq") for x in walk(recv))
            via_ref = any(x.get("k") == "var" and x["n"] in refs for x in walk(recv))
            if via_elem or via_ref:
                r.instance()
                r.fail(f, e, "queued datagram modified", "%s changes a datagram that is already queued (`%s`): queue elements are whole datagrams and may only be sent and popped — "
                       "merging or trimming them changes datagram boundaries" % (short(f.name), show(n)[:90]))
    # would-block: the whole payload is queued
    qs = [e for e in sd.stmts() if (e.node.get("k") == "mcall" and last(e.node.get("callee", "")) in ("emplace_back", "push_back") and
                                    field_of(e.node.get("obj")) in (SESS + "::wq", LST + "::wq"))]
    r.instance()
    r.expect(len(qs) >= 2, sd, None, "would-block not queued", "sendDo no longer queues the datagram on EAGAIN for both session kinds (found %d queueing sites)" % len(qs),
             okdesc="sendDo queues on would-block (client and listener)")
    moved = [e for e in sd.stmts() if "std::move(sr.payload)" in show(e.node) and e.node.get("k") in ("mcall", "opcall", "bin")]
    r.instance()
    r.expect(len(moved) >= 2, sd, None, "queued payload", "the queued datagram is not the whole moved payload", okdesc="whole payload moved into the queue element")
    # flush: one whole element per send, popped exactly when sent or failed hard
    for name, fld in (("flushListener", LST + "::wq"), ("writeClient", SESS + "::wq")):
        f = fn(ctx, name)
        ws = calls(f, SEND)
        r.instance()
        if len(ws) != 1:
            r.fail(f, None, "%s: send sites" % name, "%s has %d send calls" % (name, len(ws)))
            continue
        w = ws[0]
        fronts = [v for e in f.stmts() if e.node.get("k") == "decl" for v in e.node["vars"] if v.get("init") is not None and
                  strip_wrappers(v["init"]).get("k") == "mcall" and last(strip_wrappers(v["init"]).get("callee", "")) == "front" and field_of(strip_wrappers(v["init"]).get("obj")) == fld]
        dn = fronts[0]["n"] if len(fronts) == 1 else None
        a = [show(strip_wrappers(x)).replace(" ", "") for x in w.node["args"]]
        ok = dn is not None and any(x in (dn + ".data()", dn + ".payload.data()") for x in a) and any(x.endswith(dn + ".size()") or x.endswith(dn + ".payload.size()") for x in a)
        r.expect(ok, f, w, "%s: not the front element" % name, "%s does not send exactly the front queue element's data()/size(): %s" % (name, a[1:3]),
                 okdesc="%s: send(front.data(), front.size())" % name)
        nv = _result_var(f, w)
        vocab = Vocab(["sent", "eagain"])

        def leaf(n, nv=nv):
            if n.get("k") == "bin" and n["op"] in (">=", "<", ">"):
                l, rr = strip_casts(n["lhs"]), strip_casts(n["rhs"])
                if l.get("k") == "var" and l["n"] == nv and const_value(rr) == 0:
                    return {">=": A("sent"), "<": Not(A("sent")), ">": None}[n["op"]]
            if n.get("k") == "bin" and n["op"] == "==" and any(x.get("mac") in ("EAGAIN", "EWOULDBLOCK") for x in walk(n)):
                return A("eagain")
            return None

        def eff2(e, w=w):
            if e is w:
                return [("havoc_all", ["sent", "eagain"]), ("assume", Not(And(A("sent"), A("eagain"))))]
            return None
        pa2 = PredAbs(f, vocab, leaf, eff2)
        pops = common.member_calls_on(f, fld, ("pop_front", "pop_back", "erase", "clear"))
        for p in pops:
            r.instance()
            r.expect(last(p.node["callee"]) == "pop_front" and pa2.entails(p, Not(A("eagain"))), f, p, "%s: queue element dropped on would-block" % name,
                     "%s removes a queued datagram (%s) on a path where the send may merely have hit EAGAIN: the datagram is lost" % (name, last(p.node["callee"])),
                     okdesc="%s: pop_front only after a completed or hard-failed send" % name)
        r.instance()
        r.expect(any(pa2.entails(p, A("sent")) for p in pops), f, w, "%s: sent element not popped" % name, "a sent datagram is not removed from the queue: it would be sent again",
                 okdesc="%s: sent element popped" % name)


def r3(ctx, r):
    sd = fn(ctx, "sendDo")
    for e in calls(sd, ("sendto",)):
        r.instance()
        a = [show(strip_wrappers(x)).replace(" ", "") for x in e.node["args"]]
        r.expect(any(x.endswith("&s->peer") for x in a) and "s->plen" in a, sd, e, "destination not the session's peer",
                 "sendto is addressed to %s, not to the peer stored in the session looked up by the command's id" % a[-2:], okdesc="sendto(…, &s->peer, s->plen)")
    # s is the session found under sr.sid
    finds = common.member_calls_on(sd, UDP + "::_sessions", ("find",))
    r.instance()
    r.expect(len(finds) == 1 and "sr.sid" in show(finds[0].node), sd, finds[0] if finds else None, "session lookup", "sendDo does not look the session up by the command's session id",
             okdesc="_sessions.find(sr.sid)")
    sdecl = [v for e in sd.stmts() if e.node.get("k") == "decl" for v in e.node["vars"] if v["n"] == "s" and v["t"].endswith("Session *")]
    r.instance()
    r.expect(len(sdecl) == 1 and "it->second" in show(sdecl[0].get("init") or {}), sd, None, "session variable", "`s` is not the session found by that lookup", okdesc="s = it->second.get()")
    # queued copy of the destination
    cps = [e for e in calls(sd, ("memcpy", "std::memcpy")) if "to" in show(e.node["args"][0])]
    asg = [e for e in sd.stmts() if e.node.get("k") == "bin" and e.node["op"] == "=" and field_of(e.node["lhs"]) == ODG + "::toLen"]
    r.instance()
    r.expect(len(cps) == 1 and "&s->peer" in show(cps[0].node).replace(" ", "") and len(asg) == 1 and show(asg[0].node["rhs"]) == "s->plen", sd, cps[0] if cps else None,
             "queued destination", "the destination stored with a queued datagram is not a copy of the session's peer address/length", okdesc="OutDg.to/toLen copied from s->peer/s->plen")
    fl = fn(ctx, "flushListener")
    for e in calls(fl, ("sendto",)):
        r.instance()
        a = [show(strip_wrappers(x)).replace(" ", "") for x in e.node["args"]]
        r.expect(any(x.endswith("&d.to") for x in a) and "d.toLen" in a, fl, e, "flush destination", "flushListener does not address the queued datagram to its stored destination: %s" % a[-2:],
                 okdesc="flushListener: sendto(…, &d.to, d.toLen)")
    # connected sessions use their own descriptor
    for e in calls(sd, ("send",)):
        r.instance()
        r.expect(show(e.node["args"][0]) == "s->fd", sd, e, "client send fd", "connected-session send does not use the session's own descriptor", okdesc="send(s->fd, …)")


def r4(ctx, r):
    f = fn(ctx, "readFromListener")
    rd = calls(f, RECV)[0]
    frm = None
    for a in rd.node["args"]:
        for x in walk(a):
            if x.get("k") == "var" and "sockaddr_storage" in x.get("t", ""):
                frm = x["n"]
    if frm is None:
        raise AnalysisBroken("readFromListener: cannot identify the source-address variable")
    # key variable = key(from)
    kdecl = [v for e in f.stmts() if e.node.get("k") == "decl" for v in e.node["vars"] if v.get("init") is not None and
             strip_wrappers(v["init"]).get("k") == "call" and strip_wrappers(v["init"]).get("callee") == UDP + "::key"]
    r.instance()
    ok = len(kdecl) == 1 and show(strip_wrappers(kdecl[0]["init"])["args"][0]) == frm
    r.expect(ok, f, rd, "key not from source address", "the peer-index key is not computed from the address recvfrom reported", okdesc="k = key(from)")
    kn = kdecl[0]["n"] if kdecl else "?"
    finds = common.member_calls_on(f, UDP + "::_peerIndex", ("find",))
    r.instance()
    r.expect(len(finds) == 1 and show(finds[0].node["args"][0]) == kn, f, finds[0] if finds else None, "index lookup", "the index is not searched under the sender's key", okdesc="_peerIndex.find(k)")
    # sid definitions
    sids = [e for e in f.stmts() if e.node.get("k") == "bin" and e.node["op"] == "=" and e.node["lhs"].get("k") == "var" and e.node["lhs"]["n"] == "sid"]
    r.instance()
    srcs = sorted(show(e.node["rhs"]).replace(" ", "") for e in sids)
    r.expect(len(sids) == 2 and any(s == "it->second" for s in srcs) and any("_nextSessionId" in s for s in srcs), f, sids[0] if sids else None, "delivery session",
             "the session id used for delivery is assigned from %s, not from the index hit or a freshly allocated id" % srcs, okdesc="sid = it->second | _nextSessionId++")
    invs = cb_invocations(f, "onData")
    for e in invs:
        r.instance()
        r.expect(show(e.node["args"][1]) == "sid", f, e, "delivered on other session", "the datagram is delivered on `%s`" % show(e.node["args"][1]), okdesc="onData(sid, …)")
    # accept path: inserted and indexed under k before the announcement
    ins = common.member_calls_on(f, UDP + "::_sessions", ("emplace",))
    idx = common.member_calls_on(f, UDP + "::_peerIndex", ("emplace", "insert", "try_emplace"))
    acc = cb_invocations(f, "onAccept")
    r.instance()
    ok = len(ins) == 1 and len(idx) == 1 and acc and all(elem_dominates(f, ins[0], a) and elem_dominates(f, idx[0], a) for a in acc) and \
        [show(x) for x in idx[0].node["args"][:2]] == [kn, "sid"] and show(ins[0].node["args"][0]) == "sid"
    r.expect(ok, f, idx[0] if idx else None, "accept path", "a new peer's session is not inserted under `sid` and indexed under the sender's key before it is announced",
             okdesc="accept: _sessions.emplace(sid) and _peerIndex.emplace(k, sid) before onAccept")
    # pkey stored in the session is that key (closeNow cleans the index by it)
    pk = [e for e in f.stmts() if e.node.get("k") in ("opcall", "bin") and e.node.get("op") == "=" and field_of((e.node.get("args") or [e.node.get("lhs")])[0]) == SESS + "::pkey"]
    r.instance()
    r.expect(len(pk) == 1 and show((pk[0].node.get("args") or [None, pk[0].node.get("rhs")])[1]) == kn, f, pk[0] if pk else None, "session key", "the session does not remember the key it is indexed under",
             okdesc="s->pkey = k")


def r5(ctx, r):
    fb = ctx.fb()
    n = 0
    for f in fb.in_file(FILE):
        if not f.ok or f.cls != UDP:
            continue
        ers = common.member_calls_on(f, UDP + "::_peerIndex", ("erase", "clear"))
        if not ers:
            continue
        vocab = Vocab(["own"])

        def leaf(nn):
            cp = common.cmp_parts(nn)
            if cp and cp[0] == "==":
                l, rr = strip_casts(cp[1]), strip_casts(cp[2])
                for a, b in ((l, rr), (rr, l)):
                    if a.get("k") == "member" and last(a["n"]) == "second" and (b.get("k") == "var" or b.get("k") == "member") and last(b.get("n", "")) in ("sid", "id"):
                        return A("own")
            return None
        pa = PredAbs(f, vocab, leaf, lambda e: None, track_bools=True)
        for e in ers:
            n += 1
            r.instance()
            if last(f.name) == "shutdownDrain":
                # every session is closed in this one pass on the I/O thread and nothing reads the index in between
                reads = [x for x in f.stmts() if x.node.get("k") == "mcall" and x.node.get("callee") in (UDP + "::readFromListener", UDP + "::onListener", UDP + "::handleFdEvent")]
                r.expect(not reads, f, e, "shutdownDrain dispatches", "shutdownDrain erases index entries unconditionally and also dispatches datagrams", okdesc="shutdownDrain: whole index dropped in one pass, no dispatch (exempt)")
                continue
            r.expect(last(e.node["callee"]) == "erase" and pa.entails(e, A("own")), f, e, "unowned peer-index erase",
                     "%s erases a peer-index entry without having checked that it maps to the closing session: the index is written conditionally (connect-via-listener does not "
                     "re-index an existing peer), so this can unroute another session's datagrams" % short(f.name), okdesc="%s: erase only when pit->second == sid" % short(f.name))
    if n < 2:
        raise AnalysisBroken("expected peer-index erase sites in closeNow and shutdownDrain, found %d" % n)
    # the premise: the conditional write is still there
    via = fn(ctx, "viaDo")
    idx = common.member_calls_on(via, UDP + "::_peerIndex", ("emplace", "insert"))
    r.instance()
    r.expect(len(idx) == 1, via, None, "viaDo indexing", "viaDo has %d index insertions" % len(idx), okdesc="viaDo indexes the new session only if the peer is not indexed")


def r6(ctx, r):
    fb = ctx.fb()
    for f in fb.in_file(FILE):
        if not f.ok or f.cls != UDP:
            continue
        for e in common.member_calls_on(f, UDP + "::_peerIndex", ("emplace", "insert", "try_emplace")):
            r.instance()
            v = show(e.node["args"][1]) if len(e.node["args"]) > 1 else "?"
            ins = [i for i in common.member_calls_on(f, UDP + "::_sessions", ("emplace",)) if elem_dominates(f, i, e)]
            ok = False
            for i in ins:
                k = show(i.node["args"][0])
                if k == v or (k == "s->id" and any(show(x.node).replace(" ", "") == "s->id=%s" % v for x in f.stmts() if x.node.get("k") == "bin")):
                    ok = True
            r.expect(ok, f, e, "index value without session", "%s indexes `%s` which is not the id of a session inserted on the same path: the next datagram from that peer "
                     "dereferences a session that does not exist" % (short(f.name), v), okdesc="%s: indexed id is the inserted session's" % short(f.name))
    # index entries are never overwritten (emplace/insert keep an existing entry; operator[] / insert_or_assign take it over)
    for f in fb.in_file(FILE):
        if not f.ok or f.cls != UDP:
            continue
        for (g, e, n, kind) in [(f, f.elem_for(n), n, access.classify(f, n)) for n in f.nodes.values() if n.get("k") == "member" and n["n"] == UDP + "::_peerIndex"]:
            par = f.nodes.get(f.parent.get(n["id"]))
            if par is None:
                continue
            m = last(par.get("callee", "")) if par.get("k") in ("mcall", "opcall") else ""
            if m in ("operator[]", "insert_or_assign", "at") and kind in ("write", "rw"):
                r.instance()
                r.fail(f, e, "peer index overwritten", "%s writes the peer index with `%s`, which replaces an existing entry: a peer that already has a receiving session is re-routed to "
                       "another session (and un-routed when that one closes)" % (short(f.name), show(f.nodes.get(f.parent.get(par["id"]), par))[:80]))
    cn = fn(ctx, "closeNow")
    vocab = Vocab(["client", "idx"])

    def leaf(n):
        if n.get("k") == "bin" and n["op"] in ("==", "!=") and any(x.get("k") == "enum" and last(x["n"]) == "ClientConnected" for x in walk(n)):
            return A("client") if n["op"] == "==" else Not(A("client"))
        return None
    touched = common.member_calls_on(cn, UDP + "::_peerIndex", ("find", "erase"))

    def eff(e):
        if e in touched:
            return [("set", "idx", True)]
        return None
    pa = PredAbs(cn, vocab, leaf, eff, init=Not(A("idx")))
    for e in common.member_calls_on(cn, UDP + "::_sessions", ("erase",)):
        r.instance()
        r.expect(pa.entails(e, Or(A("client"), A("idx"))), cn, e, "index not cleaned", "a listener-side session is erased from _sessions on a path that never consulted the peer index: "
                 "a stale index entry makes the next datagram from that peer hit a missing session", okdesc="closeNow: ServerPeer sessions leave through the index clean-up")
    r.floor(3, "index coherence sites")


def r7(ctx, r):
    """Sockets are registered edge-triggered: a wake-up is the only notification for everything queued in the socket at that
    moment.  So a receive loop may stop only on would-block / error / (connected socket) the zero-length event: after a positive
    receive every path returns to the receive call."""
    for name in ("readFromListener", "onClient"):
        f = fn(ctx, name)
        reads = calls(f, RECV)
        if len(reads) != 1:
            raise AnalysisBroken("%s: %d receive calls" % (name, len(reads)))
        rd = reads[0]
        nv = _result_var(f, rd)
        if nv is None:
            raise AnalysisBroken("%s: receive result not kept" % name)
        vocab = Vocab(["npos"])

        def leaf(n, nv=nv):
            if n.get("k") == "bin" and n["op"] in (">", "<=", "<", "==", ">="):
                l, rr = strip_casts(n["lhs"]), strip_casts(n["rhs"])
                if l.get("k") == "var" and l["n"] == nv and const_value(rr) == 0 and rr.get("k") == "int":
                    return {">": A("npos"), "<=": Not(A("npos")), "<": Not(A("npos")), "==": Not(A("npos")), ">=": None}[n["op"]]
            return None

        def eff(e, rd=rd):
            if e is rd:
                return [("set", "npos", True)]
            return None
        pa = PredAbs(f, vocab, leaf, eff, init=Not(A("npos")))
        r.instance()
        w = search(f, rd, "exit", stop=lambda x, rd=rd: x is rd or (x.kind == "stmt" and x.node.get("k") == "mcall" and last(x.node.get("callee", "")) == "closeNow"),
                   eh=False, edge_ok=lambda b, si: pa.edge_feasible(b, si))
        r.expect(w is None, f, rd, "%s: receive loop stops before would-block" % name,
                 "after a datagram was received (n > 0) %s can leave the receive loop without receiving again: with edge-triggered epoll the datagrams still queued in the socket are not delivered "
                 "until some later datagram causes a new edge — never, if the peer stays quiet" % name, witness=witness_str(f, w), okdesc="%s: n > 0 always returns to the receive call" % name)
        # the sockets really are edge-triggered or the loop is the only reader: nothing else to check here


CSIZE = {"unsigned short": 2, "in_port_t": 2, "in_addr": 4, "in6_addr": 16, "unsigned int": 4, "uint32_t": 4, "sa_family_t": 2, "unsigned char": 1, "char": 1}
FAMILY_FIELDS = {"sockaddr_in": {"sin_port", "sin_addr"}, "sockaddr_in6": {"sin6_port", "sin6_addr"}}


def r8(ctx, r):
    """The peer index maps key(source address) to a session: two different (family, address, port) triples must never share a
    key, or one peer's datagrams arrive on another peer's session.  Decided for the two ways the key can be built."""
    f = fn(ctx, "key")
    gni = [e for e in f.stmts() if e.node.get("k") == "call" and e.node.get("callee") == "getnameinfo"]
    copies = [e for e in f.stmts() if e.node.get("k") in ("mcall", "call") and last(e.node.get("callee", "")) in ("assign", "append", "memcpy", "insert")
              and any(x.get("k") == "un" and x.get("op") == "&" and (x.get("v") or {}).get("k") == "member" for a in e.node.get("args", []) for x in walk(a))]
    r.instance()
    if gni:
        n = gni[0].node
        a = n["args"]
        flags = const_value(a[6]) if len(a) > 6 else None
        sizes = [const_value(x) for x in (a[3], a[5])]
        bufs = [strip_casts(a[2]), strip_casts(a[4])]
        ok_bufs = all(b.get("k") == "var" for b in bufs) and all(sz and sz >= need for sz, need in zip(sizes, (46, 6)))
        r.expect(flags is not None and (flags & 3) == 3, f, gni[0], "key: name lookup", "key() calls getnameinfo without NI_NUMERICHOST|NI_NUMERICSERV (flags %s): the key depends on resolver state, not on the address" % flags,
                 okdesc="getnameinfo numeric host and service")
        r.instance()
        r.expect(ok_bufs, f, gni[0], "key: truncated text", "key() gives getnameinfo buffers of %s bytes: a numeric IPv6 host needs 46, a port 6" % sizes, okdesc="host/service buffers large enough")
        # the address length handed in covers the whole sockaddr of the family
        sl = strip_casts(a[1])
        if sl.get("k") == "var":
            for e in f.stmts():
                if e.node.get("k") == "decl":
                    for dv in e.node["vars"]:
                        if dv["d"] == sl.get("d") and dv.get("init") is not None:
                            sl = strip_casts(dv["init"])
        r.instance()
        lens = sorted(x.get("cv") for x in walk(sl) if x.get("k") == "sizeof" and x.get("cv"))
        r.expect(lens == [16, 28] or lens == [128], f, gni[0], "key: address length", "the length given to getnameinfo is %s, expected sizeof(sockaddr_in)/sizeof(sockaddr_in6)" % lens, okdesc="salen = sizeof(sockaddr_in) : sizeof(sockaddr_in6)")
        # both texts are part of the returned key
        hn, sn = bufs[0].get("n"), bufs[1].get("n")
        succ = [e for e in common.returns(f) if any(c.get("k") in ("call",) and c.get("callee") == "getnameinfo" and t for (c0, t) in __import__("iora_sa.finite", fromlist=["x"]).dominating_facts(f, e) for c in walk(c0))]
        used = set()
        for e in f.stmts():
            if e.node.get("k") in ("decl", "mcall", "ctor", "opcall"):
                for x in walk(e.node):
                    if x.get("k") == "var" and x.get("n") in (hn, sn) and e.node.get("k") != "call":
                        used.add(x["n"])
        r.instance()
        r.expect({hn, sn} <= used and bool(succ), f, gni[0], "key: host or port missing", "the key is built from %s only: peers that differ in the other part share a key" % (sorted(used) or "nothing"),
                 okdesc="key = numeric host + ':' + numeric port")
    elif copies:
        covered = {}
        for e in copies:
            n = e.node
            args = n.get("args", [])
            src = next((x for a_ in args for x in walk(a_) if x.get("k") == "un" and x.get("op") == "&" and (x.get("v") or {}).get("k") == "member"), None)
            ln = next((a_ for a_ in args if strip_casts(a_).get("k") in ("sizeof", "int")), None)
            fld = src["v"]
            rec, fname = fld["n"].rsplit("::", 1)
            want = CSIZE.get(fld.get("t"))
            if want is None:
                raise AnalysisBroken("key(): size of %s (%s) not in the table" % (fld["n"], fld.get("t")))
            got = const_value(ln) if ln is not None else None
            r.instance()
            r.expect(got == want, f, e, "key: %s truncated" % fname, "key() copies %s bytes of %s, which is %d bytes wide: addresses that differ only in the remaining bytes share a key and are folded into one session"
                     % (got, fld["n"], want), okdesc="key: whole %s" % fname)
            covered.setdefault(rec, set()).add(fname)
        for rec, need in FAMILY_FIELDS.items():
            r.instance()
            r.expect(need <= covered.get(rec, set()), f, None, "key: %s fields missing" % rec, "key() does not include %s of %s" % (sorted(need - covered.get(rec, set())), rec),
                     okdesc="key covers %s" % sorted(need))
    else:
        raise AnalysisBroken("UdpEngine::key: neither the getnameinfo form nor a raw field copy — shape not known to this rule")


def run(ctx, ck):
    ck.run_rule("C06-R1", "one receive → exactly one data event with the whole payload; fresh buffer per datagram", "A5 ghost counting + A2", lambda r: r1(ctx, r))
    ck.run_rule("C06-R2", "one command → at most one datagram, sent whole; queued whole; flushed whole", "A5 + shape", lambda r: r2(ctx, r))
    ck.run_rule("C06-R3", "destination comes from the addressed session", "A10 dataflow shape", lambda r: r3(ctx, r))
    ck.run_rule("C06-R4", "delivery session is chosen by source address; accept path indexes before announcing", "A2 + dataflow shape", lambda r: r4(ctx, r))
    ck.run_rule("C06-R5", "peer-index entries are erased only by their owner", "A5 contradiction rule", lambda r: r5(ctx, r))
    ck.run_rule("C06-R7", "receive loops drain the socket: after a datagram the loop always receives again (edge-triggered wake-ups)", "A5 + path search", lambda r: r7(ctx, r))
    ck.run_rule("C06-R8", "the peer-index key is injective in (family, address, port)", "closed-form shape rule over key(): numeric getnameinfo of the whole address, or whole-field byte copies", lambda r: r8(ctx, r))
    ck.run_rule("C06-R6", "peer index and session table stay coherent", "A2 + A5", lambda r: r6(ctx, r))
