"""C13 — JSON texts and values round-trip and agree with RFC 8259 (DESIGN.md §2 C13)."""
from ..cfg import search, witness_str, dominated_by_edge, dominators
from ..cursor import CursorProgram
from ..expr import show, walk, last, field_of, strip_wrappers, strip_casts, short, const_value
from ..facts import AnalysisBroken
from ..finite import compile_expr, NotPure, dominating_facts, interval_of
from ..rules import common
from ..window import lin, form, show_form, guard_ops, TOP
from ..expr import is_assign, assign_parts as _ap, strip_views


def assign_parts(n):
    """(lhs, rhs) of a plain assignment, else None"""
    if n.get("k") in ("bin", "opcall") and is_assign(n) and n.get("op") == "=":
        p = _ap(n)
        return p[0], p[2]
    return None

TITLE = "JSON texts and values round-trip and agree with RFC 8259"
TECHNIQUE = 'interprocedural cursor-window abstract interpretation (modular assume/guarantee summaries) over the recursive-descent parser; escape-table extraction from both switch statements; exact finite-domain evaluation of pure integer expressions (surrogate arithmetic, UTF-8 encoder) taken from the AST; dominance rules for limits'
JP = "iora::parsers::JsonParser"
JS = "iora::parsers::Json"
JF = "iora/parsers/json.hpp"
TEXT, POS = JP + "::_text", JP + "::_pos"

EXPLANATION = (
    "The round-trip and reference-agreement clauses quantify over all texts and values; what is decided statically are their structural "
    "necessary conditions in json.hpp. R1 cursor discipline: an interprocedural cursor-window abstract interpretation over every "
    "JsonParser method (lower bound on _text.size() - _pos; callee pre-conditions are the meet over call sites, post-conditions per "
    "return value) proves every _text[...] read, substr, pointer range handed to from_chars and every cursor advance stays inside the "
    "input, the cursor only moves forward, and hence the reported error offset lies inside the input. R2 limits precede growth and bound "
    "recursion. R3 the escape tables of parser and serializer are extracted from the two switch statements and compared with RFC 8259 §7 "
    "and with each other; the \\u arm must consume four hex digits twice for a pair, the pair-combination expression is evaluated exactly "
    "over the guard-delimited surrogate ranges against the UTF-16 definition, lone surrogates are rejected before encoding, the UTF-8 "
    "encoder's byte expressions are evaluated exactly over each branch's code-point interval against the UTF-8 definition, and in the "
    "serializer every byte of the input string reaches the output only behind the escape switch and the control-character test (a bulk "
    "copy must be guarded by a scan for all 34 characters that need escaping). R4 the serializer's type switch is exhaustive, doubles are "
    "formatted through a round-trip-safe precision (up to 17 significant digits, exit only on a strtod round-trip), never std::to_string, "
    "non-finite values never reach the formatter, and the result always re-parses as a Double. R5 every parser loop advances the cursor.")
NOT_DECIDED = ["agreement with a reference decoder for all texts (only the table/arithmetic/bounds conditions above)", "strtod/from_chars accuracy",
               "duplicate-key policy (last wins, by std::map assignment)", "pretty-printing/whitespace placement", "UTF-8 validity of raw (unescaped) bytes"]


def jp(ctx, name):
    return ctx.fb().func(JP + "::" + name, file_suffix=JF)


def parser_methods(ctx):
    fs = [f for f in ctx.fb().methods_of(JP) if f.ok and f.kind in ("method",)]
    if len(fs) < 11:
        raise AnalysisBroken("JsonParser: only %d methods with a CFG (floor 11)" % len(fs))
    return fs


def is_text(n):
    n = strip_casts(n)
    return n is not None and field_of(n) == TEXT


def is_pos(n):
    n = strip_casts(n)
    return n is not None and n.get("k") == "member" and field_of(n) == POS


SIZE_SYMS = {"_text.size()", "_text.length()", "this->_text.size()"}
CUR = "_pos"


def cursor_program(ctx):
    fb = ctx.fb()
    funcs = parser_methods(ctx)
    ptr_off = {}          # (function, local pointer name) -> constant offset from the cursor

    for f in funcs:
        for e in f.stmts():
            if e.node.get("k") == "decl":
                for v in e.node["vars"]:
                    i = v.get("init")
                    if i is None or "*" not in (v.get("t") or ""):
                        continue
                    fm = lin(i)
                    if fm is not None and "_text.data()" in fm[1] and list(fm[1]).count(CUR) == 1 and len(fm[1]) == 2:
                        ptr_off[(f, v["n"])] = fm[0]

    def local_cursor(f):
        """a local index variable used to subscript _text (e.g. the line/column scan)"""
        out = set()
        for e in f.stmts():
            n = e.node
            if n.get("k") == "opcall" and n.get("op") == "[]" and is_text(n["args"][0]):
                fm = lin(n["args"][1])
                if fm and CUR not in fm[1] and len(fm[1]) == 1:
                    out.add(fm[1][0])
        return out

    def elem_ops(f, e):
        n = e.node
        k = n.get("k")
        ops = []
        if k == "opcall" and n.get("op") == "[]" and is_text(n["args"][0]):
            fm = lin(n["args"][1])
            if fm is not None and list(fm[1]).count(CUR) == 1:
                ops.append(("need", form(fm[0] + 1, [s for s in fm[1] if s != CUR]), "_text[%s]" % show(n["args"][1])))
            elif fm is not None and len(fm[1]) == 1 and fm[1][0] in local_cursor(f):
                return None       # separate window (local index) below
            else:
                ops.append(("need", TOP, "_text[%s] (index not linear in the cursor)" % show(n["args"][1])))
        elif k == "mcall" and is_text(n.get("obj")) and last(n.get("callee", "")) == "at":
            return None           # checked access
        elif k == "mcall" and is_text(n.get("obj")) and last(n.get("callee", "")) == "substr" and n.get("args"):
            fm = lin(n["args"][0])
            if fm is not None and list(fm[1]).count(CUR) == 1:
                ops.append(("need", form(fm[0], [s for s in fm[1] if s != CUR]), "_text.substr(%s, …) start" % show(n["args"][0])))
        elif k == "un" and n.get("op") in ("++", "pre++", "post++") and is_pos(n["v"]):
            ops.append(("adv", form(1), "++_pos"))
        elif k == "un" and n.get("op") in ("--", "pre--", "post--") and is_pos(n["v"]):
            ops.append(("need", TOP, "--_pos (cursor moves backwards)"))
        elif k == "bin" and n.get("op") == "+=" and is_pos(n["lhs"]):
            fm = lin(n["rhs"])
            if fm is None or fm[1] or fm[0] < 0:
                ops.append(("need", TOP, "_pos += %s (not a non-negative constant)" % show(n["rhs"])))
                ops.append(("reset", None))
            else:
                ops.append(("adv", fm, "_pos += %s" % show(n["rhs"])))
        elif k == "bin" and n.get("op") in ("=", "-=") and is_pos(n["lhs"]):
            ops.append(("need", TOP, "_pos %s %s (cursor re-based)" % (n["op"], show(n["rhs"]))))
            ops.append(("reset", None))
        elif k == "call" and n.get("args"):
            # pointer ranges into the text: f(p, p + N, …)
            a = [strip_casts(x) for x in n["args"]]
            for i, x in enumerate(a):
                if x.get("k") == "var" and (f, x["n"]) in ptr_off:
                    off = ptr_off[(f, x["n"])]
                    nxt = lin(a[i + 1]) if i + 1 < len(a) else None
                    if nxt is not None and list(nxt[1]) == [x["n"]]:
                        ops.append(("need", form(off + nxt[0]), "%s(%s, %s + %d, …)" % (last(n.get("callee", "?")), x["n"], x["n"], nxt[0])))
                    else:
                        ops.append(("need", TOP, "%s reads from `%s` without an end pointer" % (last(n.get("callee", "?")), x["n"])))
                    break
        elif k == "un" and n.get("op") == "*" and strip_casts(n["v"]).get("k") == "var" and (f, strip_casts(n["v"])["n"]) in ptr_off:
            ops.append(("need", form(ptr_off[(f, strip_casts(n["v"])["n"])] + 1), "*%s" % strip_casts(n["v"])["n"]))
        return ops or None

    def edge_ops(f, c, truth, prog):
        def extra(x, t):
            x = strip_casts(x)
            g = prog.callee(x) if x.get("k") in ("mcall", "call") else None
            if g is not None:
                p = prog.post_true[g] if t else prog.post_false[g]
                return [("atleast", p)]
            # _text.substr(_pos + k, n) == "lit"  (true): the text has k + len(lit) more bytes
            cp = common.cmp_parts(x)
            if cp and cp[0] in ("==", "!=") and (t if cp[0] == "==" else not t):
                for a, b in ((cp[1], cp[2]), (cp[2], cp[1])):
                    a, b = strip_wrappers(a), strip_wrappers(b)
                    if a.get("k") == "mcall" and is_text(a.get("obj")) and last(a.get("callee", "")) == "substr" and a.get("args"):
                        fm = lin(a["args"][0])
                        lit = [y for y in walk(b) if y.get("k") == "str"]
                        if fm is not None and list(fm[1]) == [CUR] and len(lit) == 1 and lit[0].get("v"):
                            return [("atleast", form(fm[0] + len(lit[0]["v"].encode("utf-8"))))]
            return None
        return guard_ops(c, truth, CUR, SIZE_SYMS, extra)

    parse = jp(ctx, "parse")
    prog = CursorProgram(funcs, {parse: form(0)}, elem_ops, edge_ops)
    return prog, funcs, local_cursor


def r1(ctx, r):
    fb = ctx.fb()
    prog, funcs, local_cursor = cursor_program(ctx)
    # the entry invariant: the constructor starts the cursor at 0
    ctor = [f for f in fb.methods_of(JP) if f.kind == "ctor" and f.ok]
    r.instance()
    okc = False
    for c in ctor:
        for e in c.elems():
            if e.kind == "init" and e.node.get("field", e.node.get("n", "")).endswith("_pos"):
                okc = const_value(strip_casts(e.node.get("v") or {})) == 0
    r.expect(okc, ctor[0] if ctor else JP, None, "cursor start", "the JsonParser constructor does not start _pos at 0 (entry invariant 0 <= size - _pos of the window analysis)",
             okdesc="JsonParser(): _pos(0)")
    nreq = len(prog.checked) + len(prog.violations)
    if nreq < 60:
        raise AnalysisBroken("only %d cursor reads/advances recognised in JsonParser (floor 60)" % nreq)
    r.instance(nreq)
    for (f, e, what) in prog.checked:
        r.ok("%s: %s inside the input" % (last(f.name), what))
    for (f, e, need, have, what) in prog.violations:
        r.fail(f, e, "outside input: %s" % what.split(" (")[0], "%s performs `%s`, which needs %s byte(s) between the cursor and the end of the text, but only %s %s known to remain on some path%s: "
               "the parser reads or moves past the end of the input (undefined behaviour on a string_view; error offset outside the input)"
               % (last(f.name), what, show_form(need) if need != TOP else "a bound the analysis cannot establish", show_form(have), "is" if have == ((1, ()),) else "are", prog.describe_site(f)))
    # local index cursors (line/column scan)
    from ..window import Window
    for f in funcs:
        for lc in sorted(local_cursor(f)):
            def el(e, f=f, lc=lc):
                n = e.node if e.kind == "stmt" else None
                if n is None:
                    return None
                if n.get("k") == "opcall" and n.get("op") == "[]" and is_text(n["args"][0]):
                    fm = lin(n["args"][1])
                    if fm and list(fm[1]) == [lc]:
                        return [("need", form(fm[0] + 1), "_text[%s]" % show(n["args"][1]))]
                if n.get("k") == "un" and n.get("op") in ("++", "pre++", "post++") and strip_casts(n["v"]).get("n") == lc:
                    return [("adv", form(1), "++%s" % lc)]
                if n.get("k") == "bin" and n.get("op") in ("=", "+=", "-=") and strip_casts(n["lhs"]).get("n") == lc:
                    return [("reset", None)]
                return None
            w = Window(f, lambda c, t, lc=lc: guard_ops(c, t, lc, SIZE_SYMS), el, init=None)
            r.instance(len(w.checked) + len(w.violations))
            for (e, what) in w.checked:
                r.ok("%s: %s inside the input (index %s)" % (last(f.name), what, lc))
            for (e, need, have, what) in w.violations:
                r.fail(f, e, "outside input: %s" % what, "%s reads `%s` with no dominating `%s < _text.size()` test" % (last(f.name), what, lc))
    # the reported offset is the cursor
    gl = jp(ctx, "_getLocation")
    r.instance()
    offs = [e for e in gl.stmts() if assign_parts(e.node) and show(assign_parts(e.node)[0]).endswith("offset")]
    r.expect(len(offs) == 1 and is_pos(strip_casts(assign_parts(offs[0].node)[1])), gl, offs[0] if offs else None, "error offset source",
             "the reported error offset is not the parser cursor (which R1 keeps inside [0, size])", okdesc="error offset = _pos")
    r.note("summaries: " + "; ".join("%s pre>=%s post(true)>=%s" % (last(f.name), show_form(prog.pre[f]), show_form(prog.post_true[f])) for f in funcs))


def _loop_guard_path(f, app, chk_block):
    """an append element can be reached again from itself without passing the limit check block"""
    return search(f, app, lambda x: x is app, stop=lambda x: x.block is chk_block, eh=False)


def pn_(ctx):
    return jp(ctx, "_parseNumber")


def r2(ctx, r):
    fb = ctx.fb()
    pv, pa, po, ps = jp(ctx, "_parseValue"), jp(ctx, "_parseArray"), jp(ctx, "_parseObject"), jp(ctx, "_parseString")
    # recursion: depth test dominates the container calls; every cycle increments depth
    def limit_test(b, what, limit):
        """operator of `what OP _limits.limit` in block b's condition, whichever way round it is written"""
        co = common.cmp_oriented(b.cond, lambda x: limit in show(x)) if b.cond is not None else None
        return co[0] if co and show(strip_casts(co[1])) == what else None
    chk = [b for b in pv.blocks.values() if limit_test(b, "depth", "depthMax") in (">", ">=")]
    r.instance()
    if not r.expect(len(chk) == 1, pv, None, "depth test", "_parseValue no longer compares `depth` with _limits.depthMax", okdesc="_parseValue: depth > depthMax test present"):
        return
    cb = chk[0]
    calls = [e for e in pv.stmts() if e.node.get("k") == "mcall" and e.node.get("callee") in (pa.name, po.name)]
    if len(calls) < 2:
        raise AnalysisBroken("_parseValue: container calls not found")
    for e in calls:
        r.instance()
        r.expect(dominated_by_edge(pv, e, cb, 1, eh=False), pv, e, "unbounded recursion: %s" % last(e.node["callee"]),
                 "_parseValue reaches %s on a path that does not pass the false edge of `depth > depthMax`: nesting depth (and stack use) is not bounded by the limit" % last(e.node["callee"]),
                 okdesc="%s behind the depth test" % last(e.node["callee"]))
        dp = strip_casts(e.node["args"][-1])
        r.instance()
        r.expect(dp.get("k") == "var" and dp["n"] == "depth", pv, e, "depth forwarded: %s" % last(e.node["callee"]), "_parseValue does not forward its depth to %s" % last(e.node["callee"]), okdesc="depth forwarded")
    # the true edge returns false without recursing
    r.instance()
    tb = pv.blocks[cb.succs[0]]
    r.expect(any(e.node.get("k") == "ret" and const_value(strip_casts(e.node.get("v") or {})) == 0 for e in tb.elems if e.kind == "stmt"), pv, None, "depth overflow not an error",
             "exceeding depthMax does not return false", okdesc="depth overflow → return false")
    for g in (pa, po):
        rec = [e for e in g.stmts() if e.node.get("k") == "mcall" and e.node.get("callee") == pv.name]
        if not rec:
            raise AnalysisBroken("%s: recursive _parseValue call not found" % last(g.name))
        for e in rec:
            fm = lin(e.node["args"][-1])
            r.instance()
            r.expect(fm is not None and list(fm[1]) == ["depth"] and fm[0] >= 1, g, e, "depth not incremented", "%s recurses into _parseValue with depth argument `%s` (must be depth + k, k >= 1, or the depth limit never triggers)"
                     % (last(g.name), show(e.node["args"][-1])), okdesc="%s: _parseValue(…, depth + %s)" % (last(g.name), fm[0] if fm else "?"))
    # any other recursion inside the parser family must go through _parseValue
    fam = {f.name: f for f in parser_methods(ctx)}
    for f in fam.values():
        for e in f.stmts():
            if e.node.get("k") == "mcall" and e.node.get("callee") in (pa.name, po.name) and f is not pv:
                r.instance()
                r.fail(f, e, "container parser called outside _parseValue", "%s calls %s directly, bypassing the depth test in _parseValue" % (last(f.name), last(e.node["callee"])))
    # size limits precede growth
    specs = [
        (pa, "arr", ("push_back", "emplace_back", "insert"), "arrayItemsMax", ">="),
        (po, "obj", ("operator[]", "insert", "emplace", "insert_or_assign", "try_emplace"), "membersMax", ">="),
    ]
    for (g, var, growers, limit, _) in specs:
        apps = []
        for e in g.stmts():
            n = e.node
            if n.get("k") == "mcall" and last(n.get("callee", "")) in growers and strip_casts(n.get("obj") or {}).get("n") == var:
                apps.append(e)
            if n.get("k") == "opcall" and n.get("op") == "[]" and strip_casts(n["args"][0]).get("n") == var:
                apps.append(e)
        cbs = [b for b in g.blocks.values() if limit_test(b, var + ".size()", limit)]
        if not apps:
            raise AnalysisBroken("%s: no growth site of `%s` found" % (last(g.name), var))
        for e in apps:
            r.instance()
            ok = len(cbs) == 1 and limit_test(cbs[0], var + ".size()", limit) in (">=", ">") and dominated_by_edge(g, e, cbs[0], 1, eh=False) and _loop_guard_path(g, e, cbs[0]) is None
            r.expect(ok, g, e, "growth before limit: %s" % var, "%s grows `%s` on a path (or loop iteration) that does not pass the false edge of `%s.size() >= _limits.%s`" % (last(g.name), var, var, limit),
                     okdesc="%s: %s grows only behind the %s test" % (last(g.name), var, limit))
    # duplicate keys: the later member replaces the earlier one (what RFC 8259 leaves open, every common decoder — and the
    # property's reference decoder — resolves as "last wins")
    stores = [e for e in po.stmts() if (e.node.get("k") == "mcall" and last(e.node.get("callee", "")) in ("emplace", "insert", "try_emplace", "insert_or_assign", "emplace_hint") and strip_casts(e.node.get("obj") or {}).get("n") == "obj")
              or (assign_parts(e.node) and strip_casts(assign_parts(e.node)[0]).get("k") == "opcall" and strip_casts(assign_parts(e.node)[0]).get("op") == "[]" and strip_casts(strip_casts(assign_parts(e.node)[0])["args"][0]).get("n") == "obj")]
    r.instance()
    if not stores:
        raise AnalysisBroken("_parseObject: member store not found")
    okd = all((e.node.get("k") != "mcall") or last(e.node.get("callee", "")) == "insert_or_assign" for e in stores)
    r.expect(okd, po, stores[0], "duplicate key keeps the first value", "_parseObject stores a member with %s, which leaves an existing key untouched: for `{\"a\":1,\"a\":2}` the first value wins, while the reference decoder "
             "(and the assignment `obj[key] = value`) keep the last" % (last(stores[0].node.get("callee", "")) if stores[0].node.get("k") == "mcall" else "?"), okdesc="duplicate keys: last member wins (assignment through operator[])")
    # integers that do not fit 64 bits fall back to the floating-point conversion instead of failing
    ib = [b for b in pn_(ctx).blocks.values() if b.cond is not None and common.cmp_parts(b.cond) and ".ec" in show(common.cmp_parts(b.cond)[1]) and "errc" in show(common.cmp_parts(b.cond)[2])]
    r.instance()
    okf = len(ib) == 1
    if okf:
        f_ = pn_(ctx)
        op = common.cmp_parts(ib[0].cond)[0]
        fail_edge = 1 if op == "==" else 0
        els = []
        work, seenb = [ib[0].succs[fail_edge]], set()
        while work:
            bb = work.pop()
            if bb is None or bb in seenb or bb == ib[0].id:
                continue
            seenb.add(bb)
            els.extend(f_.blocks[bb].elems)
            if len(seenb) < 4:
                work.extend(f_.blocks[bb].succs)
        okf = any(x.kind == "stmt" and x.node.get("k") in ("call", "mcall") and last(x.node.get("callee", "")) in ("strtod", "stod", "_toDouble", "from_chars") for x in els) and \
            not any(x.kind == "stmt" and x.node.get("k") == "ret" and const_value(strip_casts(x.node.get("v") or {})) == 0 for x in els[:6])
    r.expect(okf, pn_(ctx), None, "integer overflow not decoded", "an integer literal that does not fit std::int64_t (from_chars reports an error) is not converted as a floating-point number: valid texts such as 1e19 written as "
             "10000000000000000000 are rejected or decoded wrongly", okdesc="int64 overflow → floating-point conversion")
    # string length
    apps = [e for e in ps.stmts() if (e.node.get("k") == "opcall" and e.node.get("op") == "+=" and strip_casts(e.node["args"][0]).get("n") == "str")
            or (e.node.get("k") in ("call", "mcall") and any(strip_casts(a).get("n") == "str" and "&" in (strip_casts(a).get("t") or "&") for a in e.node.get("args", [])) and last(e.node.get("callee", "")) not in ("move", "Json"))
            or (e.node.get("k") == "mcall" and strip_casts(e.node.get("obj") or {}).get("n") == "str" and last(e.node.get("callee", "")) in ("push_back", "append", "insert"))]
    cbs = [b for b in ps.blocks.values() if limit_test(b, "str.size()", "stringLengthMax") in (">", ">=")]
    if len(apps) < 9:
        raise AnalysisBroken("_parseString: only %d appends to `str` found (floor 9)" % len(apps))
    for e in apps:
        r.instance()
        ok = len(cbs) == 1 and dominated_by_edge(ps, e, cbs[0], 1, eh=False) and _loop_guard_path(ps, e, cbs[0]) is None
        r.expect(ok, ps, e, "string growth before limit", "_parseString appends to `str` (%s) on a path or iteration that does not pass the stringLengthMax test" % show(e.node)[:40], okdesc="_parseString: append behind the stringLengthMax test")


RFC_ESC = {ord('"'): ord('"'), ord('\\'): ord('\\'), ord('/'): ord('/'), ord('b'): 8, ord('f'): 12, ord('n'): 10, ord('r'): 13, ord('t'): 9}
MUST_ESCAPE = set(range(32)) | {ord('"'), ord('\\')}


def switch_on(f, varname):
    bs = [b for b in f.blocks.values() if b.term and b.term.get("k") == "SwitchStmt" and b.cond is not None and strip_casts(b.cond).get("n") == varname]
    if len(bs) != 1:
        raise AnalysisBroken("%s: %d switch statements over `%s`" % (last(f.name), len(bs), varname))
    return bs[0]


def arm_elems(f, sw, si):
    """elements reachable from the si-th switch edge up to the switch's follow block (the target of its `break`s)"""
    from collections import Counter
    reach, work = set(), [s for s in sw.succs if s is not None]
    while work:
        b = work.pop()
        if b in reach:
            continue
        reach.add(b)
        work.extend(s for s in f.blocks[b].succs if s is not None)
    tgt = Counter(s for b in reach for s in f.blocks[b].succs if f.blocks[b].term and f.blocks[b].term.get("k") == "BreakStmt" and s is not None)
    follow = tgt.most_common(1)[0][0] if tgt else None
    out, seen, work = [], set(), [sw.succs[si]]
    while work:
        b = work.pop()
        if b in seen or b is None or b == follow or b == sw.id:
            continue
        seen.add(b)
        out.extend(f.blocks[b].elems)
        for s in f.blocks[b].succs:
            work.append(s)
    return out, seen


def r3(ctx, r):
    fb = ctx.fb()
    ps, es = jp(ctx, "_parseString"), fb.func(JS + "::_escapeString", file_suffix=JF)
    # ---- parser table
    sw = switch_on(ps, "c")
    ptable, uarm, default_si = {}, None, None
    for si in range(len(sw.succs)):
        lab = sw.edge_label(si)
        if lab == "default":
            default_si = si
            continue
        if not lab:
            continue
        cv = const_value(lab[1])
        els, blocks = arm_elems(ps, sw, si)
        apps = [e for e in els if e.kind == "stmt" and e.node.get("k") == "opcall" and e.node.get("op") == "+=" and strip_casts(e.node["args"][0]).get("n") == "str"]
        if cv == ord('u'):
            uarm = (si, els, blocks)
            continue
        r.instance()
        val = const_value(strip_casts(apps[0].node["args"][1])) if len(apps) == 1 else None
        want = RFC_ESC.get(cv)
        r.expect(want is not None and val == want, ps, apps[0] if apps else None, "escape \\%s" % (chr(cv) if cv and 32 < cv < 127 else cv),
                 "_parseString decodes the escape `\\%s` to %s; RFC 8259 §7 defines %s" % (chr(cv) if cv and 32 < cv < 127 else cv, "0x%02x" % val if val is not None else "a non-constant / several appends",
                                                                                       "0x%02x" % want if want is not None else "no such escape"), okdesc="\\%s → 0x%02x" % (chr(cv), val or 0))
        ptable[cv] = val
    r.instance()
    missing = sorted(set(RFC_ESC) - set(ptable))
    r.expect(not missing, ps, None, "escape missing", "_parseString has no arm for the RFC 8259 escapes %s: valid texts are rejected" % ", ".join("\\" + chr(c) for c in missing), okdesc="all 8 single-character escapes have an arm")
    r.instance()
    dels = arm_elems(ps, sw, default_si)[0] if default_si is not None else []
    r.expect(default_si is not None and any(e.kind == "stmt" and e.node.get("k") == "ret" and const_value(strip_casts(e.node.get("v") or {})) == 0 for e in dels)
             and not any(e.kind == "stmt" and e.node.get("k") == "opcall" and e.node.get("op") == "+=" for e in dels), ps, None, "unknown escape accepted",
             "an escape letter outside the RFC 8259 table is not rejected", okdesc="unknown escape → error")
    # ---- \u arm
    r.instance()
    if not r.expect(uarm is not None, ps, None, "escape \\u missing", "_parseString has no arm for \\uXXXX"):
        return
    si, els, blocks = uarm
    hex4 = jp(ctx, "_parseHex4")
    hcalls = [e for e in els if e.kind == "stmt" and e.node.get("k") == "mcall" and e.node.get("callee") == hex4.name]
    enc = [e for e in els if e.kind == "stmt" and e.node.get("k") in ("call", "mcall") and last(e.node.get("callee", "")) == "_appendUtf8"]
    raw_apps = [e for e in els if e.kind == "stmt" and e.node.get("k") == "opcall" and e.node.get("op") == "+=" and strip_casts(e.node["args"][0]).get("n") == "str"]
    r.instance()
    if not r.expect(len(hcalls) == 2 and len(enc) == 1 and not raw_apps, ps, (raw_apps or [None])[0], "\\u decoding shape",
                    "the \\u arm must read four hex digits (twice for a surrogate pair) and append the UTF-8 encoding of the decoded code point; found %d _parseHex4 calls, %d encoder calls, %d literal appends"
                    % (len(hcalls), len(enc), len(raw_apps)), okdesc="\\u arm: 2 hex reads, one UTF-8 append"):
        return
    hi_var = strip_casts(hcalls[0].node["args"][0]).get("n")
    lo_var = strip_casts(hcalls[1].node["args"][0]).get("n")
    cpv = strip_casts(enc[0].node["args"][1]).get("n")
    r.instance()
    r.expect(cpv == hi_var and elem_dom(ps, hcalls[0], enc[0]), ps, enc[0], "encoded value", "the value appended for \\u is `%s`, not the variable the hex digits were decoded into (`%s`)" % (cpv, hi_var),
             okdesc="appended code point is the decoded variable")
    # every hex read that fails returns false
    for h in hcalls:
        b = h.block
        r.instance()
        c, st, sf = common.branch(b)
        ok = c is not None and c is h.node and sf is not None
        tb = ps.blocks[sf] if ok else None
        r.expect(ok and any(e.kind == "stmt" and e.node.get("k") == "ret" and const_value(strip_casts(e.node.get("v") or {})) == 0 for e in tb.elems), ps, h, "hex failure ignored",
                 "a failing _parseHex4 does not make _parseString return false", okdesc="hex failure → return false")
    # hex4: 4 digits, base 16, all consumed
    fc = [e for e in hex4.stmts() if e.node.get("k") == "call" and last(e.node.get("callee", "")) == "from_chars"]
    r.instance()
    okh = False
    if len(fc) == 1:
        a = fc[0].node["args"]
        span = lin(a[1])
        base = const_value(strip_casts(a[3])) if len(a) > 3 else 10
        cmpok = any(common.cmp_parts(x) and common.cmp_parts(x)[0] == "!=" and ".ptr" in show(common.cmp_parts(x)[1]) and lin(common.cmp_parts(x)[2]) == span
                    for b in hex4.blocks.values() if b.cond is not None for x in walk(b.cond))
        outp = strip_casts(a[2]).get("parm") is not None or strip_casts(a[2]).get("k") == "var"
        okh = span is not None and span[0] == 4 and base == 16 and cmpok and outp
    r.expect(okh, hex4, fc[0] if fc else None, "hex digits", "_parseHex4 does not decode exactly four base-16 digits into its out-parameter with a full-consumption test", okdesc="_parseHex4: from_chars(first, first+4, unit, 16), ptr == first+4")
    # pair combination: exact evaluation over the guard-delimited ranges
    comb = [e for e in els if e.kind == "stmt" and assign_parts(e.node) and strip_casts(assign_parts(e.node)[0]).get("n") == cpv
            and any(x.get("k") == "var" and x["n"] == lo_var for x in walk(assign_parts(e.node)[1]))]
    r.instance()
    if r.expect(len(comb) == 1, ps, None, "surrogate pair not combined", "no assignment combines the two \\u units (`%s`, `%s`) of a surrogate pair into one code point" % (hi_var, lo_var)):
        e = comb[0]
        facts = dominating_facts(ps, e)
        hlo, hhi = interval_of(facts, hi_var)
        llo, lhi = interval_of(facts, lo_var)
        r.instance()
        if r.expect((hlo, hhi, llo, lhi) == (0xD800, 0xDBFF, 0xDC00, 0xDFFF), ps, e, "surrogate ranges",
                    "the pair combination is guarded by %s in [%s, %s] and %s in [%s, %s]; UTF-16 requires a high surrogate D800–DBFF followed by a low surrogate DC00–DFFF"
                    % (hi_var, hx(hlo), hx(hhi), lo_var, hx(llo), hx(lhi)), okdesc="pair guarded by hi∈[D800,DBFF], lo∈[DC00,DFFF]"):
            try:
                fn, t, code = compile_expr(assign_parts(e.node)[1], [hi_var, lo_var])
            except NotPure as ex:
                raise AnalysisBroken("pair combination expression is not a pure integer expression: %s" % ex)
            bad = None
            for h in range(hlo, hhi + 1):
                base = 0x10000 + ((h - 0xD800) << 10) - 0xDC00
                for l in range(llo, lhi + 1):
                    if fn(h, l) != base + l:
                        bad = (h, l, fn(h, l), base + l)
                        break
                if bad:
                    break
            r.instance()
            r.expect(bad is None, ps, e, "surrogate pair arithmetic", "the pair combination `%s` yields U+%X for \\u%04x\\u%04x; UTF-16 defines U+%X (0x10000 + ((hi-0xD800)<<10) + (lo-0xDC00))"
                     % ((show(assign_parts(e.node)[1]),) + ((bad[2], bad[0], bad[1], bad[3]) if bad else (0, 0, 0, 0))), okdesc="pair combination equals the UTF-16 definition on all 1048576 pairs")
            # no write to the units between their decoding and the combination other than the hex reads
    # lone surrogates rejected before encoding
    facts = dominating_facts(ps, enc[0])
    r.instance()
    sur = [b for b in ps.blocks.values() if b.id in blocks and b.cond is not None]
    okl = surrogate_excluded(ps, enc[0], cpv, blocks)
    r.expect(okl, ps, enc[0], "surrogate encoded", "a code point in D800–DFFF can reach the UTF-8 encoder (lone or mis-ordered surrogates must be rejected, or the output is not valid UTF-8 and does not round-trip)",
             okdesc="D800–DFFF rejected before encoding")
    r_utf8(ctx, r, jp(ctx, "_appendUtf8"), "cp", "str")
    # ---- serializer table
    r_escape(ctx, r, es, ptable)


def hx(v):
    return "%X" % v if v is not None else "unbounded"


def elem_dom(f, a, b):
    from ..cfg import elem_dominates
    return elem_dominates(f, a, b, eh=False)


def surrogate_excluded(f, enc, var, blocks):
    """no path reaches `enc` with var in [D800, DFFF]: interval dataflow restricted to the tests on `var`"""
    from ..predabs import Vocab, PredAbs, A, Not, And
    vocab = Vocab(["ge", "le"])

    def leaf(n):
        cp = common.cmp_parts(n)
        if cp and strip_casts(cp[1]).get("n") == var and const_value(cp[2]) is not None:
            if cp[0] == ">=" and const_value(cp[2]) == 0xD800:
                return A("ge")
            if cp[0] == "<=" and const_value(cp[2]) == 0xDFFF:
                return A("le")
            if cp[0] == "<" and const_value(cp[2]) == 0xD800:
                return Not(A("ge"))
            if cp[0] == ">" and const_value(cp[2]) == 0xDFFF:
                return Not(A("le"))
        return None

    def effects(e):
        if e.kind != "stmt":
            return None
        n = e.node
        ap = assign_parts(n)
        if ap and strip_casts(ap[0]).get("n") == var:
            return [("havoc", "ge"), ("havoc", "le")]
        if n.get("k") in ("call", "mcall") and e is not enc and any(strip_casts(a).get("n") == var for a in n.get("args", [])):
            return [("havoc", "ge"), ("havoc", "le")]
        if n.get("k") == "decl" and any(v["n"] == var for v in n["vars"]):
            return [("havoc", "ge"), ("havoc", "le")]
        return None
    pa = PredAbs(f, vocab, leaf, effects)
    return pa.entails(enc, Not(And(A("ge"), A("le"))))


def utf8_ref(cp):
    return list(chr(cp).encode("utf-8", "surrogatepass"))


def r_utf8(ctx, r, f, var, out):
    """the encoder's byte expressions, branch by branch, against the UTF-8 definition (exact over each interval)"""
    apps = [e for e in f.stmts() if e.node.get("k") == "opcall" and e.node.get("op") == "+=" and strip_casts(e.node["args"][0]).get("n") == out]
    if len(apps) != 10:
        raise AnalysisBroken("%s: %d byte appends (expected 1+2+3+4)" % (last(f.name), len(apps)))
    by_block = {}
    for e in apps:
        by_block.setdefault(e.block.id, []).append(e)
    covered = []
    for bid, es in sorted(by_block.items()):
        es.sort(key=lambda e: e.idx)
        facts = dominating_facts(f, es[0])
        lo, hi = interval_of(facts, var)
        lo = 0 if lo is None else lo
        hi = 0x10FFFF if hi is None else min(hi, 0x10FFFF)
        try:
            fns = [compile_expr(e.node["args"][1], [var])[0] for e in es]
        except NotPure as ex:
            raise AnalysisBroken("%s: byte expression not pure: %s" % (last(f.name), ex))
        bad = None
        for cp in range(lo, hi + 1):
            if 0xD800 <= cp <= 0xDFFF:
                continue
            got = [fn(cp) & 0xFF for fn in fns]
            if got != utf8_ref(cp):
                bad = (cp, got, utf8_ref(cp))
                break
        r.instance()
        r.expect(bad is None, f, es[0], "UTF-8 bytes for [%X,%X]" % (lo, hi), "%s encodes U+%X as %s; UTF-8 defines %s" % ((last(f.name),) + ((bad[0], bytes(bad[1]).hex(), bytes(bad[2]).hex()) if bad else (0, "", ""))),
                 okdesc="%s: %d-byte form exact on U+%X…U+%X" % (last(f.name), len(es), lo, hi))
        covered.append((lo, hi))
    covered.sort()
    r.instance()
    ok = covered and covered[0][0] == 0 and covered[-1][1] == 0x10FFFF and all(covered[i][1] + 1 == covered[i + 1][0] for i in range(len(covered) - 1))
    r.expect(ok, f, None, "UTF-8 ranges", "the encoder's branches cover %s instead of a partition of U+0…U+10FFFF" % covered, okdesc="encoder branches partition U+0…U+10FFFF")


def r_escape(ctx, r, es, ptable):
    sw = switch_on(es, "c")
    inv = {v: k for k, v in RFC_ESC.items() if k != ord('/')}
    cases = {}
    default_si = None
    for si in range(len(sw.succs)):
        lab = sw.edge_label(si)
        if lab == "default":
            default_si = si
            continue
        if not lab:
            continue
        cv = const_value(lab[1]) & 0xFF
        els, _ = arm_elems(es, sw, si)
        apps = [e for e in els if e.kind == "stmt" and e.node.get("k") == "opcall" and e.node.get("op") == "+=" and strip_casts(e.node["args"][0]).get("n") == "result"]
        lit = [x.get("v") for x in walk(apps[0].node["args"][1]) if x.get("k") == "str"] if len(apps) == 1 else []
        r.instance()
        ok = len(lit) == 1 and lit[0] is not None and len(lit[0]) == 2 and lit[0][0] == "\\" and ptable.get(ord(lit[0][1])) == cv and RFC_ESC.get(ord(lit[0][1])) == cv
        r.expect(ok, es, apps[0] if apps else None, "escape of 0x%02x" % cv, "_escapeString emits %r for the character 0x%02x, which the parser (and RFC 8259) decode to %s: the value does not round-trip"
                 % (lit[0] if lit else "?", cv, ("0x%02x" % ptable[ord(lit[0][1])]) if lit and lit[0] and len(lit[0]) == 2 and ptable.get(ord(lit[0][1])) is not None else "nothing / an error"),
                 okdesc="0x%02x → %s" % (cv, lit[0] if lit else "?"))
        cases[cv] = True
    for must in (ord('"'), ord('\\')):
        r.instance()
        r.expect(must in cases, es, None, "unescaped %s" % chr(must), "_escapeString has no arm for %r: the output is not valid JSON" % chr(must), okdesc="%r has an arm" % chr(must))
    # every other way input bytes reach the output
    param = es.params[0]["n"] if es.params and es.params[0].get("n") else "str"
    loopvars = {v["n"] for e in es.stmts() if e.node.get("k") == "decl" for v in e.node["vars"] if v["n"] == "c"}
    for e in es.stmts():
        n = e.node
        is_app = (n.get("k") == "opcall" and n.get("op") in ("+=", "+") and any(strip_casts(strip_wrappers(a)).get("n") in (param, "c") for a in n["args"])) or \
                 (n.get("k") == "mcall" and last(n.get("callee", "")) in ("append", "push_back", "insert", "assign") and any(strip_casts(strip_wrappers(a)).get("n") in (param, "c") or param + "." in show(a) for a in n.get("args", []))) or \
                 (n.get("k") == "ctor" and n.get("cls") == "std::basic_string" and any(strip_casts(strip_wrappers(a)).get("n") == param for a in n.get("args", [])))
        if not is_app:
            continue
        src = [strip_casts(strip_wrappers(a)).get("n") for a in n.get("args", []) if strip_casts(strip_wrappers(a)).get("n") in (param, "c")]
        r.instance()
        if src == ["c"] or (len(src) == 1 and src[0] == "c"):
            # raw character: only on the default edge and behind the control-character test
            ctl = [b for b in es.blocks.values() if b.cond is not None and common.cmp_parts(b.cond) and common.cmp_parts(b.cond)[0] in ("<", "<=")
                   and strip_casts(common.cmp_parts(b.cond)[1]).get("n") == "c" and const_value(common.cmp_parts(b.cond)[2]) is not None]
            okc = False
            for b in ctl:
                op, l, rr = common.cmp_parts(b.cond)
                bound = const_value(rr) + (1 if op == "<=" else 0)
                unsigned = "unsigned" in (l.get("t") or "") or any(x.get("k") == "cast" and "unsigned char" in (x.get("t") or "") for x in walk(l))
                if bound >= 32 and unsigned and dominated_by_edge(es, e, b, 1, eh=False):
                    okc = True
            okd = default_si is not None and dominated_by_edge(es, e, sw, default_si, eh=False)
            r.expect(okc and okd, es, e, "raw character copied", "_escapeString copies the input character to the output on a path that is not behind both the escape switch's default edge and the "
                     "`(unsigned char)c < 32` test: control characters, '\"' or '\\\\' can reach the output unescaped (invalid JSON / no round-trip)", okdesc="raw copy only for c >= 0x20 outside the table")
        else:
            # bulk copy of the input: needs a dominating scan for every character that must be escaped
            okb, why = False, "no dominating scan of the input"
            for (c, truth) in dominating_facts(es, e):
                cp = common.cmp_parts(c)
                if not cp:
                    continue
                for a, b in ((cp[1], cp[2]), (cp[2], cp[1])):
                    a = strip_casts(strip_wrappers(a))
                    if a.get("k") == "mcall" and last(a.get("callee", "")) == "find_first_of" and strip_casts(a.get("obj") or {}).get("n") == param and "npos" in show(b) \
                            and ((cp[0] == "==" and truth) or (cp[0] == "!=" and not truth)):
                        lit = [x.get("v") for x in walk(a["args"][0]) if x.get("k") == "str"]
                        if len(lit) == 1 and lit[0] is not None:
                            have = {ord(ch) for ch in lit[0]}
                            miss = sorted(MUST_ESCAPE - have)
                            if not miss:
                                okb = True
                            else:
                                why = "the scan `%s` looks for %d of the 34 characters that need escaping; missing e.g. %s" % (show(a)[:60], len(MUST_ESCAPE & have), ", ".join("0x%02x" % m for m in miss[:4]))
            r.expect(okb, es, e, "bulk copy of the input", "_escapeString copies the whole input string to the output (%s) — %s: such characters are emitted unescaped, which RFC 8259 forbids and which does not parse back"
                     % (show(n)[:40], why), okdesc="bulk copy behind a complete scan")
    # control characters: \\u00XX
    ufmt = [e for e in es.stmts() if e.node.get("k") == "call" and last(e.node.get("callee", "")) in ("snprintf", "sprintf")]
    r.instance()
    oku = False
    if len(ufmt) == 1:
        a = ufmt[0].node["args"]
        fmt = [x.get("v") for x in a if strip_casts(x).get("k") == "str"] or [x.get("v") for y in a for x in walk(y) if x.get("k") == "str"]
        val = a[-1]
        uns = any(x.get("k") == "cast" and "unsigned char" in (x.get("t") or "") for x in walk(val))
        pre = [e for e in es.stmts() if e.node.get("k") == "opcall" and e.node.get("op") == "+=" and [x.get("v") for x in walk(e.node["args"][1]) if x.get("k") == "str"] == ["\\u"]]
        post = [e for e in es.stmts() if e.node.get("k") == "opcall" and e.node.get("op") == "+=" and strip_casts(strip_wrappers(e.node["args"][1])).get("n") == strip_casts(strip_wrappers(a[0])).get("n")]
        oku = fmt and fmt[0] in ("%04x", "%04X") and uns and len(pre) == 1 and len(post) == 1 and elem_dom(es, pre[0], ufmt[0]) and elem_dom(es, ufmt[0], post[0]) and pre[0].block is post[0].block
        size_ok = const_value(strip_casts(a[1])) is not None and const_value(strip_casts(a[1])) >= 5 if last(ufmt[0].node["callee"]) == "snprintf" else True
        oku = oku and size_ok
    r.expect(oku, es, ufmt[0] if ufmt else None, "control character form", "control characters are not emitted as `\\u` followed by exactly four hex digits of the unsigned character value (the form _parseHex4 decodes)",
             okdesc="control characters → \\u%04x of (unsigned char)c")


def r4(ctx, r):
    fb = ctx.fb()
    ser = fb.func(JS + "::_serialize", file_suffix=JF)
    sw = [b for b in ser.blocks.values() if b.term and b.term.get("k") == "SwitchStmt"]
    if len(sw) != 1:
        raise AnalysisBroken("_serialize: %d switch statements" % len(sw))
    sw = sw[0]
    enum = fb.enums.get("iora::parsers::JsonType") or [v for k, v in fb.enums.items() if k.endswith("JsonType")][0]
    names = [last(x["n"]) for x in enum["values"]]
    arms = {}
    for si in range(len(sw.succs)):
        lab = sw.edge_label(si)
        if lab and lab != "default":
            en = [last(x["n"]) for x in walk(lab[1]) if x.get("k") == "enum"]
            if en:
                arms[en[0]] = arm_elems(ser, sw, si)[0]
    r.instance()
    r.expect(set(names) <= set(arms), ser, None, "type not serialized", "_serialize has no arm for JsonType::%s (falls to the default `null`)" % ", ".join(sorted(set(names) - set(arms))), okdesc="switch covers %d JsonType enumerators" % len(names))
    want = {"String": "_escapeString", "Array": "_serializeArray", "Object": "_serializeObject"}
    for t, callee in want.items():
        r.instance()
        els = arms.get(t, [])
        r.expect(any(e.kind == "stmt" and e.node.get("k") in ("mcall", "call") and last(e.node.get("callee", "")) == callee for e in els) and
                 any(e.kind == "stmt" and e.node.get("k") == "ret" for e in els), ser, None, "%s arm" % t, "the %s arm of _serialize does not return %s(…)" % (t, callee), okdesc="%s → %s" % (t, callee))
    # Null/Boolean literals
    for t, lits in (("Null", {"null"}), ("Boolean", {"true", "false"})):
        r.instance()
        got = {x.get("v") for e in arms.get(t, []) if e.kind == "stmt" and "root" in e.raw for x in walk(e.node) if x.get("k") == "str"}
        r.expect(got == lits, ser, None, "%s literal" % t, "the %s arm emits %s instead of %s" % (t, sorted(got), sorted(lits)), okdesc="%s → %s" % (t, "/".join(sorted(lits))))
    # Int: to_string of an integral
    r.instance()
    ints = [e for e in arms.get("Int", []) if e.kind == "stmt" and e.node.get("k") == "call" and last(e.node.get("callee", "")) in ("to_string",)]
    r.expect(len(ints) == 1 and "long" in (ints[0].node["args"][0].get("t") or strip_casts(ints[0].node["args"][0]).get("t") or "long"), ser, None, "Int arm", "the Int arm does not format through std::to_string(integer)", okdesc="Int → std::to_string(int64)")
    # object keys and string values pass through the escaper
    so = fb.func(JS + "::_serializeObject", file_suffix=JF)
    r.instance()
    keyapps = [e for e in so.stmts() if e.node.get("k") == "opcall" and e.node.get("op") == "+=" and strip_casts(e.node["args"][0]).get("n") == "result" and "keys[" in show(e.node["args"][1]) and "_serialize(" not in show(e.node["args"][1])]
    r.expect(len(keyapps) >= 1 and all("_escapeString(" in show(e.node["args"][1]) for e in keyapps), so, keyapps[0] if keyapps else None, "object key unescaped", "_serializeObject appends a key without _escapeString", okdesc="object keys escaped")
    # Double arm
    darm = arms.get("Double", [])
    dcalls = [e for e in darm if e.kind == "stmt" and e.node.get("k") in ("call", "mcall") and last(e.node.get("callee", "")) not in ("getDouble", "basic_string")]
    r.instance()
    fmtfn = None
    for e in dcalls:
        c = e.node.get("callee", "")
        if last(c) == "to_string":
            r.fail(ser, e, "std::to_string(double)", "the Double arm formats with std::to_string (fixed %f, six decimals): 1e-7 becomes 0.000000 and 1e300 a 301-digit integer — no round-trip")
        cands = [g for g in fb.funcs(c, JF)] if c.startswith("iora::") else []
        if cands:
            fmtfn = cands[0]
    if fmtfn is None and not r.failures:
        raise AnalysisBroken("Double arm: formatting helper not found")
    if fmtfn is None:
        return
    r.ok("Double → %s" % last(fmtfn.name))
    f = fmtfn
    fcalls = [e for e in f.stmts() if e.node.get("k") == "call" and last(e.node.get("callee", "")) in ("snprintf", "sprintf", "to_chars", "to_string")]
    outs = [e for e in f.stmts() if e.node.get("k") == "opcall" and e.node.get("op") == "<<"]
    r.instance()
    if not r.expect(len(fcalls) == 1 and not outs and last(fcalls[0].node["callee"]) != "to_string", f, (fcalls or [None])[0], "double formatter", "%s formats through %s (need exactly one snprintf/to_chars; std::to_string / operator<< default precision lose digits)"
                    % (last(f.name), [last(e.node["callee"]) for e in fcalls] + (["operator<<"] if outs else [])), okdesc="one formatting call: %s" % (last(fcalls[0].node["callee"]) if fcalls else "")):
        return
    fe = fcalls[0]
    # non-finite never formatted
    fin = [b for b in f.blocks.values() if b.cond is not None and any(x.get("k") == "call" and last(x.get("callee", "")) == "isfinite" for x in walk(b.cond))]
    r.instance()
    okf = False
    for b in fin:
        c = strip_casts(b.cond)
        neg = c.get("k") == "un" and c["op"] == "!"
        if dominated_by_edge(f, fe, b, 1 if neg else 0, eh=False):
            okf = True
    if not fin:
        nan = [b for b in f.blocks.values() if b.cond is not None and any(x.get("k") == "call" and last(x.get("callee", "")) in ("isnan",) for x in walk(b.cond))]
        inf = [b for b in f.blocks.values() if b.cond is not None and any(x.get("k") == "call" and last(x.get("callee", "")) in ("isinf",) for x in walk(b.cond))]
        okf = bool(nan and inf) and all(dominated_by_edge(f, fe, b, 1, eh=False) for b in nan + inf)
    r.expect(okf, f, fe, "non-finite formatted", "NaN/Infinity can reach the number formatter and be emitted as `nan`/`inf`, which is not JSON", okdesc="formatter behind isfinite()")
    if last(fe.node["callee"]) == "to_chars":
        r.instance()
        r.ok("std::to_chars shortest round-trip form")
    else:
        a = fe.node["args"]
        fmt = [x.get("v") for y in a for x in walk(y) if x.get("k") == "str"]
        fmt = fmt[0] if fmt else ""
        import re
        m = re.fullmatch(r"%\.(\*|\d+)([geEGa])", fmt or "")
        r.instance()
        if r.expect(bool(m), f, fe, "double format string", "the double format `%s` is not %%.<p>g / %%.<p>e (fixed notation or default precision does not round-trip)" % fmt, okdesc="format %s" % fmt):
            if m.group(1) != "*":
                r.instance()
                need = 17 if m.group(2) in "gG" else 16
                r.expect(int(m.group(1)) >= need, f, fe, "double precision", "precision %s < %d significant digits: distinct doubles print alike" % (m.group(1), need), okdesc="precision %s" % m.group(1))
            else:
                pv = strip_casts(a[-2]).get("n")
                # loop over precision: upper bound >= 17, other exits only on a successful strtod round-trip
                guards = [b for b in f.blocks.values() if b.cond is not None and common.cmp_parts(b.cond) and strip_casts(common.cmp_parts(b.cond)[1]).get("n") == pv and const_value(common.cmp_parts(b.cond)[2]) is not None]
                r.instance()
                okp = False
                if len(guards) == 1:
                    op, l, rr = common.cmp_parts(guards[0].cond)
                    top = const_value(rr) - (1 if op == "<" else 0)
                    okp = op in ("<", "<=") and top >= 17
                    inc = [e for e in f.stmts() if e.node.get("k") == "un" and e.node.get("op") in ("++", "pre++", "post++") and strip_casts(e.node["v"]).get("n") == pv]
                    okp = okp and len(inc) == 1
                r.expect(okp, f, guards[0].elems[-1] if guards and guards[0].elems else fe, "double precision bound", "the precision loop over `%s` does not reach 17 significant digits in steps of one" % pv, okdesc="precision loop reaches 17")
                # exits: the loop guard's false edge, or the true edge of a strtod(buf) == d test
                rt = [b for b in f.blocks.values() if b.cond is not None and common.cmp_parts(b.cond) and common.cmp_parts(b.cond)[0] == "==" and any(x.get("k") == "call" and last(x.get("callee", "")) in ("strtod", "stod") for x in walk(b.cond))]
                r.instance()
                okx = False
                if guards and len(rt) == 1:
                    after = [e for e in f.stmts() if e.node.get("k") == "decl" and any(v["n"] == "result" for v in e.node["vars"])]
                    if after:
                        w = search(f, fe, lambda x: x is after[0], eh=False, edge_ok=lambda b, si: not ((b is guards[0] and si == 1) or (b is rt[0] and si == 0)))
                        buf = strip_casts(strip_wrappers(a[0])).get("n")
                        same = any(strip_casts(strip_wrappers(x)).get("n") == buf for y in walk(rt[0].cond) if y.get("k") == "call" for x in y.get("args", []))
                        dpar = f.params[0]["n"] if f.params else "d"
                        cmpd = strip_casts(common.cmp_parts(rt[0].cond)[2]).get("n") == dpar or strip_casts(common.cmp_parts(rt[0].cond)[1]).get("n") == dpar
                        okx = w is None and same and cmpd
                r.expect(okx, f, rt[0].elems[-1] if rt and rt[0].elems else fe, "precision loop exit", "the precision loop can be left before 17 digits without a successful `strtod(buf) == d` round-trip test on the formatted buffer",
                         okdesc="early exit only on strtod(buf) == d")
    # the result re-parses as Double: '.', 'e' or 'E' present, or ".0" appended
    rets = [e for e in f.stmts() if e.node.get("k") == "ret" and "root" in e.raw and not [x for x in walk(e.node) if x.get("k") == "str"]]
    dot = [b for b in f.blocks.values() if b.cond is not None and any(x.get("k") == "mcall" and last(x.get("callee", "")) in ("find_first_of",) for x in walk(b.cond))]
    add = [e for e in f.stmts() if e.node.get("k") == "opcall" and e.node.get("op") == "+=" and [x.get("v") for x in walk(e.node["args"][1]) if x.get("k") == "str"] in ([".0"], ["e0"], [".0e0"])]
    r.instance()
    okd = False
    if len(dot) == 1 and add and rets:
        cp = common.cmp_parts(dot[0].cond)
        lit = [x.get("v") for x in walk(dot[0].cond) if x.get("k") == "str"]
        if cp and lit and set(lit[0]) <= set(".eE") and "." in lit[0] and "e" in lit[0] and "npos" in show(dot[0].cond):
            miss_edge = 0 if cp[0] == "==" else 1      # edge on which none of . e E was found
            okd = all(search(f, fe, lambda x, rr=rr: x is rr, stop=lambda x: x in add, eh=False, edge_ok=lambda b, si: not (b is dot[0] and si != miss_edge)) is None for rr in rets)
    r.expect(okd, f, rets[0] if rets else None, "double re-parses as Int", "a double whose shortest form has no '.', 'e' or 'E' (e.g. 1e15 → 1000000000000000) is emitted without a marker, so it parses back as Int and `parse(dump(v)) == v` fails on the type",
             okdesc="integral doubles get '.0'")


def r5(ctx, r):
    funcs = parser_methods(ctx)
    n = 0
    direct = set()
    for f in funcs:
        for e in f.stmts():
            nn = e.node
            if (nn.get("k") == "un" and nn.get("op") in ("++", "pre++", "post++") and is_pos(nn["v"])) or (nn.get("k") == "bin" and nn.get("op") == "+=" and is_pos(nn["lhs"])):
                direct.add(f.name)
    may_adv = set(direct)
    ch = True
    while ch:
        ch = False
        for f in funcs:
            if f.name not in may_adv and any(e.node.get("k") == "mcall" and e.node.get("callee") in may_adv for e in f.stmts()):
                may_adv.add(f.name)
                ch = True
    via_callee = set()
    for f in funcs:
        # blocks that advance a cursor (member _pos or a local index of _text) or leave the function
        adv = set()
        lcs = set()
        for e in f.stmts():
            nn = e.node
            if nn.get("k") == "opcall" and nn.get("op") == "[]" and is_text(nn["args"][0]):
                fm = lin(nn["args"][1])
                if fm and len(fm[1]) == 1 and fm[1][0] != CUR:
                    lcs.add(fm[1][0])
        for e in f.stmts():
            nn = e.node
            if nn.get("k") == "un" and nn.get("op") in ("++", "pre++", "post++") and (is_pos(nn["v"]) or strip_casts(nn["v"]).get("n") in lcs):
                adv.add(e.block.id)
            if nn.get("k") == "bin" and nn.get("op") == "+=" and is_pos(nn["lhs"]) and (const_value(strip_casts(nn["rhs"])) or 0) >= 1:
                adv.add(e.block.id)
            # progress inside a callee of the family that itself moves the cursor: not refuted here (a cycle is reported only when
            # nothing on it can move the cursor at all)
            if nn.get("k") == "mcall" and nn.get("callee") in may_adv:
                adv.add(e.block.id)
                via_callee.add(e.block.id)
        # cycle detection in the CFG with the advancing blocks removed
        color = {}
        cyc = []

        def dfs(b):
            color[b] = 1
            for s in f.blocks[b].succs:
                if s is None or s in adv:
                    continue
                if color.get(s) == 1:
                    cyc.append((b, s))
                elif s not in color:
                    dfs(s)
            color[b] = 2
        for b in f.blocks:
            if b not in color and b not in adv:
                dfs(b)
        loops = [b for b in f.blocks.values() if b.term and b.term.get("k") in ("WhileStmt", "ForStmt", "DoStmt", "CXXForRangeStmt")]
        n += len(loops)
        r.instance(max(1, len(loops)))
        if cyc:
            b = f.blocks[cyc[0][1]]
            ln = next((e.line for e in b.elems if e.line), f.line)
            r.fail(f, ln, "loop without progress", "%s contains a loop iteration (through B%d) that neither advances the cursor nor returns: a crafted input makes the parser spin forever" % (last(f.name), b.id))
        else:
            for _ in range(max(1, len(loops))):
                r.ok("%s: every cycle advances the cursor" % last(f.name))
    if n < 8:
        raise AnalysisBroken("only %d loops found in JsonParser (floor 8)" % n)


def r7(ctx, r):
    """first-character dispatch and literal tables of the value parser"""
    pv = jp(ctx, "_parseValue")
    sw = switch_on(pv, "c")
    want = {ord("n"): "_parseNull", ord("t"): "_parseBool", ord("f"): "_parseBool", ord('"'): "_parseString", ord("["): "_parseArray", ord("{"): "_parseObject", ord("-"): "_parseNumber"}
    want.update({ord(str(d)): "_parseNumber" for d in range(10)})
    got = {}
    labels = {}
    for b in pv.blocks.values():
        for lb in (b.raw.get("labels") or ([b.label] if b.label else [])):
            if lb and lb.get("k") == "case" and lb.get("v"):
                labels.setdefault(b.id, []).append(const_value(lb["v"]))
    for si in range(len(sw.succs)):
        lab = sw.edge_label(si)
        if not lab or lab == "default":
            continue
        els, _ = arm_elems(pv, sw, si)
        calls = [last(e.node["callee"]) for e in els if e.kind == "stmt" and e.node.get("k") == "mcall" and last(e.node.get("callee", "")).startswith("_parse")]
        for cv in (labels.get(sw.succs[si]) or [const_value(lab[1])]):
            got[cv] = calls[0] if calls else None
    # fall-through labels share the block of the next label: walk label blocks in source order
    for bid, cvs in labels.items():
        for cv in cvs:
            if cv not in got or got[cv] is None:
                els = _first_call_from(pv, bid)
                got[cv] = els
    r.instance(len(want))
    for cv, callee in sorted(want.items()):
        r.expect(got.get(cv) == callee, pv, None, "value dispatch: %r" % chr(cv), "_parseValue sends a value starting with %r to %s (expected %s): valid texts starting with that character are rejected or mis-decoded" % (chr(cv), got.get(cv), callee),
                 okdesc="%r → %s" % (chr(cv), callee))
    # literals: compared text, compared length and advance agree
    for fn_, lits in (("_parseNull", {"null": None}), ("_parseBool", {"true": 1, "false": 0})):
        f = jp(ctx, fn_)
        seen = {}
        for b in f.blocks.values():
            cp = common.cmp_parts(b.cond) if b.cond is not None else None
            if not cp or cp[0] != "==":
                continue
            lit = [x.get("v") for x in walk(cp[2]) if x.get("k") == "str"]
            sub = [x for x in walk(cp[1]) if x.get("k") == "mcall" and last(x.get("callee", "")) == "substr"]
            if len(lit) != 1 or len(sub) != 1:
                continue
            n_ = const_value(strip_casts(sub[0]["args"][1])) if len(sub[0]["args"]) > 1 else None
            tb = f.blocks[b.succs[0]]
            adv = [const_value(strip_casts(e.node["rhs"])) for e in tb.elems if e.kind == "stmt" and e.node.get("k") == "bin" and e.node.get("op") == "+=" and is_pos(e.node["lhs"])]
            val = [const_value(x) for e in tb.elems if e.kind == "stmt" and assign_parts(e.node) and strip_casts(assign_parts(e.node)[0]).get("n") == "out" for x in walk(assign_parts(e.node)[1]) if x.get("k") == "bool"]
            seen[lit[0]] = (n_, adv[0] if adv else None, val[0] if val else None)
        for lit, want_v in lits.items():
            r.instance()
            got_ = seen.get(lit)
            ok = got_ is not None and got_[0] == len(lit) and got_[1] == len(lit) and (want_v is None or got_[2] == want_v)
            r.expect(ok, f, None, "literal %s" % lit, "%s handles the literal `%s` as (compared length, advance, value) = %s; expected (%d, %d, %s)" % (fn_, lit, got_, len(lit), len(lit), want_v), okdesc="`%s`: %d compared, %d consumed" % (lit, len(lit), len(lit)))
    # separators
    for fn_, chars in (("_parseArray", "[],"), ("_parseObject", "{},:")):
        f = jp(ctx, fn_)
        have = {chr(const_value(x)) for b in f.blocks.values() if b.cond is not None for x in walk(b.cond) if x.get("k") == "char" and const_value(x) is not None and 0 < const_value(x) < 128}
        r.instance()
        r.expect(set(chars) <= have, f, None, "separators of %s" % fn_, "%s does not test for all of %s (found %s)" % (fn_, " ".join(chars), sorted(have)), okdesc="%s tests %s" % (fn_, " ".join(chars)))


def _first_call_from(f, bid):
    seen, work = set(), [bid]
    while work:
        b = work.pop(0)
        if b is None or b in seen:
            continue
        seen.add(b)
        for e in f.blocks[b].elems:
            if e.kind == "stmt" and e.node.get("k") == "mcall" and last(e.node.get("callee", "")).startswith("_parse"):
                return last(e.node["callee"])
        work.extend(f.blocks[b].succs)
    return None



CONVERTERS = ("strtod", "strtold", "strtof", "stod", "stold", "atof", "from_chars", "sscanf", "strtoll", "strtol", "stoll", "atoll")


def r6(ctx, r):
    """the number conversions operate on the whole scanned literal"""
    fb = ctx.fb()
    pn = jp(ctx, "_parseNumber")
    nd = [v for e in pn.stmts() if e.node.get("k") == "decl" for v in e.node["vars"] if v.get("init") is not None and strip_views(v["init"]).get("k") == "mcall" and last(strip_views(v["init"]).get("callee", "")) == "substr" and is_text(strip_views(v["init"]).get("obj"))]
    if len(nd) != 1:
        raise AnalysisBroken("_parseNumber: the scanned literal is not held in exactly one substr() view (%d)" % len(nd))
    lit = nd[0]["n"]
    sub = strip_views(nd[0]["init"])
    st = key_of_var(sub["args"][0])
    stdecl = [v for e in pn.stmts() if e.node.get("k") == "decl" for v in e.node["vars"] if v["n"] == st]
    r.instance()
    ln = lin(sub["args"][1]) if len(sub["args"]) > 1 else None
    r.expect(bool(stdecl) and is_pos(stdecl[0].get("init") or {}) and ln is not None and ln[0] == 0 and sorted(ln[1]) == sorted([CUR]) or (bool(stdecl) and is_pos(stdecl[0].get("init") or {}) and "_pos - " + st in show(sub["args"][1])), pn, None, "literal range",
             "the literal handed to the converters is not _text.substr(start, _pos - start) with start = the cursor at entry", okdesc="literal = [start, _pos)")
    # conversions in _parseNumber and in helpers that receive the literal
    work, seen, sites = [(pn, lit)], set(), []
    while work:
        f, v = work.pop()
        if (f.name, v) in seen:
            continue
        seen.add((f.name, v))
        for e in f.stmts():
            n = e.node
            if n.get("k") in ("call", "mcall") and last(n.get("callee", "")) in CONVERTERS:
                sites.append((f, e, v))
            c = n.get("callee") or ""
            if n.get("k") in ("call", "mcall") and (c.startswith(JP + "::") or c.startswith(JS + "::")) and last(c) not in ("_parseNumber",):
                for i, a in enumerate(n.get("args", [])):
                    if key_of_var(strip_views(a)) == v:
                        for g in fb.funcs(c, JF):
                            if g.ok and i < len(g.params) and g.params[i].get("n"):
                                work.append((g, g.params[i]["n"]))
    if len(sites) < 2:
        raise AnalysisBroken("only %d numeric conversion sites found behind _parseNumber (floor 2)" % len(sites))
    for (f, e, v) in sites:
        n = e.node
        nm = last(n["callee"])
        r.instance()
        a0 = strip_casts(strip_wrappers(n["args"][0]))
        ok, why = False, "its source `%s` is not the whole literal" % show(a0)[:50]
        if nm == "from_chars":
            a1 = n["args"][1]
            ok = show(a0) == v + ".data()" and show(strip_casts(a1)).replace(" ", "") in ((v + ".data()+" + v + ".size()").replace(" ", ""),)
            why = "the range is not [%s.data(), %s.data() + %s.size())" % (v, v, v)
        else:
            # c_str()/data() of a std::string constructed from the whole view
            if a0.get("k") == "mcall" and last(a0.get("callee", "")) in ("c_str", "data"):
                src = strip_casts(strip_wrappers(a0.get("obj")))
                while src is not None and src.get("k") == "ctor" and src.get("cls") == "std::basic_string":
                    args = [x for x in src.get("args", []) if not x.get("def")]
                    if len(args) == 1:
                        src = strip_casts(strip_wrappers(args[0]))
                    else:
                        why = "the string is built from %d arguments (a length-limited copy)" % len(args)
                        src = None
                        break
                if src is not None and src.get("k") == "var" and src["n"] == v:
                    ok = True
                elif src is not None and src.get("k") == "var":
                    # a local std::string: every definition must be the whole view
                    defs = [x.get("init") for d in f.stmts() if d.node.get("k") == "decl" for x in d.node["vars"] if x["n"] == src["n"]]
                    ok = bool(defs) and all(dd is not None and key_of_var(strip_views(dd)) == v for dd in defs)
            elif a0.get("k") == "var" and "[" in (a0.get("t") or ""):
                why = "it converts from the fixed-size buffer `%s` (%s): a literal longer than the buffer is truncated and decodes to a different number" % (a0["n"], a0.get("t"))
        r.expect(ok, f, e, "number converted from part of the literal: %s" % nm, "%s converts the number with %s, but %s — valid long literals (70-digit integers, long mantissas with an exponent) decode to a value other than the reference decoder's"
                 % (last(f.name), nm, why), okdesc="%s: %s over the whole literal" % (last(f.name), nm))


def key_of_var(n):
    n = strip_casts(n) if n is not None else None
    return n["n"] if n is not None and n.get("k") == "var" else None



def anchors(ctx, r):
    fb = ctx.fb()
    tab = [(jp(ctx, "_parseValue"), ["depth"]), (jp(ctx, "_parseArray"), ["arr", "depth"]), (jp(ctx, "_parseObject"), ["obj", "depth"]), (jp(ctx, "_parseString"), ["str", "c"]),
           (fb.func(JS + "::_escapeString", file_suffix=JF), ["c", "result"]), (jp(ctx, "_appendUtf8"), ["cp", "str"])]
    for f, names in tab:
        common.require_names(f, names)
        r.instance()
        r.ok("%s: %s" % (last(f.name), ", ".join(names)))


def run(ctx, ck):
    r0 = ck.run_rule("C13-R0", "the local names the rules are anchored on exist (a rename makes the analysis refuse — exit 2 — instead of raising a false alarm)", "anchor table", lambda r: anchors(ctx, r))
    if r0.broken:
        return
    ck.run_rule("C13-R1", "parser cursor stays inside the input on every path (reads, advances, error offset)", "A7 interprocedural cursor-window abstract interpretation", lambda r: r1(ctx, r))
    ck.run_rule("C13-R2", "depth and size limits precede recursion and growth", "A2 dominance + loop re-entry search", lambda r: r2(ctx, r))
    ck.run_rule("C13-R3", "escape tables of parser and serializer agree with RFC 8259 and each other; \\u/surrogate/UTF-8 arithmetic exact", "A10 table extraction + exact finite-domain evaluation of pure expressions", lambda r: r3(ctx, r))
    ck.run_rule("C13-R4", "serializer type switch exhaustive; doubles round-trip-safe, finite only, re-parse as Double", "A10 + A2", lambda r: r4(ctx, r))
    ck.run_rule("C13-R5", "every parser loop makes progress", "A2 cycle analysis", lambda r: r5(ctx, r))
    ck.run_rule("C13-R7", "first-character dispatch, literal and separator tables of the value grammar", "A10 table extraction", lambda r: r7(ctx, r))
    ck.run_rule("C13-R6", "numeric conversions operate on the whole scanned literal", "A10 dataflow from the literal's view to every converter", lambda r: r6(ctx, r))
