"""C13 — JSON texts and values round-trip and agree with RFC 8259 (DESIGN.md §2 C13)."""
from ..cfg import search, witness_str, dominated_by_edge, dominators
from ..cursor import CursorProgram
from ..expr import show, walk, last, field_of, strip_wrappers, strip_casts, short, const_value
from ..facts import AnalysisBroken
from ..finite import compile_expr, NotPure, dominating_facts, interval_of
from ..rules import common
from ..window import lin, form, show_form, guard_ops, TOP
from ..expr import is_assign, assign_parts as _ap, strip_views


def assign_parts(n):
    """(lhs, rhs) of a plain assignment, else None"""
    if n.get("k") in ("bin", "opcall") and is_assign(n) and n.get("op") == "=":
        p = _ap(n)
        return p[0], p[2]
    return None

TITLE = "JSON texts and values round-trip and agree with RFC 8259"
TECHNIQUE = 'interprocedural cursor-window abstract interpretation (modular assume/guarantee summaries) over the recursive-descent parser; escape-table extraction from both switch statements; exact finite-domain evaluation of pure integer expressions (surrogate arithmetic, UTF-8 encoder) taken from the AST; dominance rules for limits'
JP = "iora::parsers::JsonParser"
JS = "iora::parsers::Json"
JF = "iora/parsers/json.hpp"
TEXT, POS = JP + "::_text", JP + "::_pos"

EXPLANATION = (
    "The round-trip and reference-agreement clauses quantify over all texts and values; what is decided statically are their structural "
    "necessary conditions in json.hpp. R1 cursor discipline: an interprocedural cursor-window abstract interpretation over every "
    "JsonParser method (lower bound on _text.size() - _pos; callee pre-conditions are the meet over call sites, post-conditions per "
    "return value) proves every _text[...] read, substr, pointer range handed to from_chars and every cursor advance stays inside the "
    "input, the cursor only moves forward, and hence the reported error offset lies inside the input. R2 limits precede growth and bound "
    "recursion. R3 the escape tables of parser and serializer are extracted from the two switch statements and compared with RFC 8259 §7 "
    "and with each other; the \\u arm must consume four hex digits twice for a pair, the pair-combination expression is evaluated exactly "
    "over the guard-delimited surrogate ranges against the UTF-16 definition, lone surrogates are rejected before encoding, the UTF-8 "
    "encoder's byte expressions are evaluated exactly over each branch's code-point interval against the UTF-8 definition, and in the "
    "serializer every byte of the input string reaches the output only behind the escape switch and the control-character test (a bulk "
    "copy must be guarded by a scan for all 34 characters that need escaping). R4 the serializer's type switch is exhaustive, doubles are "
    "formatted through a round-trip-safe precision (up to 17 significant digits, exit only on a strtod round-trip), never std::to_string, "
    "non-finite values never reach the formatter, and the result always re-parses as a Double. R5 every parser loop advances the cursor.")
# exempt from the function-inventory guard (report.py): these rules hold for, or look into, functions they have never seen — and every clause of
# them that recognises a construct by its shape inside one region refuses (unless_moved) when that region calls a json.hpp function it does not follow
FOLLOWS_HELPERS = {
    "C13-R1": "universal and interprocedural: every JsonParser method, old or new, is a node of the cursor program (pre/post summaries at each call)",
    "C13-R2": "the depth clause counts through every parser method (ghost count with callee summaries) or, for a passed-down parameter, checks each hop; "
              "the limit clauses refuse when the test or the growth site is not in the function they look at",
    "C13-R3": "the serializer table is evaluated exactly per byte through the helpers it calls; the \\u clause follows the arm into the helper that "
              "receives the string; the remaining per-arm clauses refuse when the arm calls a function they do not look into",
    "C13-R4": "the object-key clause judges every piece appended by _serializeObject and by each helper that receives its output string; the arm and "
              "formatter clauses refuse when their region calls a function they do not look into",
    "C13-R5": "universal: every loop of every JsonParser method must advance the cursor, wherever the loop lives",
    "C13-R6": "dataflow from the literal's view into every json.hpp function that receives it (work-list over call arguments)",
}
NOT_DECIDED = ["agreement with a reference decoder for all texts (only the table/arithmetic/bounds conditions above)", "strtod/from_chars accuracy",
               "duplicate-key policy (last wins, by std::map assignment)", "pretty-printing/whitespace placement", "UTF-8 validity of raw (unescaped) bytes"]


def jp(ctx, name):
    return ctx.fb().func(JP + "::" + name, file_suffix=JF)


def is_false_return(fb, e):
    """`return false`, or `return helper(…)` where the helper (a function of json.hpp) returns the constant false on every path — the
    error-reporting helper (`return _fail("…")`) a refactoring puts in place of `_error = "…"; return false;`"""
    if e.kind != "stmt" or e.node.get("k") != "ret" or not isinstance(e.node.get("v"), dict):
        return False
    v = strip_casts(e.node["v"])
    if const_value(v) is not None:
        return const_value(v) == 0
    if v.get("k") in ("call", "mcall") and (v.get("callee") or "").startswith((JP + "::", JS + "::")):
        gs = [g for g in fb.funcs(v["callee"], JF) if g.ok]
        rets = [x for g in gs for x in g.stmts() if x.node.get("k") == "ret" and "root" in x.raw]
        return len(gs) == 1 and bool(rets) and all(isinstance(x.node.get("v"), dict) and const_value(strip_casts(x.node["v"])) == 0 for x in rets)
    return False


def family_calls(elems, allowed=()):
    """functions defined in json.hpp (members of JsonParser / Json) that the given elements call, other than those named in `allowed`"""
    out = []
    for e in elems:
        if e.kind == "stmt" and e.node.get("k") in ("call", "mcall"):
            c = e.node.get("callee") or ""
            if c.startswith((JP + "::", JS + "::")) and last(c) not in allowed and last(c) not in out:
                out.append(last(c))
    return out


def unless_moved(cond, elems, allowed, what):
    """A clause that recognises a construct by its shape inside one region (a switch arm, a function body) can tell 'present' from 'absent' only
    while the region does everything itself.  When the shape test fails and the region calls a json.hpp function the clause does not look into,
    the construct may simply live there: the clause refuses (exit 2) instead of reporting.  When the region calls nothing of the kind, a failed
    test is a real absence and stays a violation."""
    if not cond:
        hs = family_calls(elems, allowed)
        if hs:
            raise AnalysisBroken("%s: not judged — the code there calls %s, which this clause does not look into (the construct may have moved)" % (what, ", ".join(hs)))
    return cond


def parser_methods(ctx):
    fs = [f for f in ctx.fb().methods_of(JP) if f.ok and f.kind in ("method",)]
    if len(fs) < 11:
        raise AnalysisBroken("JsonParser: only %d methods with a CFG (floor 11)" % len(fs))
    return fs


def is_text(n):
    n = strip_casts(n)
    return n is not None and field_of(n) == TEXT


def is_pos(n):
    n = strip_casts(n)
    return n is not None and n.get("k") == "member" and field_of(n) == POS


SIZE_SYMS = {"_text.size()", "_text.length()", "this->_text.size()"}
CUR = "_pos"


def named_constants(f):
    """{local name: value} for the `const` / `constexpr` integral locals of f with a constant initialiser (`constexpr std::size_t kHexDigits = 4`)"""
    c = f.__dict__.get("_c13_consts")
    if c is None:
        c = {}
        for e in f.stmts():
            if e.node.get("k") == "decl":
                for v in e.node["vars"]:
                    t = v.get("t") or ""
                    if "const" in t and "*" not in t and "&" not in t and isinstance(v.get("init"), dict) and const_value(v["init"]) is not None:
                        c[v["n"]] = const_value(v["init"])
        f.__dict__["_c13_consts"] = c
    return c


def fold_named(f, n):
    """copy of expression tree n with every read of a named constant of f replaced by its value: naming a literal does not change what a rule sees"""
    consts = named_constants(f)
    if not consts or not isinstance(n, dict):
        return n
    cache = f.__dict__.setdefault("_c13_fold", {})
    key = id(n)
    if key in cache:
        return cache[key][1]

    def go(x):
        if isinstance(x, dict):
            if x.get("k") == "var" and x.get("n") in consts:
                return {"k": "int", "cv": consts[x["n"]], "id": x.get("id"), "l": x.get("l")}
            return {k: go(v) for k, v in x.items()}
        if isinstance(x, list):
            return [go(v) for v in x]
        return x
    res = go(n) if any(x.get("k") == "var" and x.get("n") in consts for x in walk(n)) else n
    cache[key] = (n, res)       # keeps n alive so that id(n) stays unique
    return res


class JsonCursorProgram(CursorProgram):
    """post-conditions 'per return value' also for functions that report success through an optional: `return std::nullopt` / `return {}` is the
    failing return, `return value` the successful one (out-parameter + bool ⇄ returned optional)"""

    def _value_const(self, v):
        x = strip_casts(v) if isinstance(v, dict) else None
        if x is not None and x.get("k") == "ctor" and x.get("cls") == "std::optional":
            args = [a for a in x.get("args", []) if not a.get("def")]
            if not args or (len(args) == 1 and "nullopt" in show(args[0])):
                return 0
            if len(args) == 1 and "optional" not in (strip_casts(args[0]).get("t") or ""):
                return 1
            return None
        return CursorProgram._value_const(self, v)


def var_written(f, name):
    """the local / parameter `name` is assigned, stepped or has a mutating member called on it somewhere in f (other than its declaration)"""
    from ..access import MUTATORS
    for e in f.stmts():
        n = e.node
        if counter_step(n, lambda x: x.get("k") == "var" and x["n"] == name) is not None:
            return True
        if n.get("k") == "opcall" and is_assign(n) and strip_casts(n["args"][0]).get("k") == "var" and strip_casts(n["args"][0])["n"] == name:
            return True
        if n.get("k") == "mcall" and strip_casts(n.get("obj") or {}).get("k") == "var" and strip_casts(n["obj"])["n"] == name and last(n.get("callee", "")) in MUTATORS:
            return True
    return False


def stable_size_symbol(f, expr, sym):
    """sym is `<name>.size()` / `<name>.length()` of a string local or parameter of f that f never writes"""
    for x in walk(expr):
        if x.get("k") == "mcall" and not x.get("args") and show(x) == sym and last(x.get("callee", "")) in ("size", "length"):
            o = strip_casts(x.get("obj") or {})
            return o.get("k") == "var" and "basic_string" in (o.get("t") or "") and not var_written(f, o["n"])
    return False


def cursor_program(ctx):
    fb = ctx.fb()
    funcs = parser_methods(ctx)
    ptr_off = {}          # (function, local pointer name) -> constant offset from the cursor
    prog_box = [None]

    for f in [g for g in funcs] * 2:           # twice: a derived pointer may be met before its base (blocks are not in source order)
        for e in f.stmts():
            if e.node.get("k") == "decl":
                for v in e.node["vars"]:
                    i = v.get("init")
                    if i is None or "*" not in (v.get("t") or ""):
                        continue
                    fm = lin(fold_named(f, i))
                    if fm is not None and "_text.data()" in fm[1] and list(fm[1]).count(CUR) == 1 and len(fm[1]) == 2:
                        ptr_off[(f, v["n"])] = fm[0]
                    elif fm is not None and len(fm[1]) == 1 and (f, fm[1][0]) in ptr_off:
                        ptr_off[(f, v["n"])] = ptr_off[(f, fm[1][0])] + fm[0]       # `end = first + 4`: a pointer derived from a pointer into the text

    def local_cursor(f):
        """a local index variable used to subscript _text (e.g. the line/column scan)"""
        out = set()
        for e in f.stmts():
            n = e.node
            if n.get("k") == "opcall" and n.get("op") == "[]" and is_text(n["args"][0]):
                fm = lin(n["args"][1])
                if fm and CUR not in fm[1] and len(fm[1]) == 1:
                    out.add(fm[1][0])
        return out

    def elem_ops(f, e):
        n = fold_named(f, e.node)
        k = n.get("k")
        ops = []
        if k == "opcall" and n.get("op") == "[]" and is_text(n["args"][0]):
            fm = lin(n["args"][1])
            if fm is not None and list(fm[1]).count(CUR) == 1:
                ops.append(("need", form(fm[0] + 1, [s for s in fm[1] if s != CUR]), "_text[%s]" % show(n["args"][1])))
            elif fm is not None and len(fm[1]) == 1 and fm[1][0] in local_cursor(f):
                return None       # separate window (local index) below
            else:
                ops.append(("need", TOP, "_text[%s] (index not linear in the cursor)" % show(n["args"][1])))
        elif k == "mcall" and is_text(n.get("obj")) and last(n.get("callee", "")) == "at":
            return None           # checked access
        elif k == "mcall" and is_text(n.get("obj")) and last(n.get("callee", "")) == "substr" and n.get("args"):
            fm = lin(n["args"][0])
            if fm is not None and list(fm[1]).count(CUR) == 1:
                ops.append(("need", form(fm[0], [s for s in fm[1] if s != CUR]), "_text.substr(%s, …) start" % show(n["args"][0])))
        elif k == "un" and n.get("op") in ("++", "pre++", "post++") and is_pos(n["v"]):
            ops.append(("adv", form(1), "++_pos"))
        elif k == "un" and n.get("op") in ("--", "pre--", "post--") and is_pos(n["v"]):
            ops.append(("need", TOP, "--_pos (cursor moves backwards)"))
        elif k == "bin" and n.get("op") == "+=" and is_pos(n["lhs"]):
            fm = lin(n["rhs"])
            if fm is not None and fm[0] >= 0 and fm[1] and all(stable_size_symbol(f, n["rhs"], sym) for sym in fm[1]):
                # `_pos += literal.size()`: a symbolic length — discharged only where a guard established that many bytes (substr(...) == literal)
                ops.append(("adv", fm, "_pos += %s" % show(n["rhs"])))
            elif fm is None or fm[1] or fm[0] < 0:
                ops.append(("need", TOP, "_pos += %s (not a non-negative constant)" % show(n["rhs"])))
                ops.append(("reset", None))
            else:
                ops.append(("adv", fm, "_pos += %s" % show(n["rhs"])))
        elif k == "bin" and n.get("op") in ("=", "-=") and is_pos(n["lhs"]):
            ops.append(("need", TOP, "_pos %s %s (cursor re-based)" % (n["op"], show(n["rhs"]))))
            ops.append(("reset", None))
        elif k == "call" and n.get("args"):
            # pointer ranges into the text: f(p, p + N, …)
            a = [strip_casts(x) for x in n["args"]]
            for i, x in enumerate(a):
                if x.get("k") == "var" and (f, x["n"]) in ptr_off:
                    off = ptr_off[(f, x["n"])]
                    nxt = lin(a[i + 1]) if i + 1 < len(a) else None
                    if nxt is not None and list(nxt[1]) == [x["n"]]:
                        ops.append(("need", form(off + nxt[0]), "%s(%s, %s + %d, …)" % (last(n.get("callee", "?")), x["n"], x["n"], nxt[0])))
                    elif nxt is not None and nxt[0] == 0 and len(nxt[1]) == 1 and (f, nxt[1][0]) in ptr_off and ptr_off[(f, nxt[1][0])] >= off:
                        ops.append(("need", form(ptr_off[(f, nxt[1][0])]), "%s(%s, %s, …)" % (last(n.get("callee", "?")), x["n"], nxt[1][0])))
                    else:
                        ops.append(("need", TOP, "%s reads from `%s` without an end pointer" % (last(n.get("callee", "?")), x["n"])))
                    break
        elif k == "un" and n.get("op") == "*" and strip_casts(n["v"]).get("k") == "var" and (f, strip_casts(n["v"])["n"]) in ptr_off:
            ops.append(("need", form(ptr_off[(f, strip_casts(n["v"])["n"])] + 1), "*%s" % strip_casts(n["v"])["n"]))
        return ops or None

    def call_behind(f, x):
        """the parser method whose result the tested expression x stands for: `callee(…)` itself, or a `const` local (bool / optional) that was
        initialised with it by the statement right before the branch, so that the cursor cannot have moved between the call and the test"""
        g = prog_box[0].callee(x) if x.get("k") in ("mcall", "call") else None
        if g is not None:
            return g
        if x.get("k") == "mcall" and last(x.get("callee", "")) in ("operator bool", "has_value") and isinstance(x.get("obj"), dict):
            x = strip_casts(x["obj"])
        if x.get("k") != "var" or "const" not in (x.get("t") or ""):
            return None
        for b in f.blocks.values():
            roots = [e for e in b.elems if e.kind == "stmt" and "root" in e.raw]
            if b.cond is None or len(roots) < 2 or roots[-2].node.get("k") != "decl" or not any(y.get("k") == "var" and y.get("d") == x.get("d") for y in walk(b.cond)):
                continue
            for v in roots[-2].node["vars"]:
                i = strip_casts(v.get("init")) if isinstance(v.get("init"), dict) else None
                while i is not None and i.get("k") == "ctor" and i.get("copy") and len(i.get("args", [])) == 1:
                    i = strip_casts(i["args"][0])
                if v.get("d") == x.get("d") and i is not None and i.get("k") in ("mcall", "call"):
                    return prog_box[0].callee(i)
        return None

    def edge_ops(f, c, truth, prog):
        prog_box[0] = prog
        c = fold_named(f, c)

        def extra(x, t):
            x = strip_casts(x)
            g = call_behind(f, x) if x.get("k") in ("mcall", "call", "var") else None
            if g is not None:
                p = prog.post_true[g] if t else prog.post_false[g]
                return [("atleast", p)]
            # _text.substr(_pos + k, n) == "lit"  (true): the text has k + len(lit) more bytes
            cp = common.cmp_parts(x)
            if cp and cp[0] in ("==", "!=") and (t if cp[0] == "==" else not t):
                for a, b in ((cp[1], cp[2]), (cp[2], cp[1])):
                    a, b = strip_wrappers(a), strip_wrappers(b)
                    if a.get("k") == "mcall" and is_text(a.get("obj")) and last(a.get("callee", "")) == "substr" and a.get("args"):
                        fm = lin(a["args"][0])
                        lit = [y for y in walk(b) if y.get("k") == "str"]
                        if fm is not None and list(fm[1]) == [CUR] and len(lit) == 1 and lit[0].get("v"):
                            return [("atleast", form(fm[0] + len(lit[0]["v"].encode("utf-8"))))]
                        bv = strip_views(b)
                        if fm is not None and list(fm[1]) == [CUR] and not lit and bv is not None and bv.get("k") == "var" and "basic_string" in (bv.get("t") or "") and not var_written(f, bv["n"]):
                            # equal to a string variable: the text holds at least that variable's length (substr never returns more than it is asked for)
                            return [("atleast", form(fm[0], (bv["n"] + ".size()",)))]
            return None
        return guard_ops(c, truth, CUR, SIZE_SYMS, extra)

    parse = jp(ctx, "parse")
    prog = JsonCursorProgram(funcs, {parse: form(0)}, elem_ops, edge_ops)
    return prog, funcs, local_cursor


def r1(ctx, r):
    fb = ctx.fb()
    prog, funcs, local_cursor = cursor_program(ctx)
    # the entry invariant: the constructor starts the cursor at 0
    ctor = [f for f in fb.methods_of(JP) if f.kind == "ctor" and f.ok]
    r.instance()
    okc = False
    for c in ctor:
        for e in c.elems():
            if e.kind == "init" and e.node.get("field", e.node.get("n", "")).endswith("_pos"):
                okc = const_value(strip_casts(e.node.get("v") or {})) == 0
    r.expect(okc, ctor[0] if ctor else JP, None, "cursor start", "the JsonParser constructor does not start _pos at 0 (entry invariant 0 <= size - _pos of the window analysis)",
             okdesc="JsonParser(): _pos(0)")
    nreq = len(prog.checked) + len(prog.violations)
    # instance floor (70 on the pinned tree).  Kept well below it: merging duplicated tails (the `,`/`]` and `,`/`}` handling, the literal compare+advance)
    # into shared methods removes reads without removing any from the parser's behaviour; what the floor guards against is a fact base that lost them
    if nreq < 45:
        raise AnalysisBroken("only %d cursor reads/advances recognised in JsonParser (floor 45)" % nreq)
    r.instance(nreq)
    for (f, e, what) in prog.checked:
        r.ok("%s: %s inside the input" % (last(f.name), what))
    for (f, e, need, have, what) in prog.violations:
        r.fail(f, e, "outside input: %s" % what.split(" (")[0], "%s performs `%s`, which needs %s byte(s) between the cursor and the end of the text, but only %s %s known to remain on some path%s: "
               "the parser reads or moves past the end of the input (undefined behaviour on a string_view; error offset outside the input)"
               % (last(f.name), what, show_form(need) if need != TOP else "a bound the analysis cannot establish", show_form(have), "is" if have == ((1, ()),) else "are", prog.describe_site(f)))
    # local index cursors (line/column scan)
    from ..window import Window
    for f in funcs:
        for lc in sorted(local_cursor(f)):
            def el(e, f=f, lc=lc):
                n = e.node if e.kind == "stmt" else None
                if n is None:
                    return None
                if n.get("k") == "opcall" and n.get("op") == "[]" and is_text(n["args"][0]):
                    fm = lin(n["args"][1])
                    if fm and list(fm[1]) == [lc]:
                        return [("need", form(fm[0] + 1), "_text[%s]" % show(n["args"][1]))]
                if n.get("k") == "un" and n.get("op") in ("++", "pre++", "post++") and strip_casts(n["v"]).get("n") == lc:
                    return [("adv", form(1), "++%s" % lc)]
                if n.get("k") == "bin" and n.get("op") in ("=", "+=", "-=") and strip_casts(n["lhs"]).get("n") == lc:
                    return [("reset", None)]
                return None
            w = Window(f, lambda c, t, lc=lc: guard_ops(c, t, lc, SIZE_SYMS), el, init=None)
            r.instance(len(w.checked) + len(w.violations))
            for (e, what) in w.checked:
                r.ok("%s: %s inside the input (index %s)" % (last(f.name), what, lc))
            for (e, need, have, what) in w.violations:
                r.fail(f, e, "outside input: %s" % what, "%s reads `%s` with no dominating `%s < _text.size()` test" % (last(f.name), what, lc))
    # the reported offset is the cursor
    gl = jp(ctx, "_getLocation")
    r.instance()
    offs = [e for e in gl.stmts() if assign_parts(e.node) and show(assign_parts(e.node)[0]).endswith("offset")]
    r.expect(len(offs) == 1 and is_pos(strip_casts(assign_parts(offs[0].node)[1])), gl, offs[0] if offs else None, "error offset source",
             "the reported error offset is not the parser cursor (which R1 keeps inside [0, size])", okdesc="error offset = _pos")
    r.note("summaries: " + "; ".join("%s pre>=%s post(true)>=%s" % (last(f.name), show_form(prog.pre[f]), show_form(prog.post_true[f])) for f in funcs))


def counter_step(n, is_counter):
    """what the expression node `n` itself does to the counter designated by is_counter(node): an int for a constant step (`++c`, `c--`, `c += 2`,
    `c = c - 1`), "other" for any other write (or its address being taken), None when n is no write to it"""
    def isc(x):
        x = strip_casts(x) if isinstance(x, dict) else None
        return x is not None and bool(is_counter(x))
    k = n.get("k")
    if k == "un" and isc(n.get("v")):
        op = n.get("op", "")
        return 1 if "++" in op else -1 if "--" in op else "other" if op == "&" else None
    if k == "bin" and is_assign(n) and isc(n.get("lhs")):
        cv = const_value(strip_casts(n["rhs"]))
        if n["op"] in ("+=", "-=") and cv is not None:
            return cv if n["op"] == "+=" else -cv
        x = strip_casts(n["rhs"])
        if n["op"] == "=" and x.get("k") == "bin" and x.get("op") in ("+", "-"):
            lc, rc = const_value(strip_casts(x["lhs"])), const_value(strip_casts(x["rhs"]))
            if isc(x["lhs"]) and rc is not None:
                return rc if x["op"] == "+" else -rc
            if x["op"] == "+" and isc(x["rhs"]) and lc is not None:
                return lc
        return "other"
    return None


COUNT_CAP = 9       # |ghost count| saturates here: a loop that keeps stepping the counter terminates the analysis and is still reported as non-zero


def depth_counter_balance(ctx, r, pv, F):
    """The nesting depth lives in the JsonParser member F (one counter for all activations).  Two things make it *the nesting depth*:
    (1) bounded recursion — on every path from _parseValue's entry to a recursive _parseValue call the counter has been stepped up, net, by >= 1;
    (2) balance — on every path from _parseValue's entry to a successful return the steps cancel exactly (a ghost count of the `++`/`--` along the
        path, through the container parsers and any helper, is 0).  A successful path that leaves the counter raised leaks one level of depthMax per
        value of that shape: a flat, valid text with enough of them is rejected with 'depth exceeded' (or, lowered, the limit stops bounding the stack).
    Decided by a forward ghost-count dataflow per function (state: set of possible net steps since entry) with callee summaries; the recursion head
    _parseValue is assumed balanced at its recursive call sites and then shown to be (induction over the recursion depth).  Failing returns
    (`return false`) are not constrained: the parse is abandoned."""
    from ..cfg import Forward
    fb = ctx.fb()
    funcs = parser_methods(ctx)
    fam = {}
    for f in funcs:
        fam.setdefault(f.name, []).append(f)
    isF = lambda x: x.get("k") == "member" and field_of(x) == F
    fname = last(F)
    # every occurrence of the counter is a constant step, or a read inside an arithmetic / comparison expression
    steps = {}
    for f in fb.functions:
        if not f.ok:
            continue
        mine = f in funcs
        st = {}
        for e in f.stmts():
            c = counter_step(e.node, isF)
            if c == "other" or (c is not None and not mine):
                raise AnalysisBroken("%s writes the depth counter %s in a way the ghost count cannot follow (`%s`)" % (short(f.name), fname, show(e.node)[:60]))
            if c is not None:
                st[(e.block.id, e.idx)] = c
        for n in f.nodes.values():
            if n.get("k") == "member" and n.get("n") == F:
                pid, p = f.parent.get(n["id"]), None
                while pid is not None:
                    p = f.nodes[pid]
                    if p.get("k") != "cast":
                        break
                    pid, p = f.parent.get(pid), None
                if p is not None and p.get("k") not in ("un", "bin"):
                    raise AnalysisBroken("%s hands the depth counter %s to `%s`: it may be changed where the ghost count does not look" % (short(f.name), fname, show(p)[:60]))
        steps[f] = st
    # initial value: constructor initialiser / default member initialiser
    inits = [e for c in fb.methods_of(JP) if c.kind == "ctor" and c.ok for e in c.elems() if e.kind == "init" and e.raw.get("field") == F]
    r.instance()
    if not inits:
        raise AnalysisBroken("no initialiser of the depth counter %s found in the JsonParser constructors" % fname)
    def init_const(x):
        """constant of `= 0`, `{0}`, `{}` (value-initialised), `(0)`"""
        while isinstance(x, dict) and x.get("k") == "ilist" and len(x.get("vals", [])) == 1:
            x = x["vals"][0]
        if isinstance(x, dict) and x.get("k") == "ilist" and not x.get("vals"):
            return 0
        return const_value(strip_casts(x)) if isinstance(x, dict) else None
    iv = [init_const(e.raw.get("v")) for e in inits]
    if any(v is None for v in iv):
        raise AnalysisBroken("the initial value of the depth counter %s is not a constant" % fname)
    r.expect(all(v == 0 for v in iv), pv, inits[0].raw.get("l"), "depth counter start", "the depth counter %s starts at %s, not 0: texts nested within depthMax are rejected (or the limit is exceeded) by that amount" % (fname, iv),
             okdesc="%s starts at 0" % fname)

    def fam_callee(n):
        if n.get("k") in ("mcall", "call") and n.get("callee") in fam:
            if len(fam[n["callee"]]) != 1:
                raise AnalysisBroken("overloaded parser method %s" % n["callee"])
            return fam[n["callee"]][0]
        return None
    # functions through which the counter can change: those that step it, and their (transitive) callers inside the parser
    R = {f for f in funcs if steps[f]}
    ch = True
    while ch:
        ch = False
        for f in funcs:
            if f not in R and any(fam_callee(e.node) in R for e in f.stmts()):
                R.add(f)
                ch = True

    def bump(st, ds):
        return frozenset(max(-COUNT_CAP, min(COUNT_CAP, x + d)) for x in st for d in ds)
    summ, active = {}, []

    def summary(g):
        """({net step at a successful return: [(function, return element)]}, {net step at a recursive _parseValue call: [(function, call element)]}) relative to g's entry"""
        if g in summ:
            return summ[g]
        if g in active:
            raise AnalysisBroken("recursion among %s that does not pass through _parseValue: the depth ghost count has no induction anchor" % ", ".join(last(x.name) for x in active))
        active.append(g)
        sub = {}
        for e in g.stmts():
            h = fam_callee(e.node)
            if h is not None and h is not pv and h in R:
                sub[(e.block.id, e.idx)] = summary(h)

        def transfer(st, e):
            if e.kind != "stmt":
                return st
            k = (e.block.id, e.idx)
            if k in steps[g]:
                return bump(st, [steps[g][k]])
            if k in sub:
                return bump(st, list(sub[k][0]) or [0])
            return st
        flow = Forward(g, frozenset([0]), transfer, lambda a, b: a | b, eh=False)
        delta, rec = {}, {}
        rets = [e for e in g.stmts() if e.node.get("k") == "ret" and "root" in e.raw]
        for e in rets:
            v = e.node.get("v") if isinstance(e.node.get("v"), dict) else None
            if is_false_return(fb, e):
                continue                                    # `return false` (or an error helper that always returns false): the parse is abandoned
            st = flow.before(e)
            if st is None:
                continue
            tail = strip_casts(v) if v is not None else None
            tk = None
            if tail is not None and tail.get("id") in g.elem_of:
                te = g.elem_of[tail["id"]]
                tk = (te.block.id, te.idx) if (te.block.id, te.idx) in sub else None
            if tk is not None:
                # `return helper(…)`: the success value (and the count) is the helper's — attribute each total to the helper's own return
                for c in flow.before(g.elem_of[tail["id"]]) or ():
                    for d, orig in sub[tk][0].items():
                        delta.setdefault(max(-COUNT_CAP, min(COUNT_CAP, c + d)), []).extend(orig)
                continue
            uncertain = tail is not None and const_value(tail) is None and len(st) > 1
            if uncertain:
                # `return ok;` with different counts on different paths: the paths may be exactly the successful / failing ones
                raise AnalysisBroken("%s returns the variable `%s` with depth counts %s on different paths: success and failure paths are not told apart" % (last(g.name), show(tail)[:30], sorted(st)))
            for c in st:
                delta.setdefault(c, []).append((g, e))
        if (g.raw.get("ret") or "") == "void":
            st = flow.block_in.get(g.exit)
            for c in (st or ()):
                delta.setdefault(c, []).append((g, None))
        for e in g.stmts():
            k = (e.block.id, e.idx)
            if fam_callee(e.node) is pv:
                for c in flow.before(e) or ():
                    rec.setdefault(c, []).append((g, e))
            elif k in sub:
                for c in flow.before(e) or ():
                    for d, orig in sub[k][1].items():
                        rec.setdefault(max(-COUNT_CAP, min(COUNT_CAP, c + d)), []).extend(orig)
        active.pop()
        summ[g] = (delta, rec)
        return summ[g]
    delta, rec = summary(pv)
    if not rec:
        raise AnalysisBroken("no recursive _parseValue call reachable from _parseValue")
    seen = set()
    for c, origs in sorted(rec.items()):
        for (g, e) in origs:
            if (g.name, e.block.id, e.idx) in seen and c >= 1:
                continue
            seen.add((g.name, e.block.id, e.idx))
            r.instance()
            r.expect(c >= 1, g, e, "depth not incremented", "%s recurses into _parseValue on a path along which the depth counter %s has been stepped by %+d since _parseValue tested it (must be >= +1, or the depth limit never triggers)"
                     % (last(g.name), fname, c), okdesc="%s: %s raised by %d before _parseValue" % (last(g.name), fname, c))
    seen = set()
    for c, origs in sorted(delta.items(), key=lambda kv: -abs(kv[0])):
        for (g, e) in origs:
            key = (g.name, (e.block.id, e.idx) if e is not None else None)
            if key in seen:
                continue
            seen.add(key)
            r.instance()
            r.expect(c == 0, g, e if e is not None else g.line, "depth counter unbalanced", "%s returns success on a path along which the depth counter %s has been stepped by %s%+d, net, since _parseValue was entered (the `++`/`--` must cancel "
                     "exactly on every successful path): each value parsed along that path %s one level of _limits.depthMax for the rest of the document, so a flat, valid text with enough of them is %s"
                     % (last(g.name), fname, "at least " if abs(c) >= COUNT_CAP else "", c, "permanently consumes" if c > 0 else "gives back", "rejected with a depth error although it is nested far below the limit" if c > 0 else
                        "parsed with the counter wrapped around / the limit no longer bounding the recursion"),
                     okdesc="%s: %s balanced at the successful return (line %s)" % (last(g.name), fname, e.line if e is not None else g.endline))


def result_container(g):
    """name of the local container a container parser builds: the one local whose value every `out = Json(std::move(X))` assigns to the out-parameter"""
    names = set()
    for e in g.stmts():
        n = e.node
        if n.get("k") == "opcall" and n.get("op") == "=" and len(n.get("args", [])) == 2 and strip_casts(n["args"][0]).get("parm") is not None:
            for x in walk(n["args"][1]):
                if x.get("k") == "ctor" and last(x.get("cls", "")) == "Json":
                    for a in x.get("args", []):
                        v = strip_wrappers(a)
                        if v is not None and v.get("k") == "var" and v.get("parm") is None and ("vector" in (v.get("t") or "") or "map" in (v.get("t") or "")):
                            names.add(v["n"])
    if len(names) != 1:
        raise AnalysisBroken("%s: the container handed to the out-parameter is not one local (%s)" % (last(g.name), sorted(names)))
    return names.pop()


def _loop_guard_path(f, app, chk_block):
    """an append element can be reached again from itself without passing the limit check block"""
    return search(f, app, lambda x: x is app, stop=lambda x: x.block is chk_block, eh=False)


def pn_(ctx):
    return jp(ctx, "_parseNumber")


def r2(ctx, r):
    fb = ctx.fb()
    pv, pa, po, ps = jp(ctx, "_parseValue"), jp(ctx, "_parseArray"), jp(ctx, "_parseObject"), jp(ctx, "_parseString")
    # recursion: depth test dominates the container calls; every cycle increments depth
    def limit_test(b, what, limit):
        """operator of `what OP _limits.limit` in block b's condition, whichever way round it is written"""
        co = common.cmp_oriented(b.cond, lambda x: limit in show(x)) if b.cond is not None else None
        return co[0] if co and show(strip_casts(co[1])) == what else None
    # The depth is whatever `_parseValue` compares with _limits.depthMax: a parameter handed down the recursion, or a member counter.
    # Which of the two (and under which name) is read off the comparison, not assumed.
    chk = []
    for b in pv.blocks.values():
        co = common.cmp_oriented(b.cond, lambda x: "depthMax" in show(x)) if b.cond is not None else None
        if co and co[0] in (">", ">="):
            chk.append((b, strip_casts(co[1])))
    r.instance()
    if not r.expect(unless_moved(len(chk) == 1, [e for e in pv.stmts() if e.node.get("k") != "ret" and not any(e.node is x.node.get("v") or e.node is strip_casts(x.node.get("v") or {}) for x in pv.stmts() if x.node.get("k") == "ret")],
                                 ("_skipWhitespace",), "depth test"), pv, None, "depth test", "_parseValue no longer compares the nesting depth with _limits.depthMax", okdesc="_parseValue: depth > depthMax test present"):
        return
    cb, carrier = chk[0]
    calls = [e for e in pv.stmts() if e.node.get("k") == "mcall" and e.node.get("callee") in (pa.name, po.name)]
    if len(calls) < 2:
        raise AnalysisBroken("_parseValue: container calls not found")
    for e in calls:
        r.instance()
        r.expect(dominated_by_edge(pv, e, cb, 1, eh=False), pv, e, "unbounded recursion: %s" % last(e.node["callee"]),
                 "_parseValue reaches %s on a path that does not pass the false edge of `%s > depthMax`: nesting depth (and stack use) is not bounded by the limit" % (last(e.node["callee"]), show(carrier)),
                 okdesc="%s behind the depth test" % last(e.node["callee"]))
    # the true edge returns false without recursing
    r.instance()
    tb = pv.blocks[cb.succs[0]]
    r.expect(any(is_false_return(fb, e) for e in tb.elems), pv, None, "depth overflow not an error",
             "exceeding depthMax does not return false", okdesc="depth overflow → return false")
    pnames = [p.get("n") for p in pv.params]
    if carrier.get("k") == "var" and carrier["n"] in pnames:
        # (a) parameter form: every activation has its own copy, so the count is balanced by construction; what has to hold is
        # that the value travels _parseValue → container parser unchanged and container parser → _parseValue raised by >= 1
        dname, ip = carrier["n"], pnames.index(carrier["n"])
        if any(counter_step(e.node, lambda x: x.get("k") == "var" and x["n"] == dname) is not None for e in pv.stmts()):
            raise AnalysisBroken("_parseValue writes its depth parameter `%s`" % dname)
        for e in calls:
            g = pa if e.node["callee"] == pa.name else po
            ia = [i for i, a in enumerate(e.node["args"]) if strip_casts(a).get("k") == "var" and strip_casts(a)["n"] == dname]
            r.instance()
            if not r.expect(len(ia) == 1 and ia[0] < len(g.params), pv, e, "depth forwarded: %s" % last(e.node["callee"]), "_parseValue does not forward its depth to %s" % last(e.node["callee"]), okdesc="depth forwarded"):
                continue
            gname = g.params[ia[0]].get("n")
            # recursive calls: in the container parser itself, or in a parser method it hands its depth to (followed, with the amount added on the way)
            pm = {f.name: f for f in parser_methods(ctx)}
            rec, work, seen_h = [], [(g, gname, 0)], set()
            while work:
                h, hname, add = work.pop()
                if (h.name, hname) in seen_h:
                    continue
                seen_h.add((h.name, hname))
                if any(counter_step(x.node, lambda y: y.get("k") == "var" and y["n"] == hname) is not None for x in h.stmts()):
                    raise AnalysisBroken("%s writes its depth parameter `%s`" % (last(h.name), hname))
                for x in h.stmts():
                    if x.node.get("k") != "mcall" or x.node.get("callee") not in pm:
                        continue
                    if x.node["callee"] == pv.name:
                        rec.append((h, hname, add, x))
                    elif pm[x.node["callee"]] not in (pa, po):
                        for i, a_ in enumerate(x.node.get("args", [])):
                            fm = lin(a_)
                            if fm is not None and list(fm[1]) == [hname] and i < len(pm[x.node["callee"]].params) and "&" not in (pm[x.node["callee"]].params[i].get("t") or ""):
                                work.append((pm[x.node["callee"]], pm[x.node["callee"]].params[i]["n"], add + fm[0]))
            if not rec:
                raise AnalysisBroken("%s: recursive _parseValue call not found" % last(g.name))
            for (h, hname, add, x) in rec:
                fm = lin(x.node["args"][ip]) if ip < len(x.node["args"]) else None
                r.instance()
                r.expect(fm is not None and list(fm[1]) == [hname] and fm[0] + add >= 1, h, x, "depth not incremented", "%s recurses into _parseValue with depth argument `%s` (must be %s + k, k >= 1, or the depth limit never triggers)"
                         % (last(h.name), show(x.node["args"][ip]) if ip < len(x.node["args"]) else "?", hname), okdesc="%s: _parseValue(…, %s + %s)" % (last(h.name), hname, (fm[0] + add) if fm else "?"))
    elif carrier.get("k") == "member" and field_of(carrier) and field_of(carrier).startswith(JP + "::"):
        # (b) member form: one counter shared by all activations
        depth_counter_balance(ctx, r, pv, field_of(carrier))
    else:
        raise AnalysisBroken("_parseValue compares `%s` with depthMax: neither a parameter of _parseValue nor a JsonParser member — the rule cannot tell how the depth is carried" % show(carrier))
    # any other recursion inside the parser family must go through _parseValue
    fam = {f.name: f for f in parser_methods(ctx)}
    for f in fam.values():
        for e in f.stmts():
            if e.node.get("k") == "mcall" and e.node.get("callee") in (pa.name, po.name) and f is not pv:
                r.instance()
                r.fail(f, e, "container parser called outside _parseValue", "%s calls %s directly, bypassing the depth test in _parseValue" % (last(f.name), last(e.node["callee"])))
    # size limits precede growth.  The container is the local whose value the function hands to its out-parameter (`out = Json(std::move(X))`),
    # not a name; a parser method that receives it by non-const reference (one `"key": value` pair extracted into a helper) is followed one level:
    # the call is the growth site in the caller, and inside the helper the growth must not sit in a loop of its own.
    fam = {f.name: f for f in parser_methods(ctx)}
    GROW = ("push_back", "emplace_back", "insert", "emplace", "insert_or_assign", "try_emplace", "emplace_hint")

    def grows(n, var):
        return (n.get("k") == "mcall" and last(n.get("callee", "")) in GROW and strip_casts(n.get("obj") or {}).get("n") == var) or \
               (n.get("k") == "opcall" and n.get("op") == "[]" and strip_casts(n["args"][0]).get("n") == var and "map" in (strip_casts(n["args"][0]).get("t") or "map"))
    member_stores = []           # (function, element) of every store into the object's map, for the duplicate-key clause
    for (g, limit) in ((pa, "arrayItemsMax"), (po, "membersMax")):
        var = result_container(g)
        apps = [e for e in g.stmts() if grows(e.node, var)]
        inner = []
        for e in g.stmts():
            n = e.node
            if n.get("k") == "mcall" and n.get("callee") in fam and fam[n["callee"]] not in (pv, pa, po):
                for i, a_ in enumerate(n.get("args", [])):
                    h = fam[n["callee"]]
                    if strip_casts(a_).get("k") == "var" and strip_casts(a_)["n"] == var and i < len(h.params) and "&" in (h.params[i].get("t") or "") and "const" not in (h.params[i].get("t") or ""):
                        hs = [x for x in h.stmts() if grows(x.node, h.params[i]["n"])]
                        if any(search(h, x, lambda y, x=x: y is x, eh=False) is not None for x in hs) or var_written(h, h.params[i]["n"]) and not hs:
                            raise AnalysisBroken("%s grows the container it receives from %s inside a loop of its own (or in a way the limit clause does not follow)" % (last(h.name), last(g.name)))
                        if hs:
                            apps.append(e)
                            inner += [(h, x) for x in hs]
        if g is po:
            member_stores = [(g, e) for e in apps if e.node.get("k") != "mcall" or e.node.get("callee") not in fam] + inner
        cbs = [b for b in g.blocks.values() if limit_test(b, var + ".size()", limit)]
        if not apps:
            raise AnalysisBroken("%s: no growth site of `%s` found" % (last(g.name), var))
        for e in apps:
            r.instance()
            ok = len(cbs) == 1 and limit_test(cbs[0], var + ".size()", limit) in (">=", ">") and dominated_by_edge(g, e, cbs[0], 1, eh=False) and _loop_guard_path(g, e, cbs[0]) is None
            unless_moved(bool(cbs), [x for x in g.stmts() if x not in apps], ("_parseValue", "_skipWhitespace", "_parseString"), "%s limit test" % limit)
            r.expect(ok, g, e, "growth before limit: %s" % var, "%s grows `%s` on a path (or loop iteration) that does not pass the false edge of `%s.size() >= _limits.%s`" % (last(g.name), var, var, limit),
                     okdesc="%s: %s grows only behind the %s test" % (last(g.name), var, limit))
    # duplicate keys: the later member replaces the earlier one (what RFC 8259 leaves open, every common decoder — and the
    # property's reference decoder — resolves as "last wins")
    r.instance()
    if not member_stores:
        raise AnalysisBroken("_parseObject: member store not found")
    stores = [e for (_, e) in member_stores]
    okd = all((e.node.get("k") != "mcall") or last(e.node.get("callee", "")) == "insert_or_assign" for e in stores)
    r.expect(okd, member_stores[0][0], stores[0], "duplicate key keeps the first value", "%s stores a member with %s, which leaves an existing key untouched: for `{\"a\":1,\"a\":2}` the first value wins, while the reference decoder "
             "(and the assignment `obj[key] = value`) keep the last" % (last(member_stores[0][0].name), last(stores[0].node.get("callee", "")) if stores[0].node.get("k") == "mcall" else "?"), okdesc="duplicate keys: last member wins (assignment through operator[])")
    # integers that do not fit 64 bits fall back to the floating-point conversion instead of failing
    ib = [b for b in pn_(ctx).blocks.values() if b.cond is not None and common.cmp_parts(b.cond) and ".ec" in show(common.cmp_parts(b.cond)[1]) and "errc" in show(common.cmp_parts(b.cond)[2])]
    r.instance()
    okf = len(ib) == 1
    if okf:
        f_ = pn_(ctx)
        op = common.cmp_parts(ib[0].cond)[0]
        fail_edge = 1 if op == "==" else 0
        els = []
        work, seenb = [ib[0].succs[fail_edge]], set()
        while work:
            bb = work.pop()
            if bb is None or bb in seenb or bb == ib[0].id:
                continue
            seenb.add(bb)
            els.extend(f_.blocks[bb].elems)
            if len(seenb) < 4:
                work.extend(f_.blocks[bb].succs)
        okf = any(x.kind == "stmt" and x.node.get("k") in ("call", "mcall") and last(x.node.get("callee", "")) in ("strtod", "stod", "_toDouble", "from_chars") for x in els) and \
            not any(is_false_return(fb, x) for x in els[:6])
    unless_moved(okf, list(pn_(ctx).stmts()), ("_toDouble",), "int64 overflow fallback")
    r.expect(okf, pn_(ctx), None, "integer overflow not decoded", "an integer literal that does not fit std::int64_t (from_chars reports an error) is not converted as a floating-point number: valid texts such as 1e19 written as "
             "10000000000000000000 are rejected or decoded wrongly", okdesc="int64 overflow → floating-point conversion")
    # string length
    apps = [e for e in ps.stmts() if (e.node.get("k") == "opcall" and e.node.get("op") == "+=" and strip_casts(e.node["args"][0]).get("n") == "str")
            or (e.node.get("k") in ("call", "mcall") and any(strip_casts(a).get("n") == "str" and "&" in (strip_casts(a).get("t") or "&") for a in e.node.get("args", [])) and last(e.node.get("callee", "")) not in ("move", "Json"))
            or (e.node.get("k") == "mcall" and strip_casts(e.node.get("obj") or {}).get("n") == "str" and last(e.node.get("callee", "")) in ("push_back", "append", "insert"))]
    cbs = [b for b in ps.blocks.values() if limit_test(b, "str.size()", "stringLengthMax") in (">", ">=")]
    if len(apps) < 9:
        raise AnalysisBroken("_parseString: only %d appends to `str` found (floor 9)" % len(apps))
    for e in apps:
        r.instance()
        ok = len(cbs) == 1 and dominated_by_edge(ps, e, cbs[0], 1, eh=False) and _loop_guard_path(ps, e, cbs[0]) is None
        unless_moved(bool(cbs), [x for x in ps.stmts() if not any(strip_casts(a).get("n") == "str" for a in x.node.get("args", []))], ("_parseHex4", "_appendUtf8"), "stringLengthMax test")
        r.expect(ok, ps, e, "string growth before limit", "_parseString appends to `str` (%s) on a path or iteration that does not pass the stringLengthMax test" % show(e.node)[:40], okdesc="_parseString: append behind the stringLengthMax test")


RFC_ESC = {ord('"'): ord('"'), ord('\\'): ord('\\'), ord('/'): ord('/'), ord('b'): 8, ord('f'): 12, ord('n'): 10, ord('r'): 13, ord('t'): 9}
MUST_ESCAPE = set(range(32)) | {ord('"'), ord('\\')}


def switch_on(f, varname):
    bs = [b for b in f.blocks.values() if b.term and b.term.get("k") == "SwitchStmt" and b.cond is not None and strip_casts(b.cond).get("n") == varname]
    if len(bs) != 1:
        raise AnalysisBroken("%s: %d switch statements over `%s`" % (last(f.name), len(bs), varname))
    return bs[0]


def arm_elems(f, sw, si):
    """elements reachable from the si-th switch edge up to the switch's follow block (the target of its `break`s)"""
    from collections import Counter
    reach, work = set(), [s for s in sw.succs if s is not None]
    while work:
        b = work.pop()
        if b in reach:
            continue
        reach.add(b)
        work.extend(s for s in f.blocks[b].succs if s is not None)
    tgt = Counter(s for b in reach for s in f.blocks[b].succs if f.blocks[b].term and f.blocks[b].term.get("k") == "BreakStmt" and s is not None)
    follow = tgt.most_common(1)[0][0] if tgt else None
    out, seen, work = [], set(), [sw.succs[si]]
    while work:
        b = work.pop()
        if b in seen or b is None or b == follow or b == sw.id:
            continue
        seen.add(b)
        out.extend(f.blocks[b].elems)
        for s in f.blocks[b].succs:
            work.append(s)
    return out, seen


def r3(ctx, r):
    fb = ctx.fb()
    ps, es = jp(ctx, "_parseString"), fb.func(JS + "::_escapeString", file_suffix=JF)
    # ---- parser table
    sw = switch_on(ps, "c")
    ptable, uarm, default_si = {}, None, None
    for si in range(len(sw.succs)):
        lab = sw.edge_label(si)
        if lab == "default":
            default_si = si
            continue
        if not lab:
            continue
        cv = const_value(lab[1])
        els, blocks = arm_elems(ps, sw, si)
        apps = [e for e in els if e.kind == "stmt" and e.node.get("k") == "opcall" and e.node.get("op") == "+=" and strip_casts(e.node["args"][0]).get("n") == "str"]
        if cv == ord('u'):
            uarm = (si, els, blocks)
            continue
        r.instance()
        val = const_value(strip_casts(apps[0].node["args"][1])) if len(apps) == 1 else None
        want = RFC_ESC.get(cv)
        r.expect(unless_moved(want is not None and val == want, els, (), "escape arm 0x%02x" % (cv or 0)), ps, apps[0] if apps else None, "escape \\%s" % (chr(cv) if cv and 32 < cv < 127 else cv),
                 "_parseString decodes the escape `\\%s` to %s; RFC 8259 §7 defines %s" % (chr(cv) if cv and 32 < cv < 127 else cv, "0x%02x" % val if val is not None else "a non-constant / several appends",
                                                                                       "0x%02x" % want if want is not None else "no such escape"), okdesc="\\%s → 0x%02x" % (chr(cv), val or 0))
        ptable[cv] = val
    r.instance()
    missing = sorted(set(RFC_ESC) - set(ptable))
    r.expect(not missing, ps, None, "escape missing", "_parseString has no arm for the RFC 8259 escapes %s: valid texts are rejected" % ", ".join("\\" + chr(c) for c in missing), okdesc="all 8 single-character escapes have an arm")
    r.instance()
    dels = arm_elems(ps, sw, default_si)[0] if default_si is not None else []
    r.expect(default_si is not None and any(is_false_return(fb, e) for e in dels)
             and not any(e.kind == "stmt" and e.node.get("k") == "opcall" and e.node.get("op") == "+=" for e in dels), ps, None, "unknown escape accepted",
             "an escape letter outside the RFC 8259 table is not rejected", okdesc="unknown escape → error")
    # ---- \u arm
    r.instance()
    if not r.expect(uarm is not None, ps, None, "escape \\u missing", "_parseString has no arm for \\uXXXX"):
        return
    si, els, blocks = uarm
    hex4 = jp(ctx, "_parseHex4")
    uf, out_name = ps, "str"          # the function that holds the \\u logic, and its name for the string being built

    def fails_false(f, call):
        """the call is the operand of a two-way branch whose 'call returned false' edge leads straight to `return false`"""
        c, st, sf = common.branch(call.block)
        if c is None or c is not call.node or sf is None:
            return False
        return any(is_false_return(fb, e) for e in f.blocks[sf].elems)
    is_hex = lambda e: e.kind == "stmt" and e.node.get("k") == "mcall" and e.node.get("callee") == hex4.name
    is_enc = lambda e: e.kind == "stmt" and e.node.get("k") in ("call", "mcall") and last(e.node.get("callee", "")) == "_appendUtf8"
    if not any(is_hex(e) or is_enc(e) for e in els):
        # the arm's body may have been moved into a helper of the parser that receives the string: follow the call (one level), map the
        # helper's parameter to `str`, and judge the helper's body as the arm; the call itself must propagate failure
        fam = {f.name: f for f in parser_methods(ctx)}
        hc = [(e, i) for e in els if e.kind == "stmt" and e.node.get("k") == "mcall" and e.node.get("callee") in fam and fam[e.node["callee"]] is not ps
              for i, a in enumerate(e.node.get("args", [])) if strip_casts(a).get("k") == "var" and strip_casts(a)["n"] == "str"]
        if len(hc) == 1 and hc[0][1] < len(fam[hc[0][0].node["callee"]].params) and "&" in (fam[hc[0][0].node["callee"]].params[hc[0][1]].get("t") or "") \
                and "const" not in (fam[hc[0][0].node["callee"]].params[hc[0][1]].get("t") or ""):
            call, ai = hc[0]
            uf = fam[call.node["callee"]]
            out_name = uf.params[ai]["n"]
            r.instance()
            r.expect(fails_false(ps, call), ps, call, "hex failure ignored", "a failing %s (the \\u decoder) does not make _parseString return false" % last(uf.name), okdesc="%s failure → return false" % last(uf.name))
            els, blocks = list(uf.elems()), set(uf.blocks)
    hcalls = [e for e in els if is_hex(e)]
    enc = [e for e in els if is_enc(e)]
    raw_apps = [e for e in els if e.kind == "stmt" and e.node.get("k") == "opcall" and e.node.get("op") == "+=" and strip_casts(e.node["args"][0]).get("n") == out_name]
    r.instance()
    if not r.expect(unless_moved(len(hcalls) == 2 and len(enc) == 1 and not raw_apps, els, ("_parseHex4", "_appendUtf8"), "\\u arm"), uf, (raw_apps or [None])[0], "\\u decoding shape",
                    "the \\u arm must read four hex digits (twice for a surrogate pair) and append the UTF-8 encoding of the decoded code point; found %d _parseHex4 calls, %d encoder calls, %d literal appends"
                    % (len(hcalls), len(enc), len(raw_apps)), okdesc="\\u arm: 2 hex reads, one UTF-8 append"):
        return
    if elem_dom(uf, hcalls[1], hcalls[0]):
        hcalls.reverse()                 # decoding order, not block numbering
    if any(not h.node.get("args") for h in hcalls):
        raise AnalysisBroken("_parseHex4 hands its result back as a return value (no out-parameter): the \\u clauses identify the decoded units through the "
                             "out-parameter variable and do not follow a returned optional / pair")
    hi_var = strip_casts(hcalls[0].node["args"][0]).get("n")
    lo_var = strip_casts(hcalls[1].node["args"][0]).get("n")
    cpv = strip_casts(enc[0].node["args"][1]).get("n")
    r.instance()
    r.expect(cpv == hi_var and elem_dom(uf, hcalls[0], enc[0]) and strip_casts(enc[0].node["args"][0]).get("n") == out_name, uf, enc[0], "encoded value",
             "the value appended for \\u is `%s`, not the variable the hex digits were decoded into (`%s`), or it is not appended to the string being built" % (cpv, hi_var),
             okdesc="appended code point is the decoded variable")
    if uf is not ps:
        # a helper reports success only after it has appended the code point
        r.instance()
        w = search(uf, ("entry",), lambda e: e.kind == "stmt" and e.node.get("k") == "ret" and "root" in e.raw and const_value(strip_casts(e.node.get("v") or {})) != 0, stop=lambda e: e is enc[0], eh=False)
        r.expect(w is None, uf, enc[0], "\\u decoded to nothing", "%s can return success without having appended the decoded code point (%s)" % (last(uf.name), witness_str(uf, w)), okdesc="%s: success only after the append" % last(uf.name))
    # every hex read that fails returns false
    for h in hcalls:
        r.instance()
        r.expect(fails_false(uf, h), uf, h, "hex failure ignored", "a failing _parseHex4 does not make %s return false" % last(uf.name), okdesc="hex failure → return false")
    # hex4: 4 digits, base 16, all consumed
    fc = [e for e in hex4.stmts() if e.node.get("k") == "call" and last(e.node.get("callee", "")) == "from_chars"]
    r.instance()
    okh = False
    if len(fc) == 1:
        a = fc[0].node["args"]

        def plin(n):
            """linear form with named constants folded and const pointer locals (`end = first + 4`) replaced by their definition"""
            fm = lin(fold_named(hex4, n))
            for _ in range(4):
                if fm is None or len(fm[1]) != 1 or (strip_casts(a[0]).get("k") == "var" and fm[1][0] == strip_casts(a[0])["n"]):
                    break
                d = [v for e in hex4.stmts() if e.node.get("k") == "decl" for v in e.node["vars"] if v["n"] == fm[1][0] and "*" in (v.get("t") or "") and "const" in (v.get("t") or "").split("*")[-1] and isinstance(v.get("init"), dict)]
                g = lin(fold_named(hex4, d[0]["init"])) if len(d) == 1 else None
                if g is None or len(g[1]) != 1:
                    break
                fm = form(fm[0] + g[0], g[1])
            return fm
        span = plin(a[1])
        base = const_value(strip_casts(a[3])) if len(a) > 3 else 10
        cmpok = any(common.cmp_parts(x) and common.cmp_parts(x)[0] == "!=" and ".ptr" in show(common.cmp_parts(x)[1]) and plin(common.cmp_parts(x)[2]) == span
                    for b in hex4.blocks.values() if b.cond is not None for x in walk(b.cond))
        outp = strip_casts(a[2]).get("parm") is not None or strip_casts(a[2]).get("k") == "var"
        okh = span is not None and span[0] == 4 and base == 16 and cmpok and outp
    r.expect(unless_moved(okh, list(hex4.stmts()), (), "_parseHex4"), hex4, fc[0] if fc else None, "hex digits", "_parseHex4 does not decode exactly four base-16 digits into its out-parameter with a full-consumption test", okdesc="_parseHex4: from_chars(first, first+4, unit, 16), ptr == first+4")
    # pair combination: exact evaluation over the guard-delimited ranges
    comb = [e for e in els if e.kind == "stmt" and assign_parts(e.node) and strip_casts(assign_parts(e.node)[0]).get("n") == cpv
            and any(x.get("k") == "var" and x["n"] == lo_var for x in walk(assign_parts(e.node)[1]))]
    r.instance()
    if r.expect(len(comb) == 1, uf, None, "surrogate pair not combined", "no assignment combines the two \\u units (`%s`, `%s`) of a surrogate pair into one code point" % (hi_var, lo_var)):
        e = comb[0]
        facts = dominating_facts(uf, e)
        hlo, hhi = interval_of(facts, hi_var)
        llo, lhi = interval_of(facts, lo_var)
        r.instance()
        if r.expect((hlo, hhi, llo, lhi) == (0xD800, 0xDBFF, 0xDC00, 0xDFFF), uf, e, "surrogate ranges",
                    "the pair combination is guarded by %s in [%s, %s] and %s in [%s, %s]; UTF-16 requires a high surrogate D800–DBFF followed by a low surrogate DC00–DFFF"
                    % (hi_var, hx(hlo), hx(hhi), lo_var, hx(llo), hx(lhi)), okdesc="pair guarded by hi∈[D800,DBFF], lo∈[DC00,DFFF]"):
            try:
                fn, t, code = compile_expr(assign_parts(e.node)[1], [hi_var, lo_var])
            except NotPure as ex:
                raise AnalysisBroken("pair combination expression is not a pure integer expression: %s" % ex)
            bad = None
            for h in range(hlo, hhi + 1):
                base = 0x10000 + ((h - 0xD800) << 10) - 0xDC00
                for l in range(llo, lhi + 1):
                    if fn(h, l) != base + l:
                        bad = (h, l, fn(h, l), base + l)
                        break
                if bad:
                    break
            r.instance()
            r.expect(bad is None, uf, e, "surrogate pair arithmetic", "the pair combination `%s` yields U+%X for \\u%04x\\u%04x; UTF-16 defines U+%X (0x10000 + ((hi-0xD800)<<10) + (lo-0xDC00))"
                     % ((show(assign_parts(e.node)[1]),) + ((bad[2], bad[0], bad[1], bad[3]) if bad else (0, 0, 0, 0))), okdesc="pair combination equals the UTF-16 definition on all 1048576 pairs")
            # no write to the units between their decoding and the combination other than the hex reads
    # lone surrogates rejected before encoding
    facts = dominating_facts(uf, enc[0])
    r.instance()
    sur = [b for b in uf.blocks.values() if b.id in blocks and b.cond is not None]
    okl = surrogate_excluded(uf, enc[0], cpv, blocks)
    if not okl and any(x.get("k") in ("call", "mcall") and (x.get("callee") or "").startswith("iora::") and last(x["callee"]) not in ("_parseHex4", "_appendUtf8") and any(strip_casts(a).get("n") == cpv for a in x.get("args", [])) for b in uf.blocks.values() if b.cond is not None for x in walk(b.cond)):
        raise AnalysisBroken("lone-surrogate rejection: `%s` is tested through a function call the interval analysis does not look into" % cpv)
    r.expect(okl, uf, enc[0], "surrogate encoded", "a code point in D800–DFFF can reach the UTF-8 encoder (lone or mis-ordered surrogates must be rejected, or the output is not valid UTF-8 and does not round-trip)",
             okdesc="D800–DFFF rejected before encoding")
    r_utf8(ctx, r, jp(ctx, "_appendUtf8"), "cp", "str")
    # ---- serializer table
    r_escape(ctx, r, es, ptable)


def hx(v):
    return "%X" % v if v is not None else "unbounded"


def elem_dom(f, a, b):
    from ..cfg import elem_dominates
    return elem_dominates(f, a, b, eh=False)


def surrogate_excluded(f, enc, var, blocks):
    """no path reaches `enc` with var in [D800, DFFF]: interval dataflow restricted to the tests on `var`"""
    from ..predabs import Vocab, PredAbs, A, Not, And
    vocab = Vocab(["ge", "le"])

    def leaf(n):
        cp = common.cmp_parts(n)
        if cp and strip_casts(cp[1]).get("n") == var and const_value(cp[2]) is not None:
            if cp[0] == ">=" and const_value(cp[2]) == 0xD800:
                return A("ge")
            if cp[0] == "<=" and const_value(cp[2]) == 0xDFFF:
                return A("le")
            if cp[0] == "<" and const_value(cp[2]) == 0xD800:
                return Not(A("ge"))
            if cp[0] == ">" and const_value(cp[2]) == 0xDFFF:
                return Not(A("le"))
        return None

    def effects(e):
        if e.kind != "stmt":
            return None
        n = e.node
        ap = assign_parts(n)
        if ap and strip_casts(ap[0]).get("n") == var:
            return [("havoc", "ge"), ("havoc", "le")]
        if n.get("k") in ("call", "mcall") and e is not enc and any(strip_casts(a).get("n") == var for a in n.get("args", [])):
            return [("havoc", "ge"), ("havoc", "le")]
        if n.get("k") == "decl" and any(v["n"] == var for v in n["vars"]):
            return [("havoc", "ge"), ("havoc", "le")]
        return None
    pa = PredAbs(f, vocab, leaf, effects)
    return pa.entails(enc, Not(And(A("ge"), A("le"))))


def utf8_ref(cp):
    return list(chr(cp).encode("utf-8", "surrogatepass"))


def r_utf8(ctx, r, f, var, out):
    """the encoder's byte expressions, branch by branch, against the UTF-8 definition (exact over each interval)"""
    apps = [e for e in f.stmts() if e.node.get("k") == "opcall" and e.node.get("op") == "+=" and strip_casts(e.node["args"][0]).get("n") == out]
    if len(apps) != 10:
        raise AnalysisBroken("%s: %d byte appends (expected 1+2+3+4)" % (last(f.name), len(apps)))
    by_block = {}
    for e in apps:
        by_block.setdefault(e.block.id, []).append(e)
    covered = []
    for bid, es in sorted(by_block.items()):
        es.sort(key=lambda e: e.idx)
        facts = dominating_facts(f, es[0])
        lo, hi = interval_of(facts, var)
        lo = 0 if lo is None else lo
        hi = 0x10FFFF if hi is None else min(hi, 0x10FFFF)
        try:
            fns = [compile_expr(e.node["args"][1], [var])[0] for e in es]
        except NotPure as ex:
            raise AnalysisBroken("%s: byte expression not pure: %s" % (last(f.name), ex))
        bad = None
        for cp in range(lo, hi + 1):
            if 0xD800 <= cp <= 0xDFFF:
                continue
            got = [fn(cp) & 0xFF for fn in fns]
            if got != utf8_ref(cp):
                bad = (cp, got, utf8_ref(cp))
                break
        r.instance()
        r.expect(bad is None, f, es[0], "UTF-8 bytes for [%X,%X]" % (lo, hi), "%s encodes U+%X as %s; UTF-8 defines %s" % ((last(f.name),) + ((bad[0], bytes(bad[1]).hex(), bytes(bad[2]).hex()) if bad else (0, "", ""))),
                 okdesc="%s: %d-byte form exact on U+%X…U+%X" % (last(f.name), len(es), lo, hi))
        covered.append((lo, hi))
    covered.sort()
    r.instance()
    ok = covered and covered[0][0] == 0 and covered[-1][1] == 0x10FFFF and all(covered[i][1] + 1 == covered[i + 1][0] for i in range(len(covered) - 1))
    r.expect(ok, f, None, "UTF-8 ranges", "the encoder's branches cover %s instead of a partition of U+0…U+10FFFF" % covered, okdesc="encoder branches partition U+0…U+10FFFF")


class NotEvaluable(Exception):
    pass


class ByteEval:
    """Exact evaluation of a character-at-a-time encoder, one input byte at a time: the CFG of the loop body (and of the pure single-character
    helpers of the same class it calls) is followed for a concrete value of the loop variable — branch conditions, switch labels, locals holding
    a literal or a formatted buffer — and the pieces appended to the output string are collected.  Nothing of the program runs: this is constant
    folding of the source's own AST over the 256 possible inputs, so it does not depend on how the table is spelled (one switch, a lookup
    helper, guard clauses with `continue`, named constants).  Anything outside the fragment (stores through pointers, loops, unknown calls)
    raises NotEvaluable, which the rule turns into a refusal."""

    def __init__(self, fb, cls, filesuffix):
        self.fb, self.cls, self.filesuffix = fb, cls, filesuffix
        self._cc = {}

    def _int(self, n, env):
        names = sorted(k for k, v in env.items() if isinstance(v, int))
        key = (id(n), tuple(names))
        if key not in self._cc:
            try:
                self._cc[key] = compile_expr(n, names)[0]
            except NotPure as ex:
                raise NotEvaluable("`%s` is not a pure integer expression (%s)" % (show(n)[:50], ex))
        return self._cc[key](*[env[k] for k in names])

    def value(self, f, n, env):
        """int | ("lit", text) | None (null pointer)"""
        x = strip_casts(n)
        k = x.get("k")
        if k == "null":
            return None
        if k == "str":
            return ("lit", x.get("v") or "")
        if k == "var" and x["n"] in env and not isinstance(env[x["n"]], int):
            return env[x["n"]]
        if k == "cond" and isinstance(x.get("t"), dict):
            return self.value(f, x["t"] if self._int(x["c"], env) else x["f"], env)
        if k in ("call", "mcall") and (x.get("callee") or "").startswith(self.cls + "::"):
            gs = [g for g in self.fb.funcs(x["callee"], self.filesuffix) if g.ok]
            args = [a for a in x.get("args", []) if not a.get("def")]
            if len(gs) != 1 or len(gs[0].params) != len(args):
                raise NotEvaluable("cannot resolve %s" % x["callee"])
            return self.run(gs[0], gs[0].entry, {p["n"]: self._narrow(self.value(f, a, env), p.get("t")) for p, a in zip(gs[0].params, args)}, None, set())[1]
        return self._int(n, env)

    @staticmethod
    def _narrow(v, t):
        from ..finite import _ty, WIDTH, SIGNED, _s
        if not isinstance(v, int):
            return v
        t = _ty(t)
        if t not in WIDTH:
            raise NotEvaluable("parameter of type %s" % t)
        return _s(v, WIDTH[t]) if t in SIGNED else v & ((1 << WIDTH[t]) - 1)

    def run(self, f, start, env, outvar, stop_blocks, depth=0):
        """(list of appended pieces, returned value): follow f from block `start` until a return or a block of stop_blocks"""
        if depth > 3:
            raise NotEvaluable("helper nesting too deep")
        env = dict(env)
        # named constants of the function (`constexpr unsigned char firstPrintable = 32`)
        for e in f.stmts():
            if e.node.get("k") == "decl":
                for v in e.node["vars"]:
                    if "const" in (v.get("t") or "") and "*" not in (v.get("t") or "") and isinstance(v.get("init"), dict) and const_value(v["init"]) is not None and v["n"] not in env:
                        env[v["n"]] = self._narrow(const_value(v["init"]), v.get("t"))
        out, bid = [], start
        is_out = lambda x: outvar is not None and isinstance(x, dict) and strip_wrappers(x) is not None and strip_wrappers(x).get("k") == "var" and strip_wrappers(x)["n"] == outvar
        for _ in range(200):
            if bid in stop_blocks:
                return out, None
            b = f.blocks[bid]
            for e in b.elems:
                if e.kind != "stmt" or "root" not in e.raw:
                    continue
                n = e.node
                k = n.get("k")
                if k == "ret":
                    return out, (self.value(f, n["v"], env) if isinstance(n.get("v"), dict) else None)
                if b.cond is not None and (n is b.cond or n.get("id") == b.cond.get("id") or n.get("id") == (b._raw_cond() or {}).get("id")):
                    continue
                if k == "decl":
                    for v in n["vars"]:
                        i = v.get("init")
                        if v["n"] in env and isinstance(i, dict) and strip_casts(i).get("k") in ("un", "opcall") and "*" in (strip_casts(i).get("op") or ""):
                            continue                     # the loop variable itself (`char c = *__begin`): its value is the input
                        if i is None:
                            env.pop(v["n"], None)
                        elif "const" in (v.get("t") or "") and v["n"] in env and const_value(i) is not None:
                            continue
                        else:
                            val = self.value(f, i, env)
                            env[v["n"]] = self._narrow(val, v.get("t")) if isinstance(val, int) else val
                    continue
                if k == "opcall" and n.get("op") == "+=" and is_out(n["args"][0]):
                    x = strip_casts(n["args"][1])
                    val = self.value(f, x, env)
                    if val is None:
                        raise NotEvaluable("a null pointer is appended")
                    out.append(bytes([val & 0xFF]) if isinstance(val, int) else val[1].encode("latin-1", "replace"))
                    continue
                if k == "mcall" and is_out(n.get("obj")) and last(n.get("callee", "")) in ("push_back", "append") and len(n.get("args", [])) == 1:
                    val = self.value(f, n["args"][0], env)
                    if val is None:
                        raise NotEvaluable("a null pointer is appended")
                    out.append(bytes([val & 0xFF]) if isinstance(val, int) else val[1].encode("latin-1", "replace"))
                    continue
                if k == "call" and last(n.get("callee", "")) in ("snprintf", "sprintf"):
                    a = n["args"]
                    sn = last(n["callee"]) == "snprintf"
                    dst, fmt, rest = strip_casts(a[0]), strip_casts(a[2 if sn else 1]), a[3 if sn else 2:]
                    if dst.get("k") != "var" or fmt.get("k") != "str":
                        raise NotEvaluable("snprintf with a non-literal format or computed destination")
                    import re as _re
                    specs = _re.findall(r"%[^%]", fmt["v"].replace("%%", ""))
                    if not _re.fullmatch(r"(?:[^%]|%%|%0?\d*[xXu])*", fmt["v"]) or len(specs) != len(rest):
                        raise NotEvaluable("format `%s`" % fmt["v"])
                    text = fmt["v"] % tuple(self._int(x, env) & 0xFFFFFFFF for x in rest)      # int varargs read back as unsigned int
                    cap = const_value(strip_casts(a[1])) if sn else None
                    m = _re.match(r"char\s*\[(\d+)\]", dst.get("t") or "")
                    room = int(m.group(1)) if m else None
                    if sn and cap is None or (cap is not None and room is not None and cap > room):
                        raise NotEvaluable("snprintf size argument is not a constant within the buffer")
                    if cap is None and room is not None and len(text) + 1 > room:
                        raise NotEvaluable("sprintf overflows its buffer")
                    env[dst["n"]] = ("lit", text if cap is None else text[:max(cap - 1, 0)])
                    continue
                if k in ("bin", "un", "cast", "var", "member", "int", "char", "bool") and not is_assign(n) and not (k == "un" and ("++" in n.get("op", "") or "--" in n.get("op", ""))):
                    continue                             # a condition fragment evaluated at the terminator
                raise NotEvaluable("statement `%s` is outside the evaluable fragment" % show(n)[:60])
            succs = b.succs
            if b.term and b.term.get("k") == "SwitchStmt" and b.cond is not None:
                val = self._int(b.cond, env)
                nxt, dflt = None, None
                for s_ in succs:
                    if s_ is None:
                        continue
                    labs = f.blocks[s_].raw.get("labels") or ([f.blocks[s_].label] if f.blocks[s_].label else [])
                    if any(lb and lb.get("k") == "case" and lb.get("v") and const_value(lb["v"]) == val for lb in labs):
                        nxt = s_
                    if any(lb and lb.get("k") == "default" for lb in labs) or not labs:
                        dflt = s_
                bid = nxt if nxt is not None else dflt
                if bid is None:
                    raise NotEvaluable("switch without a matching edge")
                continue
            live = [s_ for s_ in succs if s_ is not None]
            if b.cond is not None and len(succs) == 2:
                c = strip_casts(b.cond)
                if c.get("k") == "var" and c["n"] in env and not isinstance(env[c["n"]], int):
                    truth = env[c["n"]] is not None
                else:
                    v_ = self.value(f, b.cond, env)
                    truth = (v_ is not None) if not isinstance(v_, int) else bool(v_)
                bid = succs[0] if truth else succs[1]
                if bid is None:
                    raise NotEvaluable("branch into a pruned edge")
                continue
            if bid == f.exit or not live:
                return out, None
            if len(live) != 1:
                raise NotEvaluable("block B%d: %d successors and no evaluable condition" % (bid, len(live)))
            bid = live[0]
        raise NotEvaluable("%s does not come back to the loop head within 200 blocks (an inner loop)" % last(f.name))


def out_var_of(f):
    """the local std::string that every non-literal `return` of f hands back (through a copy/move construction); None if there is no single one"""
    names = set()
    for e in f.stmts():
        if e.node.get("k") == "ret" and "root" in e.raw and isinstance(e.node.get("v"), dict):
            v = strip_views(e.node["v"])
            if v is not None and v.get("k") == "var":
                names.add(v["n"])
            elif v is not None and v.get("k") == "str":
                continue
            else:
                names.add(None)
    return names.pop() if len(names) == 1 else None


def byte_loop(f):
    """(loop block, name of the per-character variable, name of the string it ranges over) of the single range-for over a string in f"""
    loops = [b for b in f.blocks.values() if b.term and b.term.get("k") == "CXXForRangeStmt"]
    if len(loops) != 1:
        raise AnalysisBroken("%s: %d range-for loops (the per-character table is built from exactly one)" % (last(f.name), len(loops)))
    lb = loops[0]
    body = f.blocks[lb.succs[0]]
    cv = [v for e in body.elems if e.kind == "stmt" and e.node.get("k") == "decl" for v in e.node["vars"]
          if isinstance(v.get("init"), dict) and strip_casts(v["init"]).get("k") in ("un", "opcall") and (strip_casts(v["init"]).get("op") or "") == "*" and "__begin" in show(strip_casts(v["init"]))]
    rng = [strip_casts(v["init"]).get("n") for e in f.stmts() if e.node.get("k") == "decl" for v in e.node["vars"] if v["n"].startswith("__range") and isinstance(v.get("init"), dict) and strip_casts(v["init"]).get("k") == "var"]
    if len(cv) != 1 or len(rng) != 1 or (cv[0].get("t") or "").replace("const ", "").strip() not in ("char", "unsigned char", "signed char"):
        raise AnalysisBroken("%s: the range-for does not bind one character of a named string per iteration" % last(f.name))
    return lb, cv[0], rng[0]


def r_escape_exact(ctx, r, es, ptable):
    """What the serializer emits for each of the 256 possible bytes of a string, computed exactly from the source (ByteEval), against what the
    parser's own escape table (extracted above) and RFC 8259 §7 decode: the byte must come back.  Either the byte itself — only for >= 0x20 other
    than '"' and '\\' — or a two-character escape the parser maps to it, or \\u + exactly four hex digits of its value."""
    fb = ctx.fb()
    outvar = out_var_of(es)
    if outvar is None:
        raise AnalysisBroken("_escapeString: no single local string is returned")
    lb, cvar, rng = byte_loop(es)
    param = es.params[0]["n"] if es.params and es.params[0].get("n") else None
    if rng != param:
        raise AnalysisBroken("_escapeString: the per-character loop ranges over `%s`, not the parameter" % rng)
    ev = ByteEval(fb, JS, JF)
    signed = "unsigned" not in (cvar.get("t") or "")
    # the loop's increment block(s): predecessors of the loop block that lie inside the loop
    inside, work = set(), [lb.succs[0]]
    while work:
        b_ = work.pop()
        if b_ in inside or b_ is None or b_ == lb.id:
            continue
        inside.add(b_)
        work.extend(es.blocks[b_].succs)
    stops = {p for p in lb.preds if p in inside and any(e.kind == "stmt" and e.node.get("k") in ("un", "opcall") and "++" in (e.node.get("op") or "") and "__begin" in show(e.node) for e in es.blocks[p].elems)} | {lb.id}
    if len(stops) < 2:
        raise AnalysisBroken("_escapeString: loop increment block not found")
    bad, raw_ok, esc2, uesc = [], 0, 0, 0
    leaves = False
    for v in range(256):
        try:
            pieces, ret = ev.run(es, lb.succs[0], {cvar["n"]: (v - 256 if signed and v >= 128 else v)}, outvar, stops)
        except NotEvaluable as ex:
            raise AnalysisBroken("_escapeString: the output for the byte 0x%02x cannot be evaluated exactly — %s" % (v, ex))
        got = b"".join(pieces)
        if got == bytes([v]) and v >= 0x20 and v not in (0x22, 0x5C):
            raw_ok += 1
        elif len(got) == 2 and got[0] == 0x5C and RFC_ESC.get(got[1]) == v and ptable.get(got[1]) == v:
            esc2 += 1
        elif len(got) == 6 and got[:2] == b"\\u" and all(ch in b"0123456789abcdefABCDEF" for ch in got[2:]) and int(got[2:], 16) == v and v < 0x80:
            uesc += 1                                   # (a byte >= 0x80 is part of a UTF-8 sequence: \\u00XX would decode to a different, two-byte character)
        else:
            bad.append((v, got))
    r.instance(256)
    for _ in range(256 - len(bad)):
        r.ok()
    r.note("_escapeString, exact per byte: %d raw, %d two-character escapes, %d \\u00XX" % (raw_ok, esc2, uesc))
    if bad:
        v, got = bad[0]
        dec = "the parser decodes that to 0x%02x" % ptable[got[1]] if len(got) == 2 and got[0] == 0x5C and ptable.get(got[1]) is not None else \
              "that is the byte itself, which RFC 8259 requires to be escaped" if got == bytes([v]) else "the parser does not decode that to the byte"
        # the element to point at: where the loop variable (or the piece) is appended if there is one, else the loop
        r.fail(es, es.blocks[lb.succs[0]].elems[0] if es.blocks[lb.succs[0]].elems else None, "escape of 0x%02x" % v,
               "_escapeString emits %r for the byte 0x%02x (%s); %d of the 256 byte values do not round-trip, e.g. %s: invalid JSON or a different string after parse(dump(v))"
               % (got.decode("latin-1"), v, dec, len(bad), ", ".join("0x%02x→%r" % (a, b.decode("latin-1")) for a, b in bad[:4])))
    return cvar["n"], outvar


def r_escape(ctx, r, es, ptable):
    # (1) exact: what is emitted for each of the 256 byte values, however the table is spelled (switch, lookup helper, guard clauses)
    cname, outvar = r_escape_exact(ctx, r, es, ptable)
    # (2) the table read off the switch, when the escaper itself holds one over its per-character variable (names each arm in a report);
    #     with the table elsewhere (a lookup helper) clause (1) is the whole verdict for the per-character part
    sws = [b for b in es.blocks.values() if b.term and b.term.get("k") == "SwitchStmt" and b.cond is not None and strip_casts(b.cond).get("n") == cname]
    if len(sws) > 1:
        raise AnalysisBroken("_escapeString: %d switch statements over `%s`" % (len(sws), cname))
    sw = sws[0] if sws else None
    if sw is None:
        r.note("_escapeString holds no switch over `%s`: per-arm clauses replaced by the exact per-byte table" % cname)
    inv = {v: k for k, v in RFC_ESC.items() if k != ord('/')}
    cases = {}
    default_si = None
    for si in (range(len(sw.succs)) if sw is not None else ()):
        lab = sw.edge_label(si)
        if lab == "default":
            default_si = si
            continue
        if not lab:
            continue
        cv = const_value(lab[1]) & 0xFF
        els, _ = arm_elems(es, sw, si)
        apps = [e for e in els if e.kind == "stmt" and e.node.get("k") == "opcall" and e.node.get("op") == "+=" and strip_casts(e.node["args"][0]).get("n") == outvar]
        lit = [x.get("v") for x in walk(apps[0].node["args"][1]) if x.get("k") == "str"] if len(apps) == 1 else []
        r.instance()
        ok = len(lit) == 1 and lit[0] is not None and len(lit[0]) == 2 and lit[0][0] == "\\" and ptable.get(ord(lit[0][1])) == cv and RFC_ESC.get(ord(lit[0][1])) == cv
        r.expect(ok, es, apps[0] if apps else None, "escape of 0x%02x" % cv, "_escapeString emits %r for the character 0x%02x, which the parser (and RFC 8259) decode to %s: the value does not round-trip"
                 % (lit[0] if lit else "?", cv, ("0x%02x" % ptable[ord(lit[0][1])]) if lit and lit[0] and len(lit[0]) == 2 and ptable.get(ord(lit[0][1])) is not None else "nothing / an error"),
                 okdesc="0x%02x → %s" % (cv, lit[0] if lit else "?"))
        cases[cv] = True
    for must in ((ord('"'), ord('\\')) if sw is not None else ()):
        r.instance()
        r.expect(must in cases, es, None, "unescaped %s" % chr(must), "_escapeString has no arm for %r: the output is not valid JSON" % chr(must), okdesc="%r has an arm" % chr(must))
    # every other way input bytes reach the output
    param = es.params[0]["n"] if es.params and es.params[0].get("n") else "str"
    for e in es.stmts():
        n = e.node
        is_app = (n.get("k") == "opcall" and n.get("op") in ("+=", "+") and any(strip_casts(strip_wrappers(a)).get("n") in (param, cname) for a in n["args"])) or \
                 (n.get("k") == "mcall" and last(n.get("callee", "")) in ("append", "push_back", "insert", "assign") and any(strip_casts(strip_wrappers(a)).get("n") in (param, cname) or param + "." in show(a) for a in n.get("args", []))) or \
                 (n.get("k") == "ctor" and n.get("cls") == "std::basic_string" and any(strip_casts(strip_wrappers(a)).get("n") == param for a in n.get("args", [])))
        if not is_app:
            continue
        src = [strip_casts(strip_wrappers(a)).get("n") for a in n.get("args", []) if strip_casts(strip_wrappers(a)).get("n") in (param, cname)]
        r.instance()
        if src == [cname] and sw is None:
            r.ok("raw copy of `%s`: judged per byte by the exact table" % cname)
        elif src == [cname]:
            # raw character: only on the default edge and behind the control-character test
            ctl = [b for b in es.blocks.values() if b.cond is not None and common.cmp_parts(b.cond) and common.cmp_parts(b.cond)[0] in ("<", "<=")
                   and strip_casts(common.cmp_parts(b.cond)[1]).get("n") == cname and const_value(common.cmp_parts(b.cond)[2]) is not None]
            okc = False
            for b in ctl:
                op, l, rr = common.cmp_parts(b.cond)
                bound = const_value(rr) + (1 if op == "<=" else 0)
                unsigned = "unsigned" in (l.get("t") or "") or any(x.get("k") == "cast" and "unsigned char" in (x.get("t") or "") for x in walk(l))
                if bound >= 32 and unsigned and dominated_by_edge(es, e, b, 1, eh=False):
                    okc = True
            okd = default_si is not None and dominated_by_edge(es, e, sw, default_si, eh=False)
            r.expect(okc and okd, es, e, "raw character copied", "_escapeString copies the input character to the output on a path that is not behind both the escape switch's default edge and the "
                     "`(unsigned char)c < 32` test: control characters, '\"' or '\\\\' can reach the output unescaped (invalid JSON / no round-trip)", okdesc="raw copy only for c >= 0x20 outside the table")
        else:
            # bulk copy of the input: needs a dominating scan for every character that must be escaped
            okb, why = False, "no dominating scan of the input"
            for (c, truth) in dominating_facts(es, e):
                cp = common.cmp_parts(c)
                if not cp:
                    continue
                for a, b in ((cp[1], cp[2]), (cp[2], cp[1])):
                    a = strip_casts(strip_wrappers(a))
                    if a.get("k") == "mcall" and last(a.get("callee", "")) == "find_first_of" and strip_casts(a.get("obj") or {}).get("n") == param and "npos" in show(b) \
                            and ((cp[0] == "==" and truth) or (cp[0] == "!=" and not truth)):
                        lit = [x.get("v") for x in walk(a["args"][0]) if x.get("k") == "str"]
                        if len(lit) == 1 and lit[0] is not None:
                            have = {ord(ch) for ch in lit[0]}
                            miss = sorted(MUST_ESCAPE - have)
                            if not miss:
                                okb = True
                            else:
                                why = "the scan `%s` looks for %d of the 34 characters that need escaping; missing e.g. %s" % (show(a)[:60], len(MUST_ESCAPE & have), ", ".join("0x%02x" % m for m in miss[:4]))
            if not okb and any(x.get("k") in ("call", "mcall") and (x.get("callee") or "").startswith("iora::") and any(strip_casts(strip_wrappers(a)).get("n") == param for a in x.get("args", [])) for (c, truth) in dominating_facts(es, e) for x in walk(c)):
                raise AnalysisBroken("_escapeString: a bulk copy of the input is guarded by a call on `%s` that the scan clause does not look into" % param)
            r.expect(okb, es, e, "bulk copy of the input", "_escapeString copies the whole input string to the output (%s) — %s: such characters are emitted unescaped, which RFC 8259 forbids and which does not parse back"
                     % (show(n)[:40], why), okdesc="bulk copy behind a complete scan")
    # control characters: \\u00XX
    if sw is None:
        return                     # the \\u form was evaluated exactly for every control character in clause (1)
    ufmt = [e for e in es.stmts() if e.node.get("k") == "call" and last(e.node.get("callee", "")) in ("snprintf", "sprintf")]
    r.instance()
    oku = False
    if len(ufmt) == 1:
        a = ufmt[0].node["args"]
        fmt = [x.get("v") for x in a if strip_casts(x).get("k") == "str"] or [x.get("v") for y in a for x in walk(y) if x.get("k") == "str"]
        val = a[-1]
        uns = any(x.get("k") == "cast" and "unsigned char" in (x.get("t") or "") for x in walk(val))
        pre = [e for e in es.stmts() if e.node.get("k") == "opcall" and e.node.get("op") == "+=" and [x.get("v") for x in walk(e.node["args"][1]) if x.get("k") == "str"] == ["\\u"]]
        post = [e for e in es.stmts() if e.node.get("k") == "opcall" and e.node.get("op") == "+=" and strip_casts(strip_wrappers(e.node["args"][1])).get("n") == strip_casts(strip_wrappers(a[0])).get("n")]
        oku = fmt and fmt[0] in ("%04x", "%04X") and uns and len(pre) == 1 and len(post) == 1 and elem_dom(es, pre[0], ufmt[0]) and elem_dom(es, ufmt[0], post[0]) and pre[0].block is post[0].block
        size_ok = const_value(strip_casts(a[1])) is not None and const_value(strip_casts(a[1])) >= 5 if last(ufmt[0].node["callee"]) == "snprintf" else True
        oku = oku and size_ok
    r.expect(oku, es, ufmt[0] if ufmt else None, "control character form", "control characters are not emitted as `\\u` followed by exactly four hex digits of the unsigned character value (the form _parseHex4 decodes)",
             okdesc="control characters → \\u%04x of (unsigned char)c")


def appended_pieces(fb, f, outvar, _seen=None):
    """[(function, element, expression)] for every piece that becomes part of the string `outvar` of f (its initialiser, `+=`, append/push_back/
    insert/assign), followed into the functions of Json that receive the string by non-const reference (indent / separator helpers)."""
    _seen = _seen if _seen is not None else set()
    if (f.name, outvar) in _seen:
        return []
    _seen.add((f.name, outvar))

    def is_out(x):
        x = strip_wrappers(x) if isinstance(x, dict) else None
        return x is not None and x.get("k") == "var" and x["n"] == outvar
    out = []
    for e in f.stmts():
        n = e.node
        k = n.get("k")
        if k == "decl":
            out += [(f, e, v["init"]) for v in n["vars"] if v["n"] == outvar and isinstance(v.get("init"), dict) and "&" not in (v.get("t") or "")]
        elif k == "opcall" and n.get("op") in ("+=", "=") and n.get("args") and is_out(n["args"][0]):
            out.append((f, e, n["args"][1]))
        elif k == "mcall" and is_out(n.get("obj")) and last(n.get("callee", "")) in ("append", "push_back", "insert", "assign", "replace"):
            out += [(f, e, a) for a in n.get("args", []) if not a.get("def")]
        elif k in ("call", "mcall") and any(is_out(a) for a in n.get("args", [])):
            c = n.get("callee") or ""
            if c in ("std::move", "std::forward", "std::as_const"):
                continue
            i = [j for j, a in enumerate(n["args"]) if is_out(a)][0]
            gs = [g for g in fb.funcs(c, JF) if g.ok] if c.startswith(JS + "::") else []
            if len(gs) != 1 or i >= len(gs[0].params) or not gs[0].params[i].get("n"):
                raise AnalysisBroken("%s hands its output string to %s, which the rule cannot look into" % (last(f.name), c))
            t = gs[0].params[i].get("t") or ""
            if "&" in t and "const" not in t:
                out += appended_pieces(fb, gs[0], gs[0].params[i]["n"], _seen)
    return out


def piece_kind(x):
    """what a piece appended to serializer output is: "literal", "option" (member of the SerializeOptions parameter), "escaped" (result of
    _escapeString), "nested" (result of a _serialize* function); None for anything else (a raw string)"""
    x = strip_views(x)
    if x is None:
        return None
    k = x.get("k")
    if k in ("str", "char", "int") or (k == "ctor" and x.get("cls") == "std::basic_string" and not [a for a in x.get("args", []) if not a.get("def")]):
        return "literal"
    if k == "cond" and isinstance(x.get("t"), dict):
        ks = {piece_kind(x["t"]), piece_kind(x["f"])}
        return None if None in ks else ks.pop() if len(ks) == 1 else "literal"
    if k == "member" and "SerializeOptions" in (strip_casts(x.get("b") or {}).get("t") or ""):
        return "option"
    if k in ("call", "mcall") and x.get("callee") == JS + "::_escapeString":
        return "escaped"
    if k in ("call", "mcall") and (x.get("callee") or "").startswith(JS + "::_serialize"):
        return "nested"
    if (k == "opcall" and x.get("op") == "+") or (k == "call" and x.get("callee") == "std::operator+"):
        ks = {piece_kind(a) for a in x.get("args", [])}
        return None if None in ks else ("escaped" if "escaped" in ks else "literal")
    return None


ACCESSORS = ("getBool", "getInt", "getDouble", "getString", "getArray", "getObject", "isNull", "type")      # Json's own typed getters: calls every serializer arm makes and no clause needs to look into


def r4(ctx, r):
    fb = ctx.fb()
    ser = fb.func(JS + "::_serialize", file_suffix=JF)
    sw = [b for b in ser.blocks.values() if b.term and b.term.get("k") == "SwitchStmt"]
    if len(sw) != 1:
        raise AnalysisBroken("_serialize: %d switch statements" % len(sw))
    sw = sw[0]
    enum = fb.enums.get("iora::parsers::JsonType") or [v for k, v in fb.enums.items() if k.endswith("JsonType")][0]
    names = [last(x["n"]) for x in enum["values"]]
    arms = {}
    for si in range(len(sw.succs)):
        lab = sw.edge_label(si)
        if lab and lab != "default":
            en = [last(x["n"]) for x in walk(lab[1]) if x.get("k") == "enum"]
            if en:
                arms[en[0]] = arm_elems(ser, sw, si)[0]
    r.instance()
    r.expect(set(names) <= set(arms), ser, None, "type not serialized", "_serialize has no arm for JsonType::%s (falls to the default `null`)" % ", ".join(sorted(set(names) - set(arms))), okdesc="switch covers %d JsonType enumerators" % len(names))
    want = {"String": "_escapeString", "Array": "_serializeArray", "Object": "_serializeObject"}
    for t, callee in want.items():
        r.instance()
        els = arms.get(t, [])
        r.expect(unless_moved(any(e.kind == "stmt" and e.node.get("k") in ("mcall", "call") and last(e.node.get("callee", "")) == callee for e in els) and
                              any(e.kind == "stmt" and e.node.get("k") == "ret" for e in els), els, ACCESSORS, "%s arm of _serialize" % t), ser, None, "%s arm" % t, "the %s arm of _serialize does not return %s(…)" % (t, callee), okdesc="%s → %s" % (t, callee))
    # Null/Boolean literals
    for t, lits in (("Null", {"null"}), ("Boolean", {"true", "false"})):
        r.instance()
        got = {x.get("v") for e in arms.get(t, []) if e.kind == "stmt" and "root" in e.raw for x in walk(e.node) if x.get("k") == "str"}
        r.expect(unless_moved(got == lits, arms.get(t, []), ACCESSORS, "%s arm of _serialize" % t), ser, None, "%s literal" % t, "the %s arm emits %s instead of %s" % (t, sorted(got), sorted(lits)), okdesc="%s → %s" % (t, "/".join(sorted(lits))))
    # Int: to_string of an integral
    r.instance()
    ints = [e for e in arms.get("Int", []) if e.kind == "stmt" and e.node.get("k") == "call" and last(e.node.get("callee", "")) in ("to_string",)]
    r.expect(unless_moved(len(ints) == 1 and "long" in (ints[0].node["args"][0].get("t") or strip_casts(ints[0].node["args"][0]).get("t") or "long"), arms.get("Int", []), ACCESSORS, "Int arm of _serialize"), ser, None, "Int arm", "the Int arm does not format through std::to_string(integer)", okdesc="Int → std::to_string(int64)")
    # object keys pass through the escaper.  Decided on what _serializeObject (and every helper it hands its output string to) appends: each
    # appended piece must be a literal, a SerializeOptions member (the indent), the escaper's result or a nested serialization — so no key (no
    # string at all) can reach the output raw — and the escaper must be applied to something inside the member loop.
    so = fb.func(JS + "::_serializeObject", file_suffix=JF)
    outv = out_var_of(so)
    if outv is None:
        raise AnalysisBroken("_serializeObject: no single local string is returned")
    pieces = appended_pieces(fb, so, outv)
    kinds = [(f_, e, x, piece_kind(x)) for (f_, e, x) in pieces]
    rawp = [(f_, e, x) for (f_, e, x, k) in kinds if k is None]
    escd = [(f_, e, x) for (f_, e, x, k) in kinds if k == "escaped" and f_ is so]
    if len(pieces) < 5:
        raise AnalysisBroken("_serializeObject: only %d appends to the output recognised (floor 5)" % len(pieces))
    r.instance()
    in_loop = [t for t in escd if search(so, t[1], lambda y, t=t: y is t[1], eh=False) is not None and strip_views(t[2]["args"][0]).get("k") != "str"]
    r.expect(not rawp and len(in_loop) >= 1, rawp[0][0] if rawp else so, rawp[0][1] if rawp else None, "object key unescaped",
             ("%s appends `%s` to the serialized object, which is neither a literal, an option, _escapeString(…) nor a nested _serialize(…): a key (or other text) reaches the output without escaping"
              % (last(rawp[0][0].name), show(rawp[0][2])[:50])) if rawp else "_serializeObject appends no _escapeString(key) inside its member loop", okdesc="object keys escaped; %d appended pieces all literal / option / escaped / nested" % len(pieces))
    # Double arm
    darm = arms.get("Double", [])
    dcalls = [e for e in darm if e.kind == "stmt" and e.node.get("k") in ("call", "mcall") and last(e.node.get("callee", "")) not in ("getDouble", "basic_string")]
    r.instance()
    fmtfn = None
    for e in dcalls:
        c = e.node.get("callee", "")
        if last(c) == "to_string":
            r.fail(ser, e, "std::to_string(double)", "the Double arm formats with std::to_string (fixed %f, six decimals): 1e-7 becomes 0.000000 and 1e300 a 301-digit integer — no round-trip")
        cands = [g for g in fb.funcs(c, JF)] if c.startswith("iora::") else []
        if cands:
            fmtfn = cands[0]
    if fmtfn is None and not r.failures:
        raise AnalysisBroken("Double arm: formatting helper not found")
    if fmtfn is None:
        return
    r.ok("Double → %s" % last(fmtfn.name))
    f = fmtfn
    fcalls = [e for e in f.stmts() if e.node.get("k") == "call" and last(e.node.get("callee", "")) in ("snprintf", "sprintf", "to_chars", "to_string")]
    outs = [e for e in f.stmts() if e.node.get("k") == "opcall" and e.node.get("op") == "<<"]
    r.instance()
    if not r.expect(unless_moved(len(fcalls) == 1 and not outs and last(fcalls[0].node["callee"]) != "to_string", list(f.stmts()), (), "double formatter"), f, (fcalls or [None])[0], "double formatter", "%s formats through %s (need exactly one snprintf/to_chars; std::to_string / operator<< default precision lose digits)"
                    % (last(f.name), [last(e.node["callee"]) for e in fcalls] + (["operator<<"] if outs else [])), okdesc="one formatting call: %s" % (last(fcalls[0].node["callee"]) if fcalls else "")):
        return
    fe = fcalls[0]
    # non-finite never formatted
    fin = [b for b in f.blocks.values() if b.cond is not None and any(x.get("k") == "call" and last(x.get("callee", "")) == "isfinite" for x in walk(b.cond))]
    r.instance()
    okf = False
    for b in fin:
        c = strip_casts(b.cond)
        neg = c.get("k") == "un" and c["op"] == "!"
        if dominated_by_edge(f, fe, b, 1 if neg else 0, eh=False):
            okf = True
    if not fin:
        nan = [b for b in f.blocks.values() if b.cond is not None and any(x.get("k") == "call" and last(x.get("callee", "")) in ("isnan",) for x in walk(b.cond))]
        inf = [b for b in f.blocks.values() if b.cond is not None and any(x.get("k") == "call" and last(x.get("callee", "")) in ("isinf",) for x in walk(b.cond))]
        okf = bool(nan and inf) and all(dominated_by_edge(f, fe, b, 1, eh=False) for b in nan + inf)
    r.expect(unless_moved(okf, list(f.stmts()), (), "finite test of the double formatter"), f, fe, "non-finite formatted", "NaN/Infinity can reach the number formatter and be emitted as `nan`/`inf`, which is not JSON", okdesc="formatter behind isfinite()")
    if last(fe.node["callee"]) == "to_chars":
        r.instance()
        r.ok("std::to_chars shortest round-trip form")
    else:
        a = fe.node["args"]
        fmt = [x.get("v") for y in a for x in walk(y) if x.get("k") == "str"]
        fmt = fmt[0] if fmt else ""
        import re
        m = re.fullmatch(r"%\.(\*|\d+)([geEGa])", fmt or "")
        r.instance()
        if r.expect(bool(m), f, fe, "double format string", "the double format `%s` is not %%.<p>g / %%.<p>e (fixed notation or default precision does not round-trip)" % fmt, okdesc="format %s" % fmt):
            if m.group(1) != "*":
                r.instance()
                need = 17 if m.group(2) in "gG" else 16
                r.expect(int(m.group(1)) >= need, f, fe, "double precision", "precision %s < %d significant digits: distinct doubles print alike" % (m.group(1), need), okdesc="precision %s" % m.group(1))
            else:
                pv = strip_casts(a[-2]).get("n")
                # loop over precision: upper bound >= 17, other exits only on a successful strtod round-trip
                guards = [b for b in f.blocks.values() if b.cond is not None and common.cmp_parts(b.cond) and strip_casts(common.cmp_parts(b.cond)[1]).get("n") == pv and const_value(common.cmp_parts(b.cond)[2]) is not None]
                r.instance()
                okp = False
                if len(guards) == 1:
                    op, l, rr = common.cmp_parts(guards[0].cond)
                    top = const_value(rr) - (1 if op == "<" else 0)
                    okp = op in ("<", "<=") and top >= 17
                    inc = [e for e in f.stmts() if e.node.get("k") == "un" and e.node.get("op") in ("++", "pre++", "post++") and strip_casts(e.node["v"]).get("n") == pv]
                    okp = okp and len(inc) == 1
                r.expect(unless_moved(okp, list(f.stmts()), (), "precision loop of the double formatter"), f, guards[0].elems[-1] if guards and guards[0].elems else fe, "double precision bound", "the precision loop over `%s` does not reach 17 significant digits in steps of one" % pv, okdesc="precision loop reaches 17")
                # exits: the loop guard's false edge, or the true edge of a strtod(buf) == d test
                rt = [b for b in f.blocks.values() if b.cond is not None and common.cmp_parts(b.cond) and common.cmp_parts(b.cond)[0] == "==" and any(x.get("k") == "call" and last(x.get("callee", "")) in ("strtod", "stod") for x in walk(b.cond))]
                r.instance()
                okx = False
                if guards and len(rt) == 1:
                    after = [e for e in f.stmts() if e.node.get("k") == "decl" and any(v["n"] == "result" for v in e.node["vars"])]
                    if after:
                        w = search(f, fe, lambda x: x is after[0], eh=False, edge_ok=lambda b, si: not ((b is guards[0] and si == 1) or (b is rt[0] and si == 0)))
                        buf = strip_casts(strip_wrappers(a[0])).get("n")
                        same = any(strip_casts(strip_wrappers(x)).get("n") == buf for y in walk(rt[0].cond) if y.get("k") == "call" for x in y.get("args", []))
                        dpar = f.params[0]["n"] if f.params else "d"
                        cmpd = strip_casts(common.cmp_parts(rt[0].cond)[2]).get("n") == dpar or strip_casts(common.cmp_parts(rt[0].cond)[1]).get("n") == dpar
                        okx = w is None and same and cmpd
                r.expect(unless_moved(okx, list(f.stmts()), (), "precision loop of the double formatter"), f, rt[0].elems[-1] if rt and rt[0].elems else fe, "precision loop exit", "the precision loop can be left before 17 digits without a successful `strtod(buf) == d` round-trip test on the formatted buffer",
                         okdesc="early exit only on strtod(buf) == d")
    # the result re-parses as Double: '.', 'e' or 'E' present, or ".0" appended
    rets = [e for e in f.stmts() if e.node.get("k") == "ret" and "root" in e.raw and not [x for x in walk(e.node) if x.get("k") == "str"]]
    dot = [b for b in f.blocks.values() if b.cond is not None and any(x.get("k") == "mcall" and last(x.get("callee", "")) in ("find_first_of",) for x in walk(b.cond))]
    add = [e for e in f.stmts() if e.node.get("k") == "opcall" and e.node.get("op") == "+=" and [x.get("v") for x in walk(e.node["args"][1]) if x.get("k") == "str"] in ([".0"], ["e0"], [".0e0"])]
    r.instance()
    okd = False
    if len(dot) == 1 and add and rets:
        cp = common.cmp_parts(dot[0].cond)
        lit = [x.get("v") for x in walk(dot[0].cond) if x.get("k") == "str"]
        if cp and lit and set(lit[0]) <= set(".eE") and "." in lit[0] and "e" in lit[0] and "npos" in show(dot[0].cond):
            miss_edge = 0 if cp[0] == "==" else 1      # edge on which none of . e E was found
            okd = all(search(f, fe, lambda x, rr=rr: x is rr, stop=lambda x: x in add, eh=False, edge_ok=lambda b, si: not (b is dot[0] and si != miss_edge)) is None for rr in rets)
    r.expect(unless_moved(okd, list(f.stmts()), (), "'.0' marker of the double formatter"), f, rets[0] if rets else None, "double re-parses as Int", "a double whose shortest form has no '.', 'e' or 'E' (e.g. 1e15 → 1000000000000000) is emitted without a marker, so it parses back as Int and `parse(dump(v)) == v` fails on the type",
             okdesc="integral doubles get '.0'")


def bounded_loop_steps(f):
    """ids of the blocks that hold the step of a loop bounded independently of the parser's input position"""
    out = set()
    loops = [b for b in f.blocks.values() if b.term and b.term.get("k") in ("WhileStmt", "ForStmt", "DoStmt", "CXXForRangeStmt")]
    for b in loops:
        if b.term["k"] == "CXXForRangeStmt":
            out |= {e.block.id for e in f.stmts() if e.node.get("k") in ("un", "opcall") and "++" in (e.node.get("op") or "") and "__begin" in show(e.node)}
    written = {}

    def steps_of(name):
        if name not in written:
            written[name] = [(e, counter_step(e.node, lambda x: x.get("k") == "var" and x["n"] == name)) for e in f.stmts()]
            written[name] = [(e, c) for (e, c) in written[name] if c is not None]
        return written[name]
    from ..finite import flatten_fact
    conds = [(b, c) for b in f.blocks.values() if b.cond is not None and b.term and b.term.get("k") in ("WhileStmt", "ForStmt", "DoStmt", "BinaryOperator") for (c, _) in flatten_fact(b.cond, True)]
    for b, c in conds:
        for (op, l, rr) in common.cmp_both(c):
            l = strip_casts(l)
            if l.get("k") != "var":
                continue
            st = steps_of(l["n"])
            if not st or any(c_ == "other" or c_ == 0 for (_, c_) in st):
                continue
            up = all(c_ > 0 for (_, c_) in st)
            down = all(c_ < 0 for (_, c_) in st)
            if not ((up and op in ("<", "<=", "!=")) or (down and op in (">", ">=", "!="))):
                continue
            if any(steps_of(x["n"]) for x in walk(rr) if x.get("k") == "var") or any(x.get("k") in ("call", "mcall", "opcall") and not (x.get("k") == "mcall" and last(x.get("callee", "")) in ("size", "length")) for x in walk(rr)):
                continue
            out |= {e.block.id for (e, _) in st}
    return out


def r5(ctx, r):
    funcs = parser_methods(ctx)
    n = 0
    direct = set()
    for f in funcs:
        for e in f.stmts():
            nn = e.node
            if (nn.get("k") == "un" and nn.get("op") in ("++", "pre++", "post++") and is_pos(nn["v"])) or (nn.get("k") == "bin" and nn.get("op") == "+=" and is_pos(nn["lhs"])):
                direct.add(f.name)
    may_adv = set(direct)
    ch = True
    while ch:
        ch = False
        for f in funcs:
            if f.name not in may_adv and any(e.node.get("k") == "mcall" and e.node.get("callee") in may_adv for e in f.stmts()):
                may_adv.add(f.name)
                ch = True
    via_callee = set()
    for f in funcs:
        # blocks that advance a cursor (member _pos or a local index of _text) or leave the function
        adv = set()
        lcs = set()
        for e in f.stmts():
            nn = e.node
            if nn.get("k") == "opcall" and nn.get("op") == "[]" and is_text(nn["args"][0]):
                fm = lin(nn["args"][1])
                if fm and len(fm[1]) == 1 and fm[1][0] != CUR:
                    lcs.add(fm[1][0])
        for e in f.stmts():
            nn = e.node
            if nn.get("k") == "un" and nn.get("op") in ("++", "pre++", "post++") and (is_pos(nn["v"]) or strip_casts(nn["v"]).get("n") in lcs):
                adv.add(e.block.id)
            if nn.get("k") == "bin" and nn.get("op") == "+=" and is_pos(nn["lhs"]) and (const_value(strip_casts(nn["rhs"])) or 0) >= 1:
                adv.add(e.block.id)
            # progress inside a callee of the family that itself moves the cursor: not refuted here (a cycle is reported only when
            # nothing on it can move the cursor at all)
            if nn.get("k") == "mcall" and nn.get("callee") in may_adv:
                adv.add(e.block.id)
                via_callee.add(e.block.id)
        # loops that terminate for a reason of their own, whatever the input: a range-for (its iterator step), and a counted loop — a local
        # integer stepped by a constant of one sign and compared, in the loop's condition, with a bound nothing in the function writes
        adv |= bounded_loop_steps(f)
        # cycle detection in the CFG with the advancing blocks removed
        color = {}
        cyc = []

        def dfs(b):
            color[b] = 1
            for s in f.blocks[b].succs:
                if s is None or s in adv:
                    continue
                if color.get(s) == 1:
                    cyc.append((b, s))
                elif s not in color:
                    dfs(s)
            color[b] = 2
        for b in f.blocks:
            if b not in color and b not in adv:
                dfs(b)
        loops = [b for b in f.blocks.values() if b.term and b.term.get("k") in ("WhileStmt", "ForStmt", "DoStmt", "CXXForRangeStmt")]
        n += len(loops)
        r.instance(max(1, len(loops)))
        if cyc:
            b = f.blocks[cyc[0][1]]
            ln = next((e.line for e in b.elems if e.line), f.line)
            r.fail(f, ln, "loop without progress", "%s contains a loop iteration (through B%d) that neither advances the cursor nor returns: a crafted input makes the parser spin forever" % (last(f.name), b.id))
        else:
            for _ in range(max(1, len(loops))):
                r.ok("%s: every cycle advances the cursor" % last(f.name))
    # instance floor.  Counted in loop *sites* — a loop, or a call to a parser method that contains one — because moving k identical loops into one
    # helper called k times (digit runs → a `skip digits` method) lowers the number of loops without removing any iteration from the parser.
    looping = {f.name for f in funcs if any(b.term and b.term.get("k") in ("WhileStmt", "ForStmt", "DoStmt", "CXXForRangeStmt") for b in f.blocks.values())}
    sites = n + sum(1 for f in funcs for e in f.stmts() if e.node.get("k") == "mcall" and e.node.get("callee") in looping)
    if n < 4 or sites < 20:
        raise AnalysisBroken("only %d loops / %d loop sites found in JsonParser (floors 4 / 20)" % (n, sites))
    r.note("%d loops, %d loop sites" % (n, sites))


def dispatch_exact(ctx, pv):
    """{first byte: name of the parser method _parseValue returns the result of, or None when it rejects the byte}, by exact evaluation of the branch
    conditions on the dispatch character (the char local initialised with `_text[_pos]`)"""
    dv = [(e, v) for e in pv.stmts() if e.node.get("k") == "decl" and "root" in e.raw for v in e.node["vars"]
          if isinstance(v.get("init"), dict) and strip_casts(v["init"]).get("k") == "opcall" and strip_casts(v["init"]).get("op") == "[]" and is_text(strip_casts(v["init"])["args"][0])
          and is_pos(strip_casts(v["init"])["args"][1]) and (v.get("t") or "").replace("const ", "").strip() in ("char", "unsigned char")]
    if len(dv) != 1:
        raise AnalysisBroken("_parseValue: no switch and no single character local read from _text[_pos] to dispatch on")
    de, var = dv[0]
    ev = ByteEval(ctx.fb(), JS, JF)
    signed = "unsigned" not in (var.get("t") or "")
    table = {}
    for val in range(256):
        env = {var["n"]: (val - 256 if signed and val >= 128 else val)}
        bid, first, res = de.block.id, de.idx + 1, "?"
        try:
            for _ in range(80):
                b = pv.blocks[bid]
                for e in b.elems[first:]:
                    if e.kind != "stmt" or "root" not in e.raw:
                        continue
                    n = e.node
                    if n.get("k") == "ret":
                        v = strip_casts(n["v"]) if isinstance(n.get("v"), dict) else {}
                        res = last(v["callee"]) if v.get("k") == "mcall" and (v.get("callee") or "").startswith(JP + "::") else None if const_value(v) == 0 else "?"
                        break
                    if b.cond is not None and n.get("id") in (b.cond.get("id"), (b._raw_cond() or {}).get("id")):
                        continue
                    if assign_parts(n) is not None and field_of(assign_parts(n)[0]) and not is_pos(assign_parts(n)[0]):
                        continue                          # `_error = "…"`
                    if n.get("k") in ("bin", "un", "cast", "var", "member", "char", "int", "bool") and not is_assign(n):
                        continue
                    raise NotEvaluable("statement `%s` between the dispatch character and the return" % show(n)[:50])
                if res != "?" or bid == pv.exit:
                    break
                first = 0
                if b.cond is not None and len(b.succs) == 2:
                    bid = b.succs[0] if ev._int(b.cond, env) else b.succs[1]
                else:
                    live = [x for x in b.succs if x is not None]
                    if len(live) != 1:
                        raise NotEvaluable("block B%d" % bid)
                    bid = live[0]
            if res == "?":
                raise NotEvaluable("no return reached")
        except NotEvaluable as ex:
            raise AnalysisBroken("_parseValue: the dispatch for the first byte 0x%02x cannot be evaluated exactly — %s" % (val, ex))
        table[val] = res
    return table


def r7(ctx, r):
    """first-character dispatch and literal tables of the value parser"""
    pv = jp(ctx, "_parseValue")
    sws = [b for b in pv.blocks.values() if b.term and b.term.get("k") == "SwitchStmt"]
    sw = switch_on(pv, "c") if sws else None
    want = {ord("n"): "_parseNull", ord("t"): "_parseBool", ord("f"): "_parseBool", ord('"'): "_parseString", ord("["): "_parseArray", ord("{"): "_parseObject", ord("-"): "_parseNumber"}
    want.update({ord(str(d)): "_parseNumber" for d in range(10)})
    got = {}
    labels = {}
    for b in pv.blocks.values():
        for lb in (b.raw.get("labels") or ([b.label] if b.label else [])):
            if lb and lb.get("k") == "case" and lb.get("v"):
                labels.setdefault(b.id, []).append(const_value(lb["v"]))
    if sw is None:
        # no switch (an if / else-if chain, range tests for the digits): the table is computed exactly instead — for each first byte the branch
        # conditions of _parseValue are evaluated from the point where the dispatch character is read, up to the return that hands the value on
        got, labels = dispatch_exact(ctx, pv), {}
    for si in (range(len(sw.succs)) if sw is not None else ()):
        lab = sw.edge_label(si)
        if not lab or lab == "default":
            continue
        els, _ = arm_elems(pv, sw, si)
        calls = [last(e.node["callee"]) for e in els if e.kind == "stmt" and e.node.get("k") == "mcall" and last(e.node.get("callee", "")).startswith("_parse")]
        for cv in (labels.get(sw.succs[si]) or [const_value(lab[1])]):
            got[cv] = calls[0] if calls else None
    # fall-through labels share the block of the next label: walk label blocks in source order
    for bid, cvs in labels.items():
        for cv in cvs:
            if cv not in got or got[cv] is None:
                els = _first_call_from(pv, bid)
                got[cv] = els
    r.instance(len(want))
    for cv, callee in sorted(want.items()):
        if got.get(cv) != callee and got.get(cv) is not None and got.get(cv) not in want.values():
            raise AnalysisBroken("_parseValue sends values starting with %r to %s, a sub-parser the dispatch table does not know" % (chr(cv), got.get(cv)))
        r.expect(got.get(cv) == callee, pv, None, "value dispatch: %r" % chr(cv), "_parseValue sends a value starting with %r to %s (expected %s): valid texts starting with that character are rejected or mis-decoded" % (chr(cv), got.get(cv), callee),
                 okdesc="%r → %s" % (chr(cv), callee))
    # literals: compared text, compared length and advance agree
    for fn_, lits in (("_parseNull", {"null": None}), ("_parseBool", {"true": 1, "false": 0})):
        f = jp(ctx, fn_)
        seen = {}
        for b in f.blocks.values():
            cp = common.cmp_parts(b.cond) if b.cond is not None else None
            if not cp or cp[0] != "==":
                continue
            lit = [x.get("v") for x in walk(cp[2]) if x.get("k") == "str"]
            sub = [x for x in walk(cp[1]) if x.get("k") == "mcall" and last(x.get("callee", "")) == "substr"]
            if len(lit) != 1 or len(sub) != 1:
                continue
            n_ = const_value(strip_casts(sub[0]["args"][1])) if len(sub[0]["args"]) > 1 else None
            tb = f.blocks[b.succs[0]]
            adv = [const_value(strip_casts(e.node["rhs"])) for e in tb.elems if e.kind == "stmt" and e.node.get("k") == "bin" and e.node.get("op") == "+=" and is_pos(e.node["lhs"])]
            val = [const_value(x) for e in tb.elems if e.kind == "stmt" and assign_parts(e.node) and strip_casts(assign_parts(e.node)[0]).get("n") == "out" for x in walk(assign_parts(e.node)[1]) if x.get("k") == "bool"]
            seen[lit[0]] = (n_, adv[0] if adv else None, val[0] if val else None)
        for lit, want_v in lits.items():
            r.instance()
            got_ = seen.get(lit)
            ok = got_ is not None and got_[0] == len(lit) and got_[1] == len(lit) and (want_v is None or got_[2] == want_v)
            r.expect(unless_moved(ok, list(f.stmts()), (), "literal table of %s" % fn_), f, None, "literal %s" % lit, "%s handles the literal `%s` as (compared length, advance, value) = %s; expected (%d, %d, %s)" % (fn_, lit, got_, len(lit), len(lit), want_v), okdesc="`%s`: %d compared, %d consumed" % (lit, len(lit), len(lit)))
    # separators
    for fn_, chars in (("_parseArray", "[],"), ("_parseObject", "{},:")):
        f = jp(ctx, fn_)
        have = {chr(const_value(x)) for b in f.blocks.values() if b.cond is not None for x in walk(b.cond) if x.get("k") == "char" and const_value(x) is not None and 0 < const_value(x) < 128}
        r.instance()
        r.expect(unless_moved(set(chars) <= have, list(f.stmts()), ("_parseValue", "_skipWhitespace", "_parseString"), "separators of %s" % fn_), f, None, "separators of %s" % fn_, "%s does not test for all of %s (found %s)" % (fn_, " ".join(chars), sorted(have)), okdesc="%s tests %s" % (fn_, " ".join(chars)))


def _first_call_from(f, bid):
    seen, work = set(), [bid]
    while work:
        b = work.pop(0)
        if b is None or b in seen:
            continue
        seen.add(b)
        for e in f.blocks[b].elems:
            if e.kind == "stmt" and e.node.get("k") == "mcall" and last(e.node.get("callee", "")).startswith("_parse"):
                return last(e.node["callee"])
        work.extend(f.blocks[b].succs)
    return None



CONVERTERS = ("strtod", "strtold", "strtof", "stod", "stold", "atof", "from_chars", "sscanf", "strtoll", "strtol", "stoll", "atoll")


def r6(ctx, r):
    """the number conversions operate on the whole scanned literal"""
    fb = ctx.fb()
    pn = jp(ctx, "_parseNumber")
    nd = [v for e in pn.stmts() if e.node.get("k") == "decl" for v in e.node["vars"] if v.get("init") is not None and strip_views(v["init"]).get("k") == "mcall" and last(strip_views(v["init"]).get("callee", "")) == "substr" and is_text(strip_views(v["init"]).get("obj"))]
    if len(nd) != 1:
        raise AnalysisBroken("_parseNumber: the scanned literal is not held in exactly one substr() view (%d)" % len(nd))
    lit = nd[0]["n"]
    sub = strip_views(nd[0]["init"])
    st = key_of_var(sub["args"][0])
    stdecl = [v for e in pn.stmts() if e.node.get("k") == "decl" for v in e.node["vars"] if v["n"] == st]
    r.instance()
    ln = lin(sub["args"][1]) if len(sub["args"]) > 1 else None
    r.expect(bool(stdecl) and is_pos(stdecl[0].get("init") or {}) and ln is not None and ln[0] == 0 and sorted(ln[1]) == sorted([CUR]) or (bool(stdecl) and is_pos(stdecl[0].get("init") or {}) and "_pos - " + st in show(sub["args"][1])), pn, None, "literal range",
             "the literal handed to the converters is not _text.substr(start, _pos - start) with start = the cursor at entry", okdesc="literal = [start, _pos)")
    # conversions in _parseNumber and in helpers that receive the literal
    work, seen, sites = [(pn, lit)], set(), []
    while work:
        f, v = work.pop()
        if (f.name, v) in seen:
            continue
        seen.add((f.name, v))
        for e in f.stmts():
            n = e.node
            if n.get("k") in ("call", "mcall") and last(n.get("callee", "")) in CONVERTERS:
                sites.append((f, e, v))
            c = n.get("callee") or ""
            if n.get("k") in ("call", "mcall") and (c.startswith(JP + "::") or c.startswith(JS + "::")) and last(c) not in ("_parseNumber",):
                for i, a in enumerate(n.get("args", [])):
                    if key_of_var(strip_views(a)) == v:
                        for g in fb.funcs(c, JF):
                            if g.ok and i < len(g.params) and g.params[i].get("n"):
                                work.append((g, g.params[i]["n"]))
    if len(sites) < 2:
        raise AnalysisBroken("only %d numeric conversion sites found behind _parseNumber (floor 2)" % len(sites))
    for (f, e, v) in sites:
        n = e.node
        nm = last(n["callee"])
        r.instance()
        a0 = strip_casts(strip_wrappers(n["args"][0]))
        ok, why = False, "its source `%s` is not the whole literal" % show(a0)[:50]
        if nm == "from_chars":
            a1 = n["args"][1]
            ok = show(a0) == v + ".data()" and show(strip_casts(a1)).replace(" ", "") in ((v + ".data()+" + v + ".size()").replace(" ", ""),)
            why = "the range is not [%s.data(), %s.data() + %s.size())" % (v, v, v)
        else:
            # c_str()/data() of a std::string constructed from the whole view
            if a0.get("k") == "mcall" and last(a0.get("callee", "")) in ("c_str", "data"):
                src = strip_casts(strip_wrappers(a0.get("obj")))
                while src is not None and src.get("k") == "ctor" and src.get("cls") == "std::basic_string":
                    args = [x for x in src.get("args", []) if not x.get("def")]
                    if len(args) == 1:
                        src = strip_casts(strip_wrappers(args[0]))
                    else:
                        why = "the string is built from %d arguments (a length-limited copy)" % len(args)
                        src = None
                        break
                if src is not None and src.get("k") == "var" and src["n"] == v:
                    ok = True
                elif src is not None and src.get("k") == "var":
                    # a local std::string: every definition must be the whole view
                    defs = [x.get("init") for d in f.stmts() if d.node.get("k") == "decl" for x in d.node["vars"] if x["n"] == src["n"]]
                    ok = bool(defs) and all(dd is not None and key_of_var(strip_views(dd)) == v for dd in defs)
            elif a0.get("k") == "var" and "[" in (a0.get("t") or ""):
                why = "it converts from the fixed-size buffer `%s` (%s): a literal longer than the buffer is truncated and decodes to a different number" % (a0["n"], a0.get("t"))
        r.expect(ok, f, e, "number converted from part of the literal: %s" % nm, "%s converts the number with %s, but %s — valid long literals (70-digit integers, long mantissas with an exponent) decode to a value other than the reference decoder's"
                 % (last(f.name), nm, why), okdesc="%s: %s over the whole literal" % (last(f.name), nm))


def key_of_var(n):
    n = strip_casts(n) if n is not None else None
    return n["n"] if n is not None and n.get("k") == "var" else None



def anchors(ctx, r):
    fb = ctx.fb()
    # (the nesting depth is no longer anchored by name: R2 reads its carrier — parameter or member — off the depthMax comparison)
    # (nor are the array / object containers: R2 takes the local handed to the out-parameter)
    tab = [(jp(ctx, "_parseString"), ["str", "c"]),
           (fb.func(JS + "::_escapeString", file_suffix=JF), ["c", "result"]), (jp(ctx, "_appendUtf8"), ["cp", "str"])]
    for f, names in tab:
        common.require_names(f, names)
        r.instance()
        r.ok("%s: %s" % (last(f.name), ", ".join(names)))


def run(ctx, ck):
    r0 = ck.run_rule("C13-R0", "the local names the rules are anchored on exist (a rename makes the analysis refuse — exit 2 — instead of raising a false alarm)", "anchor table", lambda r: anchors(ctx, r))
    if r0.broken:
        return
    ck.run_rule("C13-R1", "parser cursor stays inside the input on every path (reads, advances, error offset)", "A7 interprocedural cursor-window abstract interpretation", lambda r: r1(ctx, r))
    ck.run_rule("C13-R2", "depth and size limits precede recursion and growth", "A2 dominance + loop re-entry search", lambda r: r2(ctx, r))
    ck.run_rule("C13-R3", "escape tables of parser and serializer agree with RFC 8259 and each other; \\u/surrogate/UTF-8 arithmetic exact", "A10 table extraction + exact finite-domain evaluation of pure expressions", lambda r: r3(ctx, r))
    ck.run_rule("C13-R4", "serializer type switch exhaustive; doubles round-trip-safe, finite only, re-parse as Double", "A10 + A2", lambda r: r4(ctx, r))
    ck.run_rule("C13-R5", "every parser loop makes progress", "A2 cycle analysis", lambda r: r5(ctx, r))
    ck.run_rule("C13-R7", "first-character dispatch, literal and separator tables of the value grammar", "A10 table extraction", lambda r: r7(ctx, r))
    ck.run_rule("C13-R6", "numeric conversions operate on the whole scanned literal", "A10 dataflow from the literal's view to every converter", lambda r: r6(ctx, r))
