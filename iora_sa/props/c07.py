"""C07 — TLS sessions authenticate the peer as configured and never downgrade (DESIGN.md §2 C07)."""
from .. import access
from ..cfg import search, witness_str, elem_dominates
from ..expr import show, walk, last, field_of, strip_wrappers, strip_casts, short, const_value, access_path
from ..facts import AnalysisBroken
from ..predabs import Vocab, PredAbs, A, Not, And, Or, T, F, translate, total, known_when, atoms_of
from ..rules import common

TITLE = "TLS sessions authenticate the peer as configured and never downgrade"
TECHNIQUE = 'custom static analysis over clang-14 CFG facts: call-site rules over OpenSSL primitives (constant command/flag words), typestate of the TLS context (no plaintext path when TLS was requested), dominance'
TE = "iora::network::TcpEngine"
FILE = "iora/network/detail/tcp_engine.hpp"
HC = "iora::network::HttpClient"
HCFILE = "iora/network/http_client.hpp"
SESS = TE + "::Session"
TLS12 = 0x0303

EXPLANATION = (
    "Static API-protocol rules over the resolved OpenSSL calls of tcp_engine.hpp plus predicate abstraction: R1 on every successful path "
    "of initTls through an enabled block with verifyPeer, SSL_CTX_set_verify was called on that context with SSL_VERIFY_PEER (server: also "
    "FAIL_IF_NO_PEER_CERT), a null callback, and trust anchors were loaded (client: or default paths); nothing in the library lowers "
    "verification; the client context loads the process-wide default trust locations only where no caFile/caPath is configured and loads the configured ones where they are (the trust anchor set is exactly what was configured); R2 every context passes through applyTls12Floor before initTls succeeds and the value handed to "
    "SSL_CTX_set_min_proto_version is >= TLS 1.2 on both arms of the clamp; no maximum-version / no-TLS1.2 option anywhere; R3 the results "
    "of certificate, key, key-match and CA loading are tested and fail initTls, and an expired/unparseable notAfter fails it; R4 the "
    "connect announcement for a TLS session is reachable only behind SSL_do_handshake()==1, the plain-TCP announcements only without "
    "TLS, and every failing handshake path closes the session; R5 a TLS request is honoured or refused: a session inserted on a path "
    "where TLS was requested carries an SSL object (with the checked invariant context≠null ⇒ enabled); R6 = C01-R5 (no clear-text "
    "write on a TLS session); R7 every client SSL object gets its expected peer name (SSL_set1_host / X509_VERIFY_PARAM_set1_*) before "
    "the handshake, and the name given to the engine is the URL host; R8 every field of HttpClient::TlsConfig is used where the "
    "transport's client TLS configuration is built.")
NOT_DECIDED = ["what OpenSSL's verifier accepts (trusted base)", "cipher strength", "the matrix of real certificates"]
_VIEW = "judged on a view of the anchor function with every TLS-relevant helper of the class spliced in (parameters bound to the call's arguments, helper results carried to the caller's test)"
FOLLOWS_HELPERS = {"C07-R1": _VIEW + "; the 'never lowered' clause is universal over all functions", "C07-R2": _VIEW, "C07-R3": _VIEW, "C07-R4": _VIEW + "; announce sites in helpers count only when spliced into one of the three judged functions",
                   "C07-R5": _VIEW, "C07-R6": _VIEW, "C07-R7": _VIEW, "C07-R8": "the configuration builder is ensureInitialized plus every HttpClient method it calls (call-graph closure)"}


def fn(ctx, name):
    return ctx.fb().func(TE + "::" + name, file_suffix=FILE)


# ------------------------------------------------------------------ views: helper functions spliced into their callers
#
# The rules below speak about a handful of anchor functions (initTls, doConnect, onListener, driveHandshake, onSession, doSend,
# writePending).  Code that a refactoring moves out of an anchor into a helper of the same class (or that was always there)
# must be judged exactly as if it still stood in the anchor.  `view(fb, f)` returns a synthetic Function: f's CFG with every
# call to a TLS-relevant helper of the same class replaced by a copy of the helper's CFG (recursively), the helper's
# parameters replaced by the call's (pure) argument expressions, constants folded (`role == TlsMode::Client` with role :=
# TlsMode::Client) and the branches that became constant pruned.  The helper's `return v` becomes an `iret` element; ViewAbs
# (below) carries its value to the caller's test of the call in the ghost atom `hret`.  Dominance, search() and PredAbs then
# work on the view unchanged.  Which helpers are spliced is decided by what their bodies contain (RELEVANT), never by name;
# the anchors themselves (KEEP) are never spliced: the rules know them and summarise them where needed.
CBS = "iora::network::detail::EngineBase::Callbacks::"
KEEP = {TE + "::" + x for x in ("initTls", "applyTls12Floor", "freeTls", "doConnect", "onListener", "doAddListener", "onSession", "driveHandshake", "doSend",
                                "writePending", "readAvail", "closeNow", "updateInterest", "shutdownDrain", "loop", "start", "stop")}
_RAW_IO = ("send", "write", "sendto", "sendmsg", "writev", "recv", "read")


def _relevant_node(n):
    k = n.get("k")
    if k == "call":
        c = n.get("callee") or ""
        if c.startswith(("SSL_", "X509_", "TLS_")) or c in _RAW_IO:
            return True
    if k in ("call", "mcall") and n.get("callee") in KEEP:
        return True
    if k == "member":
        nm = n.get("n") or ""
        return nm in (SESS + "::tlsMode", SESS + "::tlsState", SESS + "::ssl", CBS + "onConnect", TE + "::_sslCli", TE + "::_sslSrv", TE + "::_sessions", TE + "::_listeners") or \
            nm.startswith("iora::network::TransportConfig::TlsConfig::")
    return False


_FOLD_BIN = {"==": lambda a, b: a == b, "!=": lambda a, b: a != b, "<": lambda a, b: a < b, ">": lambda a, b: a > b, "<=": lambda a, b: a <= b, ">=": lambda a, b: a >= b,
             "&&": lambda a, b: bool(a) and bool(b), "||": lambda a, b: bool(a) or bool(b)}


def _fold(n):
    """constant value of a (cloned) expression tree, or None"""
    if not isinstance(n, dict):
        return None
    k = n.get("k")
    if k in ("int", "bool", "enum", "char") and n.get("cv") is not None:
        return n["cv"]
    if k == "cast":
        return _fold(n.get("v"))
    if k == "un" and n.get("op") == "!":
        v = _fold(n.get("v"))
        return None if v is None else (0 if v else 1)
    if k == "bin" and n.get("op") in _FOLD_BIN:
        a, b = _fold(n.get("lhs")), _fold(n.get("rhs"))
        if n["op"] == "&&" and (a == 0 and a is not None or b == 0 and b is not None):
            return 0
        if n["op"] == "||" and (a or b):
            return 1
        if a is None or b is None:
            return None
        return 1 if _FOLD_BIN[n["op"]](a, b) else 0
    return None


_PURE_ARG_KINDS = ("var", "member", "this", "enum", "int", "bool", "null", "str", "char", "cast", "gvar")


def _pure_arg(n):
    """an argument expression that can stand for the parameter inside the helper: no call, no effect (smart-pointer get / -> / * and
    string c_str are looked through)"""
    for x in walk(n):
        k = x.get("k")
        if k in _PURE_ARG_KINDS:
            continue
        if k == "un" and x.get("op") in ("&", "*", "-", "!"):
            continue
        if k == "mcall" and last(x.get("callee", "")) in ("get", "c_str", "operator->", "operator*") and not x.get("args"):
            continue
        if k == "opcall" and x.get("op") in ("->", "*") and len(x.get("args", [])) == 1:
            continue
        return False
    return True


class _Views:
    def __init__(self, fb):
        self.fb = fb
        self.memo = {}
        self.rel = {}

    def helper_of(self, f, n, chain=()):
        """the Function a call node of f resolves to if it is a same-class helper that can be spliced in, else None"""
        k = n.get("k")
        if k not in ("call", "mcall") or n.get("virt"):
            return None
        c = n.get("callee") or ""
        if c in KEEP or c == f.name or c in chain or c.startswith("std::"):
            return None
        # a member function called on another object (`s->handshaking()`) is spliced with `this` bound to that object
        if k == "mcall" and (n.get("obj") or {}).get("k") not in (None, "this") and not _pure_arg(n["obj"]):
            return None
        hs = [h for h in self.fb.by_name.get(c, []) if h.file == f.file]      # defined in the same header as the anchor
        if len({(h.file, h.line) for h in hs}) != 1:
            return None
        h = hs[0]
        if not h.ok or h.kind not in ("method", "function") or h.raw.get("trys"):
            return None
        if len([a for a in n.get("args", [])]) != len(h.params):
            return None
        return h if self.relevant(h, chain + (f.name,)) else None

    def relevant(self, h, chain=()):
        if h.name in self.rel:
            return self.rel[h.name]
        self.rel[h.name] = False
        r = any(_relevant_node(n) for n in h.nodes.values())
        if not r and len(chain) < 4:
            r = any(self.helper_of(h, n, chain) is not None for n in h.nodes.values() if n.get("k") in ("call", "mcall"))
        self.rel[h.name] = r
        return r

    def view(self, f, chain=()):
        if f.sig in self.memo:
            return self.memo[f.sig]
        # a local lambda that is invoked in place is a helper too, but its body is not spliced (captures are not parameters): if it holds
        # TLS-relevant statements the function cannot be judged — refuse rather than judge it without them
        for n in f.nodes.values():
            lf = local_lambda(f, n)
            if lf is not None and lf.ok and any(_relevant_node(x) for x in lf.nodes.values()):
                raise AnalysisBroken("%s invokes a local lambda (line %s) that contains TLS-relevant statements; lambdas are not followed" % (short(f.name), n.get("l", "?")))
        sites = {}
        if len(chain) < 4:
            for b in f.blocks.values():
                for e in b.elems:
                    if e.kind == "stmt" and e.node.get("k") in ("call", "mcall") and "id" in e.node:
                        h = self.helper_of(f, e.node, chain)
                        if h is not None:
                            sites.setdefault(b.id, []).append((e.idx, e, h))
        if not sites:
            f.inlined_calls, f.inlined_names, f._c07_fb = getattr(f, "inlined_calls", {}), getattr(f, "inlined_names", set()), self.fb
            self.memo[f.sig] = f
            return f
        cnt = {"id": max(list(f.nodes) + [0]) + 1, "b": max(f.blocks) + 1, "d": 1 + max([x.get("d", 0) for x in f.nodes.values() if isinstance(x.get("d"), int)] +
                                                                                 [v.get("d", 0) for x in f.nodes.values() if x.get("k") == "decl" for v in x.get("vars", [])] + [p.get("d", 0) for p in f.params] + [0])}
        blocks = {}
        for rb in f.raw["blocks"]:
            nb = dict(rb)
            nb["elems"] = list(rb["elems"])
            blocks[rb["id"]] = nb
        inl, names = {}, set()
        for bid, lst in sites.items():
            cur = blocks[bid]
            off = 0
            for (idx, e, h) in sorted(lst, key=lambda t: t[0]):
                hv = self.view(h, chain + (f.name,))
                j = idx - off
                rest = {"id": cnt["b"], "elems": cur["elems"][j:], "succs": cur["succs"]}
                cnt["b"] += 1
                for key in ("term", "noreturn", "looptarget"):
                    if key in cur:
                        rest[key] = cur.pop(key)
                cur["elems"] = cur["elems"][:j]
                root = f.root_elem(e.node)
                entry, exit_, new = self._clone(hv, e.node, cnt, (root.raw.get("try", 0), root.raw.get("catch", 0)) if root is not None else (0, 0), inl)
                cur["succs"] = [entry]
                new[exit_]["succs"] = [rest["id"]]
                blocks.update(new)
                blocks[rest["id"]] = rest
                inl[e.node["id"]] = h.name
                names.add(h.name)
                names |= getattr(hv, "inlined_names", set())
                cur, off = rest, idx
        raw = dict(f.raw)
        raw["blocks"] = list(blocks.values())
        from ..facts import Function
        v = Function(raw)
        for n in v.nodes.values():
            if n.get("k") == "lambda":
                for lf in self.fb.by_name.get(n.get("fn"), []):
                    if lf.file == f.file:
                        v.lambdas.append((n, lf))
        v.inlined_calls, v.inlined_names, v.base, v._c07_fb = inl, names, f, self.fb
        self.memo[f.sig] = v
        return v

    def _clone(self, h, call, cnt, lex, inl):
        """copy h's (already spliced) CFG with fresh node / block / declaration ids and the parameters replaced by the call's arguments"""
        idoff, doff = cnt["id"], cnt["d"]
        boff = cnt["b"]
        hids = list(h.nodes) + [0]
        cnt["id"] += max(hids) + 1
        cnt["b"] += max(h.blocks) + 1
        cnt["d"] += 1 + max([x.get("d", 0) for x in h.nodes.values() if isinstance(x.get("d"), int)] + [v.get("d", 0) for x in h.nodes.values() if x.get("k") == "decl" for v in x.get("vars", [])] +
                            [p.get("d", 0) for p in h.params] + [0])
        args = call.get("args", [])
        thisobj = call.get("obj") if call.get("k") == "mcall" and (call.get("obj") or {}).get("k") not in (None, "this") else None
        written = set()      # parameters the helper assigns / takes the address of: they keep their own identity
        hfields = {n["n"] for n in h.nodes.values() if n.get("k") == "member" and access.classify(h, n) in ("write", "rw")}
        for n in h.nodes.values():
            tgt = None
            if n.get("k") == "bin" and n.get("op", "").endswith("=") and n["op"] not in ("==", "!=", "<=", ">="):
                tgt = n.get("lhs")
            elif n.get("k") == "un" and ("++" in n.get("op", "") or "--" in n.get("op", "") or n.get("op") == "&"):
                tgt = n.get("v")
            elif n.get("k") == "opcall" and n.get("op", "").endswith("=") and n["op"] not in ("==", "!=", "<=", ">=") and n.get("args"):
                tgt = n["args"][0]
            if isinstance(tgt, dict) and tgt.get("k") == "var" and "parm" in tgt:
                written.add(tgt["parm"])
        subst = {}
        for i, a in enumerate(args):
            if i in written or not _pure_arg(a):
                continue
            if any(x.get("k") == "member" and x.get("n") in hfields for x in walk(a)):
                continue        # the helper writes a field the argument reads: the parameter froze the old value
            subst[i] = a

        def fresh(x):
            if isinstance(x, list):
                return [fresh(y) for y in x]
            if not isinstance(x, dict):
                return x
            out = {k: fresh(v) for k, v in x.items()}
            if "id" in out:
                out["id"] = cnt["id"]
                cnt["id"] += 1
            return out

        def clone(x):
            if isinstance(x, list):
                return [clone(y) for y in x]
            if not isinstance(x, dict):
                return x
            if x.get("k") == "var" and x.get("parm") in subst and "iparm" not in x:
                out = fresh(subst[x["parm"]])
                out["id"] = x["id"] + idoff
                return out
            if x.get("k") == "this" and thisobj is not None:
                out = fresh(thisobj)
                if "id" in x:
                    out["id"] = x["id"] + idoff
                return out
            out = {}
            for k, v in x.items():
                if k in ("id", "call") and isinstance(v, int):
                    out[k] = v + idoff
                elif k == "d" and isinstance(v, int):
                    out[k] = v + doff
                elif k == "parm":
                    out["iparm"] = v
                else:
                    out[k] = clone(v)
            if out.get("k") == "ret":
                out["k"], out["call"] = "iret", call["id"]
            return out
        new = {}
        roots = []
        for b in h.raw["blocks"]:
            nb = {"id": b["id"] + boff, "elems": [], "succs": [(s + boff) if isinstance(s, int) else None for s in b["succs"]]}
            if b.get("noreturn"):
                nb["noreturn"] = True
            if b.get("label"):
                nb["label"] = clone(b["label"])
            if b.get("term"):
                t = dict(b["term"])
                for key in ("cond", "fullcond"):
                    if isinstance(t.get(key), int):
                        t[key] = t[key] + idoff
                t.pop("try", None)
                nb["term"] = t
            for re_ in b["elems"]:
                ne = {}
                for k, v in re_.items():
                    if k == "e":
                        ne[k] = v + idoff
                    elif k == "d" and isinstance(v, int):
                        ne[k] = v + doff
                    elif k in ("root", "v"):
                        ne[k] = clone(v)
                    elif k in ("try", "catch", "catchidx"):
                        continue
                    else:
                        ne[k] = v
                if "root" in ne:
                    if lex[0]:
                        ne["try"] = lex[0]
                    if lex[1]:
                        ne["catch"] = lex[1]
                    roots.append(ne["root"])
                nb["elems"].append(ne)
            new[nb["id"]] = nb
        for cid, nm in getattr(h, "inlined_calls", {}).items():
            inl[cid + idoff] = nm
        # fold what the substitution made constant, look through const locals that became constants, prune constant branches
        consts = {}
        byid = {}
        for _ in range(4):
            changed = False
            for rt in roots:
                for x in list(walk(rt)):
                    if "id" in x:
                        byid[x["id"]] = x
                    k = x.get("k")
                    if k == "var" and x.get("d") in consts:
                        v = consts[x["d"]]
                        keep = {kk: x[kk] for kk in ("id", "l", "t") if kk in x}
                        x.clear()
                        x.update(keep)
                        x.update({"k": "bool" if (keep.get("t") or "").replace("const ", "") == "bool" else "int", "cv": v, "folded": True})
                        changed = True
                    elif k in ("bin", "un") and x.get("op") in list(_FOLD_BIN) + ["!"]:
                        v = _fold(x)
                        if v is not None:
                            keep = {kk: x[kk] for kk in ("id", "l") if kk in x}
                            x.clear()
                            x.update(keep)
                            x.update({"k": "bool", "cv": v, "t": "bool", "folded": True})
                            changed = True
                    elif k == "cond" and _fold(x.get("c")) is not None:
                        pick = x["t"] if _fold(x["c"]) else x["f"]
                        keep = {kk: x[kk] for kk in ("id",) if kk in x}
                        x.clear()
                        x.update(pick)
                        x.update(keep)
                        changed = True
                    elif k == "decl":
                        for dv in x.get("vars", []):
                            if (dv.get("t") or "").startswith("const ") and dv.get("d") not in consts and _fold(dv.get("init")) is not None:
                                consts[dv["d"]] = _fold(dv["init"])
                                changed = True
            if not changed:
                break
        for nb in new.values():
            t = nb.get("term")
            if t and len(nb["succs"]) == 2 and t.get("k") in ("IfStmt", "ConditionalOperator", "BinaryOperator", "WhileStmt", "ForStmt", "DoStmt"):
                c = byid.get(t.get("cond"))
                v = _fold(c) if c is not None else None
                if v is not None and t.get("k") == "BinaryOperator" and t.get("op") not in ("&&", "||"):
                    v = None
                if v is not None:
                    nb["succs"][1 if v else 0] = None
        return h.raw["entry"] + boff, h.raw["exit"] + boff, new


def const_locals(f):
    """{declaration id: initialiser} of the `const` scalar locals of f whose initialiser reads nothing that can change after the declaration:
    constants, parameters and locals that are never assigned again (no field, no call).  `const bool wantsRead = errc == SSL_ERROR_WANT_READ;
    ... if (!wantsRead && ...)` is then the same test as the comparison written in place."""
    if getattr(f, "_c07_cl", None) is not None:
        return f._c07_cl
    assigned = set()
    for n in f.nodes.values():
        tgt = None
        if n.get("k") == "bin" and n.get("op", "").endswith("=") and n["op"] not in ("==", "!=", "<=", ">="):
            tgt = n.get("lhs")
        elif n.get("k") == "un" and ("++" in n.get("op", "") or "--" in n.get("op", "") or n.get("op") == "&"):
            tgt = n.get("v")
        elif n.get("k") == "opcall" and n.get("op", "").endswith("=") and n["op"] not in ("==", "!=", "<=", ">=") and n.get("args"):
            tgt = n["args"][0]
        tgt = strip_casts(tgt) if isinstance(tgt, dict) else None
        if tgt is not None and tgt.get("k") == "var" and tgt.get("d") is not None:
            assigned.add(tgt["d"])
    out = {}
    for n in f.nodes.values():
        if n.get("k") != "decl":
            continue
        for v in n.get("vars", []):
            t = (v.get("t") or "")
            if not t.startswith("const ") or t.replace("const ", "") not in ("bool", "int", "unsigned int", "long", "unsigned long") or not isinstance(v.get("init"), dict):
                continue
            ok = True
            for x in walk(v["init"]):
                k = x.get("k")
                if k in ("int", "bool", "enum", "char", "cast", "null"):
                    continue
                if k == "bin" and x.get("op") in ("==", "!=", "<", ">", "<=", ">=", "&&", "||", "+", "-", "*", "&", "|", "^"):
                    continue
                if k == "un" and x.get("op") in ("!", "-", "~", "+"):
                    continue
                if k == "var" and x.get("d") not in assigned:
                    continue
                ok = False
                break
            if ok:
                out[v["d"]] = v["init"]
    f._c07_cl = out
    return out


def enum_eq_leaf(n, is_field, target, fm_target):
    """`field == E` / `field != E` for an enum-typed field: fm_target when E is the enumerator `target`; for any OTHER enumerator equality
    still says something — the field is then certainly not `target` (inequality says nothing).  So `tls == Server` refutes `tls == Client`
    exactly as the else-branch of `tls == Client` does, and a switch over the field (ViewAbs case edges) reads like the if-chain."""
    if n.get("k") == "bin" and n["op"] in ("==", "!="):
        l, rr = strip_casts(n["lhs"]), strip_casts(n["rhs"])
        if l.get("k") == "member" and rr.get("k") == "enum" and is_field(l):
            fm = fm_target if last(rr["n"]) == target else ("and?", Not(fm_target), None)
            return fm if n["op"] == "==" else Not(fm)
    return None


def ptr_leaf(n, field, atom):
    """the pointer member `field` used as a truth value, or compared with nullptr / 0"""
    if n.get("k") == "member" and n.get("n") == field:
        return A(atom)
    if n.get("k") == "bin" and n["op"] in ("==", "!="):
        l, rr = strip_casts(n["lhs"]), strip_casts(n["rhs"])
        if l.get("k") == "member" and l.get("n") == field and (rr.get("k") == "null" or const_value(rr) == 0):
            return Not(A(atom)) if n["op"] == "==" else A(atom)
    return None


class ViewAbs(PredAbs):
    """PredAbs over a view: (a) the value a spliced helper returns is kept in the ghost atom `hret` (set at the helper's `iret`, read where
    the caller tests or returns the call), (b) conditions are read through const locals (const_locals) and folded constants."""

    def __init__(self, f, vocab, leaf, effects, init=T, **kw):
        inl = getattr(f, "inlined_calls", None) or {}
        cl = const_locals(f)
        if inl:
            vocab = Vocab(list(vocab.atoms) + ["hret"])
        self.has_hret = bool(inl)

        def leaf2(n, depth=0):
            r = leaf(n)
            if r is not None:
                return r
            k = n.get("k")
            if k in ("call", "mcall") and n.get("id") in inl:
                return A("hret")
            if k == "bool" and n.get("cv") is not None:
                return T if n["cv"] else F
            if k == "var" and n.get("d") in cl and depth < 6:
                return translate(cl[n["d"]], lambda m: leaf2(m, depth + 1))
            return None

        def eff2(e):
            ops = list(effects(e) or [])
            if inl and e.kind == "stmt" and e.node.get("k") == "iret" and isinstance(e.node.get("v"), dict):
                v = e.node["v"]
                cv = const_value(v)
                fb_ = getattr(f, "_c07_fb", None)
                if cv is None and fb_ is not None:      # `return reporter(...)` where every return of reporter is one constant
                    cv = 0 if always_returns(fb_, f, strip_casts(v), False) else (1 if always_returns(fb_, f, strip_casts(v), True) else None)
                if cv is not None:
                    ops.append(("set", "hret", bool(cv)))
                else:
                    fm = translate(v, leaf2)
                    tf = total(fm)
                    if tf is not None:
                        ops.append(("assign", "hret", tf))
                    else:
                        ops += [("havoc", "hret"), ("assume", Or(Not(A("hret")), known_when(fm, True))), ("assume", Or(A("hret"), known_when(fm, False)))]
            return ops
        self.leaf2 = leaf2
        PredAbs.__init__(self, f, vocab, leaf2, eff2, init=init, **kw)

    def _edge(self, st, b, si):
        # a switch edge is the test `scrutinee == case value` (default / no case: unequal to every case value)
        lab = b.edge_label(si)
        c = b.cond
        if c is not None and b.term and b.term.get("k") == "SwitchStmt" and (lab == "default" or (isinstance(lab, tuple) and lab[0] == "case")):
            def eq(v):
                return translate({"k": "bin", "op": "==", "lhs": c, "rhs": v}, self.leaf)
            if lab == "default":
                for sj in range(len(b.succs)):
                    lj = b.edge_label(sj)
                    if isinstance(lj, tuple) and lj[0] == "case" and isinstance(lj[1], dict):
                        st = self.v.assume(st, known_when(eq(lj[1]), False))
            elif isinstance(lab[1], dict):
                st = self.v.assume(st, known_when(eq(lab[1]), True))
            return st if st else None
        return PredAbs._edge(self, st, b, si)

    def ret_true(self, ret):
        """formula that holds exactly when the `return` element hands back true: T / F for a constant, `hret` for a spliced helper's result,
        None when the value is something this analysis cannot read"""
        v = strip_casts(ret.node.get("v") or {})
        cv = const_value(v)
        if cv is not None:
            return T if cv else F
        fm = total(translate(v, self.leaf2))
        return fm


def ret_value(fb, pa, f, ret):
    """T / F / formula for 'this return hands back true' (ViewAbs.ret_true), reading `return reporter(...)` through a function all of whose
    returns are one constant; None = unknown"""
    ok = pa.ret_true(ret)
    if ok is None:
        v = strip_casts(ret.node.get("v") or {})
        if always_returns(fb, f, v, False):
            return F
        if always_returns(fb, f, v, True):
            return T
    return ok


def local_lambda(f, n):
    """the lambda Function invoked by `name(...)` where name is a local of f initialised with a lambda expression, else None"""
    if n.get("k") != "opcall" or n.get("op") != "()" or not n.get("args"):
        return None
    t = strip_wrappers(n["args"][0])
    if t is None or t.get("k") != "var" or t.get("d") is None:
        return None
    for x in f.nodes.values():
        if x.get("k") == "decl":
            for v in x.get("vars", []):
                if v.get("d") == t["d"] and isinstance(v.get("init"), dict):
                    i = strip_wrappers(v["init"])
                    while i is not None and i.get("k") == "ctor" and len(i.get("args", [])) == 1:
                        i = strip_wrappers(i["args"][0])
                    if i is not None and i.get("k") == "lambda":
                        for (ln, lf) in f.lambdas:
                            if lf.name == i.get("fn"):
                                return lf
    return None


def always_returns(fb, f, n, value):
    """the call node n (in f) is a call of a library function (or of a local lambda) all of whose returns are the constant `value` (a failure
    reporter such as `return fail("...")`): the call's result is that constant"""
    c = n.get("callee") if n.get("k") in ("call", "mcall") else None
    hs = [h for h in fb.by_name.get(c or "", []) if h.ok and h.file == f.file]
    lf = local_lambda(f, n)
    if lf is not None and lf.ok:
        hs = [lf]
    if not hs:
        return False
    for h in hs:
        rets = common.returns(h)
        if not rets or any(const_value(r_.node.get("v") or {}) is None or bool(const_value(r_.node.get("v"))) != bool(value) for r_ in rets):
            return False
    return True


# ------------------------------------------------------------------ small helpers (self-contained: other properties' modules change independently)

def result_decl(f, call_elem):
    """declaration id of the local that receives the call's result (`int rc = call(...)` / `rc = call(...)`), else None"""
    pid = f.parent.get(call_elem.node["id"])
    while pid is not None:
        p = f.nodes[pid]
        if p.get("k") == "cast":
            pid = f.parent.get(pid)
            continue
        if p.get("k") == "bin" and p["op"] == "=" and p["lhs"].get("k") == "var":
            return p["lhs"].get("d")
        if p.get("k") == "decl":
            for v in p["vars"]:
                if v.get("init") is not None and any(x is call_elem.node for x in walk(v["init"])):
                    return v.get("d")
        return None
    return None


def cb_invocations(f, cbname):
    """invocations of a copy of _cbs.<cbname> (copy-then-invoke idiom; the copy is identified by its declaration, not its name) or of the member itself"""
    copies = set()
    for n in f.nodes.values():
        if n.get("k") == "opcall" and n.get("op") == "=" and len(n["args"]) == 2:
            if field_of(strip_wrappers(n["args"][1])) == CBS + cbname and n["args"][0].get("k") == "var":
                copies.add(n["args"][0].get("d"))
        if n.get("k") == "decl":
            for v in n["vars"]:
                i = v.get("init")
                if i is not None and any(x.get("k") == "member" and x["n"] == CBS + cbname for x in walk(i)) and "std::function" in v["t"]:
                    copies.add(v.get("d"))
    out = []
    for (e, tgt) in common.fn_invocations(f):
        t = strip_wrappers(tgt)
        if (t.get("k") == "var" and t.get("d") in copies) or field_of(t) == CBS + cbname:
            out.append(e)
    return out


def cbset_leaf(n):
    """`if (cb)` on a copied std::function: the callback is assumed installed (DESIGN 1.3 A2 copy-then-invoke)"""
    if n.get("k") == "mcall" and last(n.get("callee", "")).startswith("operator bool") and "std::function" in (n.get("obj") or {}).get("t", ""):
        return T
    return None


def tls_leaf(n):
    """atoms for the per-session TLS state: tls (tlsMode != None), hs / open (tlsState), dh_ok (result of driveHandshake)"""
    if n.get("k") == "mcall" and n.get("callee") == TE + "::driveHandshake":
        return A("dh_ok")
    if n.get("k") == "bin" and n["op"] in ("==", "!="):
        l, rr = strip_casts(n["lhs"]), strip_casts(n["rhs"])
        f = field_of(l) if l.get("k") == "member" else None
        en = rr["n"] if rr.get("k") == "enum" else None
        if f == SESS + "::tlsMode" and en:
            fm = Not(A("tls")) if en.endswith("TlsMode::None") else ("and?", A("tls"), None)      # == Client / == Server: certainly a TLS session
            return fm if n["op"] == "==" else Not(fm)
        if f == SESS + "::tlsState" and en:
            a = {"Handshake": "hs", "Open": "open"}.get(last(en))
            if a:
                return A(a) if n["op"] == "==" else Not(A(a))
            if last(en) == "None":
                fm = And(Not(A("hs")), Not(A("open")))
                return fm if n["op"] == "==" else Not(fm)
    return None


TLS_AXIOM = And(Or(Not(A("tls")), A("hs"), A("open")), Not(And(A("hs"), A("open"))))


def tls_eff(e):
    if e.kind != "stmt":
        return None
    n = e.node
    if n.get("k") == "bin" and n["op"] == "=" and n["lhs"].get("k") == "member":
        f = field_of(n["lhs"])
        rr = strip_casts(n["rhs"])
        if f == SESS + "::tlsState" and rr.get("k") == "enum":
            v = last(rr["n"])
            return [("set", "hs", v == "Handshake"), ("set", "open", v == "Open")]
        if f == SESS + "::tlsMode":
            return [("havoc", "tls")]
    if n.get("k") == "mcall" and n.get("callee") == TE + "::driveHandshake":
        # summary (checked in r6): driveHandshake returns true only with tlsState == Open
        return [("havoc_all", ["hs", "open", "dh_ok"]), ("assume", TLS_AXIOM), ("assume", Or(Not(A("dh_ok")), And(A("open"), Not(A("hs")))))]
    return None


def views(ctx):
    fb = ctx.fb()
    if getattr(fb, "_c07_views", None) is None:
        fb._c07_views = _Views(fb)
    return fb._c07_views


def vfn(ctx, name):
    """the anchor function TcpEngine::<name> with its TLS-relevant helpers spliced in"""
    return views(ctx).view(fn(ctx, name))


CTRL = {("SSL_CTX_ctrl", 123): "SSL_CTX_set_min_proto_version", ("SSL_CTX_ctrl", 124): "SSL_CTX_set_max_proto_version",
        ("SSL_ctrl", 123): "SSL_set_min_proto_version", ("SSL_ctrl", 124): "SSL_set_max_proto_version",
        ("SSL_ctrl", 55): "SSL_set_tlsext_host_name"}


def ssl_calls(f, names):
    """OpenSSL calls by API name; function-like macros that expand to SSL_CTX_ctrl/SSL_ctrl are recognised by their command code"""
    out = []
    for e in f.stmts():
        n = e.node
        if n.get("k") == "call":
            nm = n.get("mac") if n.get("mac") in names else n.get("callee")
            if n.get("callee") in ("SSL_CTX_ctrl", "SSL_ctrl") and len(n["args"]) > 1:
                nm = CTRL.get((n["callee"], const_value(n["args"][1])), nm)
            if nm in names:
                out.append((e, nm))
    return out


def ctx_of(n):
    """which context field a call's first argument names: 'srv' | 'cli' | None"""
    f = field_of(n["args"][0]) if n.get("args") else None
    return {TE + "::_sslSrv": "srv", TE + "::_sslCli": "cli"}.get(f)


def _tls_side(n):
    p = access_path(n) or ()
    return "srv" if any(x.endswith("::serverTls") for x in p) else ("cli" if any(x.endswith("::clientTls") for x in p) else None)


def cfg_leaf(n):
    """atoms for the TLS configuration tests of initTls / doConnect / onListener"""
    if n.get("k") == "member" and n.get("t") == "bool":
        side = _tls_side(n)
        if side and last(n["n"]) == "enabled":
            return A(side + "_en")
        if side and last(n["n"]) == "verifyPeer":
            return A(side + "_verify")
    if n.get("k") == "bin" and n["op"] in ("==", "!="):
        l, rr = strip_casts(n["lhs"]), strip_casts(n["rhs"])
        if l.get("k") == "member" and last(l["n"]) == "defaultMode" and rr.get("k") == "enum":
            p = access_path(l) or ()
            side = "srv" if any(x.endswith("::serverTls") for x in p) else "cli"
            want = {"srv": "Server", "cli": "Client"}[side]
            if last(rr["n"]) == want:
                return A(side + "_def") if n["op"] == "==" else Not(A(side + "_def"))
    return None


CA_FIELDS = {"caFile": "cafile", "caPath": "capath"}


def _ca_field(n):
    """(side, atom stem) if n names serverTls/clientTls .caFile / .caPath"""
    n = strip_wrappers(n) if n is not None else None
    if n is not None and n.get("k") == "member" and last(n.get("n", "")) in CA_FIELDS:
        side = _tls_side(n)
        if side:
            return side, CA_FIELDS[last(n["n"])]
    return None


def ca_leaf(n):
    """'a CA file / CA directory is configured' in the spellings a string test takes: !x.empty(), x.size()/length() != 0 / > 0, x != "" """
    if n.get("k") == "mcall" and last(n.get("callee", "")) == "empty" and not [a for a in n.get("args", []) if not a.get("def")]:
        cf = _ca_field(n.get("obj"))
        if cf:
            return Not(A("%s_%s" % (cf[1], cf[0])))
    cp = common.cmp_parts(n)
    if cp:
        op, l, rr = cp[0], strip_casts(cp[1]), strip_casts(cp[2])
        if l.get("k") == "mcall" and last(l.get("callee", "")) in ("size", "length") and const_value(rr) == 0:
            cf = _ca_field(l.get("obj"))
            if cf and op in ("==", "!=", ">", "<="):
                a = A("%s_%s" % (cf[1], cf[0]))
                return a if op in ("!=", ">") else Not(a)
        if op in ("==", "!=") and strip_wrappers(rr).get("k") == "str" and strip_wrappers(rr).get("v") == "":
            cf = _ca_field(l)
            if cf:
                a = A("%s_%s" % (cf[1], cf[0]))
                return Not(a) if op == "==" else a
    return None


def r1_r2(ctx, r1, r2):
    fb = ctx.fb()
    f = vfn(ctx, "initTls")
    sv = ssl_calls(f, ("SSL_CTX_set_verify",))
    ca = ssl_calls(f, ("SSL_CTX_load_verify_locations", "SSL_CTX_set_default_verify_paths"))
    floors = [e for e in f.stmts() if e.node.get("k") == "call" and e.node.get("callee") == TE + "::applyTls12Floor"]
    rets = common.returns(f)
    if not any(const_value(e.node.get("v") or {}) == 1 for e in rets):
        raise AnalysisBroken("initTls has no `return true`")
    for side, what in (("srv", "server"), ("cli", "client")):
        # one abstraction per context: the configuration tests of that side, what was applied to its SSL_CTX, and which CA
        # locations are configured (cafile / capath) versus which trust stores were loaded (load = the configured locations,
        # dflt = the process-wide default locations)
        atoms = [side + "_en", side + "_def", side + "_verify", "sv", "ca", "fl", "cafile_" + side, "capath_" + side, "load", "dflt"]
        vocab = Vocab(atoms)

        def eff(e, side=side):
            if e.kind != "stmt":
                return None
            n = e.node
            for (x, nm) in sv:
                if x is e and ctx_of(n) == side:
                    mode = const_value(n["args"][1]) if len(n["args"]) > 1 else None
                    cb = strip_casts(n["args"][2]) if len(n["args"]) > 2 else None
                    nullcb = cb is not None and (cb.get("k") == "null" or const_value(cb) == 0)
                    need = 3 if side == "srv" else 1
                    return [("set", "sv", mode is not None and (mode & need) == need and nullcb)]
            for (x, nm) in ca:
                if x is e and ctx_of(n) == side:
                    if nm == "SSL_CTX_set_default_verify_paths":
                        # the system store is not a trust anchor for client certificates
                        return [("set", "dflt", True)] + ([("set", "ca", True)] if side == "cli" else [])
                    return [("set", "ca", True), ("set", "load", True)]
            if e in floors and ctx_of(n) == side:
                return [("set", "fl", True)]
            return None
        def leaf(n, atoms=atoms):
            fm = cfg_leaf(n) or ca_leaf(n)
            return fm if fm is not None and atoms_of(fm) <= set(atoms) else None     # a test of the other side's configuration says nothing here
        pa = ViewAbs(f, vocab, leaf, eff, init=And(*[Not(A(a)) for a in ("sv", "ca", "fl", "load", "dflt")]))
        blk = And(A(side + "_en"), A(side + "_def"))
        vblk = And(blk, A(side + "_verify"))
        configured = Or(A("cafile_" + side), A("capath_" + side))
        for ret in rets:
            ok = ret_value(fb, pa, f, ret)
            if ok == F:
                continue        # a failing return (constant false, or a failure reporter whose every return is false)
            # a return whose value this analysis cannot read is held to the obligations of `return true`
            succ = T if ok is None else ok
            r1.instance()
            r1.expect(pa.entails(ret, Or(Not(And(vblk, succ)), A("sv"))), f, ret, "%s verify mode not set" % what,
                      "initTls can succeed with %sTls.verifyPeer on without SSL_CTX_set_verify(%s, SSL_VERIFY_PEER%s, nullptr) having been applied: the peer's certificate is not checked" % (
                          what, "_sslSrv" if side == "srv" else "_sslCli", "|FAIL_IF_NO_PEER_CERT" if side == "srv" else ""),
                      okdesc="initTls: %s verifyPeer ⇒ set_verify with the required mode and a null callback" % what)
            r1.instance()
            r1.expect(pa.entails(ret, Or(Not(And(vblk, succ)), A("ca"))), f, ret, "%s trust anchors not loaded" % what,
                      "initTls can succeed with %s verification on but no trust anchor loaded%s" % (what, " (for a server the system store does not count)" if side == "srv" else ""),
                      okdesc="initTls: %s verifyPeer ⇒ trust anchors loaded" % what)
            # the configured CA file / directory is what the peer is verified against: it was loaded
            r1.instance()
            r1.expect(pa.entails(ret, Or(Not(And(vblk, succ, configured)), A("load"))), f, ret, "%s configured CA not loaded" % what,
                      "initTls can succeed with %s verification on and a caFile/caPath configured without SSL_CTX_load_verify_locations having loaded it: the peer is verified against "
                      "something other than the configured trust anchor" % what, okdesc="initTls: %s CA configured ⇒ load_verify_locations" % what)
            r2.instance()
            r2.expect(pa.entails(ret, Or(Not(And(blk, succ)), A("fl"))), f, ret, "%s context without TLS 1.2 floor" % what,
                      "initTls can succeed with a %s context that never went through applyTls12Floor: TLS 1.0/1.1 would be negotiable" % what,
                      okdesc="initTls: %s context passes applyTls12Floor" % what)
        # the trust anchor set is EXACTLY what was configured: the process-wide default locations (system bundle, SSL_CERT_FILE,
        # SSL_CERT_DIR) may be loaded into a context only where no CA file and no CA directory is configured — on top of a
        # pinned private CA they make every publicly rooted certificate acceptable.  (On the server context they never count.)
        from ..finite import dominating_facts
        for (e, nm) in ca:
            if nm != "SSL_CTX_set_default_verify_paths" or ctx_of(e.node) != side or not pa.reachable(e):
                continue
            r1.instance()
            if side == "srv":
                r1.fail(f, e, "server default trust store loaded", "initTls loads the process-wide default trust locations into the SERVER context: client certificates issued by any public CA would be accepted")
                continue
            ok = pa.entails(e, And(Not(A("cafile_cli")), Not(A("capath_cli"))))
            if not ok:
                # a dominating test of caFile / caPath in a spelling ca_leaf does not read is a refusal, not a verdict
                for (c, t) in dominating_facts(f, e):
                    if any(_ca_field(x) for x in walk(c)) and not any(ca_leaf(x) is not None for x in walk(c)):
                        raise AnalysisBroken("initTls:%d: caFile/caPath is tested in a form this rule does not read: %s" % (e.line, show(c)[:80]))
            r1.expect(ok, f, e, "client default trust store added to a configured CA",
                      "SSL_CTX_set_default_verify_paths(_sslCli) is reached on a path where clientTls.caFile / caPath may be configured (known: %s): the context then trusts every root of the process-wide "
                      "default locations IN ADDITION to the configured CA, so a server whose certificate chains to a public/system root but not to the pinned CA is accepted" % (",".join(pa.describe(e)) or "nothing"),
                      okdesc="client default trust locations only when no caFile/caPath is configured")
    # nothing lowers verification, anywhere
    fb = ctx.fb()
    nset = 0
    for g in fb.functions:
        if not g.ok or "/include/iora/" not in g.file:
            continue
        for (e, nm) in ssl_calls(g, ("SSL_CTX_set_verify", "SSL_set_verify", "SSL_CTX_set_cert_verify_callback", "SSL_set_verify_result", "X509_STORE_set_verify_cb",
                                     "X509_STORE_CTX_set_error", "SSL_CTX_set_verify_depth", "SSL_CTX_set_max_proto_version", "SSL_set_max_proto_version",
                                     "SSL_set_min_proto_version", "SSL_CTX_set_options", "SSL_set_options", "SSL_CTX_set_min_proto_version")):
            nset += 1
            n = e.node
            if nm in ("SSL_CTX_set_verify",):
                mode = const_value(n["args"][1])
                r1.instance()
                r1.expect((g.name == TE + "::initTls" or g.name in f.inlined_names) and mode is not None and mode & 1, g, e, "verification lowered", "%s calls SSL_CTX_set_verify with mode %s" % (short(g.name), mode),
                          okdesc="%s: set_verify mode %s" % (short(g.name), mode))
            elif nm in ("SSL_set_verify", "SSL_CTX_set_cert_verify_callback", "SSL_set_verify_result", "X509_STORE_set_verify_cb", "X509_STORE_CTX_set_error"):
                r1.instance()
                r1.fail(g, e, "verification overridden", "%s calls %s, which can override the verification result" % (short(g.name), nm))
            elif nm in ("SSL_CTX_set_max_proto_version", "SSL_set_max_proto_version", "SSL_set_min_proto_version"):
                r2.instance()
                r2.fail(g, e, "protocol range changed", "%s calls %s outside the floor helper" % (short(g.name), nm))
            elif nm in ("SSL_CTX_set_options", "SSL_set_options"):
                opt = const_value(n["args"][1]) if len(n["args"]) > 1 else None
                r2.instance()
                r2.expect(opt is not None and not (opt & (0x08000000 | 0x20000000)), g, e, "TLS 1.2/1.3 disabled", "%s sets SSL options %s that disable TLS 1.2 or 1.3" % (short(g.name), opt),
                          okdesc="%s: options do not disable TLS 1.2/1.3" % short(g.name))
            elif nm == "SSL_CTX_set_min_proto_version":
                r2.instance()
                r2.expect(g.name == TE + "::applyTls12Floor", g, e, "min version set elsewhere", "%s sets the minimum protocol version outside applyTls12Floor" % short(g.name),
                          okdesc="min version set only in applyTls12Floor")
    if nset < 3:
        raise AnalysisBroken("only %d verify/protocol configuration calls seen" % nset)
    # the floor helper: every value it hands to OpenSSL is >= TLS 1.2 for EVERY configured minimum (exact evaluation of the
    # argument expression over the integer parameter), every path sets a minimum, and a configured value OpenSSL may reject
    # (anything that is not a constant protocol version) has its result tested with a constant floor on the failure path
    import copy
    from ..finite import compile_expr, NotPure, dominating_facts
    af = vfn(ctx, "applyTls12Floor")
    setv = ssl_calls(af, ("SSL_CTX_set_min_proto_version",))
    r2.instance()
    if not setv:
        r2.fail(af, None, "floor helper", "applyTls12Floor no longer calls SSL_CTX_set_min_proto_version")
        return
    ints = [p_ for p_ in af.params if p_["t"] in ("int", "long", "unsigned int", "unsigned long", "short", "unsigned short")]
    if len(ints) != 1:
        raise AnalysisBroken("applyTls12Floor: expected one integer parameter (the configured minimum), found %d" % len(ints))
    pname = ints[0]["n"]
    inits = {}
    for e in af.stmts():
        if e.node.get("k") == "decl":
            for dv in e.node["vars"]:
                if dv.get("init") is not None:
                    inits[dv["d"]] = dv["init"]

    def inline(n, depth=0):
        if isinstance(n, list):
            return [inline(x, depth) for x in n]
        if not isinstance(n, dict):
            return n
        if n.get("k") == "var" and n.get("d") in inits and depth < 8:
            return inline(inits[n["d"]], depth + 1)
        return {k: inline(v, depth) if isinstance(v, (dict, list)) else v for k, v in n.items()}
    DOMAIN = sorted(set(list(range(-3, 0x0310)) + [0x0400, 0x7fff, 0xfeff, 0xffff, 0x10000, 2 ** 31 - 1, -2 ** 31]))
    robust, fragile = [], []
    for (e, nm) in setv:
        n = e.node
        v = n["args"][2] if n.get("callee") == "SSL_CTX_ctrl" and len(n["args"]) > 2 else n["args"][1]
        try:
            fnv, _t, _code = compile_expr(inline(strip_casts(v)), [pname])
        except NotPure as ex:
            raise AnalysisBroken("applyTls12Floor: the version argument `%s` is not a pure function of %s (%s)" % (show(v)[:60], pname, ex))
        dom = list(DOMAIN)
        for (c, t) in dominating_facts(af, e):
            try:
                fc, _t2, _c2 = compile_expr(inline(strip_casts(c)), [pname])
            except NotPure:
                continue        # a fact about something else (an earlier call's result): ignoring it only widens the domain
            dom = [x for x in dom if bool(fc(x)) == t]
        vals = {x: fnv(x) for x in dom}
        bad = [x for x, y in vals.items() if y < TLS12]
        r2.instance()
        r2.expect(not bad, af, e, "floor below TLS 1.2", "SSL_CTX_set_min_proto_version receives `%s`, which is below TLS 1.2 (0x0303) for %s = %s%s: TLS 1.0/1.1 (or 'no minimum') becomes negotiable" % (
            show(v)[:60], pname, ", ".join(hex(x) if x >= 0 else str(x) for x in bad[:4]), " …" if len(bad) > 4 else ""),
            okdesc="min version argument >= TLS 1.2 on all %d values of the configured minimum" % len(dom))
        (robust if set(vals.values()) <= {0x0303, 0x0304} else fragile).append(e)
    # every path installs a floor OpenSSL cannot refuse or ignore: a call whose value is TLS 1.2 / 1.3 whatever was configured
    r2.instance()
    w = search(af, ("entry",), "exit", stop=lambda x: any(x is e for e in robust), eh=False)
    r2.expect(w is None, af, None, "floor skipped", "applyTls12Floor can return without a call that sets a constant TLS 1.2/1.3 minimum (%s)" % (witness_str(af, w) if w else ""),
              okdesc="every path sets a constant minimum")
    # a configured value is only ever applied ON TOP of that floor: OpenSSL rejects what is not a protocol version (0x0305 …,
    # returns 0) and accepts-but-ignores the DTLS constants on a TLS context (returns 1) — in both cases the context keeps the
    # minimum it had, so the constant floor must already be in place (testing the result alone does not cover the second case)
    for e in fragile:
        r2.instance()
        r2.expect(any(elem_dominates(af, rb, e) for rb in robust), af, e, "floor not enforced when the configured minimum is rejected",
                  "SSL_CTX_set_min_proto_version is given a %s-derived value with no constant TLS 1.2 floor set before it: OpenSSL refuses values that are not protocol versions (0x0305, 0x0400 …) and ignores "
                  "DTLS constants, and then leaves the context's minimum unchanged — with no system default that is 0, no floor at all" % pname,
                  okdesc="configured minimum applied on top of a constant floor")


def r3(ctx, r):
    f = vfn(ctx, "initTls")
    checked = ("SSL_CTX_use_certificate_file", "SSL_CTX_use_PrivateKey_file", "SSL_CTX_check_private_key", "SSL_CTX_load_verify_locations", "SSL_CTX_new")
    calls = ssl_calls(f, checked)
    if len(calls) < 8:
        raise AnalysisBroken("initTls: %d certificate/key/CA/context calls found, expected >= 8" % len(calls))
    # each of these calls reports failure through its result (0 / a null context); on every path on which the call was made and its success
    # was not established, initTls does not return true.  Decided on the value of the tests made of the result (the call itself, the local
    # or the field it was stored in; exact over {failure, success}), path-sensitively and through helpers — so `!= 1`, `<= 0`, `!ok`, a
    # named bool, or a predicate helper wrapping the call are the same check.
    fb = ctx.fb()
    rets = common.returns(f)
    for (e, nm) in calls:
        r.instance()
        d = result_decl(f, e)
        p = f.nodes.get(f.parent.get(e.node["id"]))
        while p is not None and p.get("k") == "cast":
            p = f.nodes.get(f.parent.get(p["id"]))
        fld = field_of(p["lhs"]) if p is not None and p.get("k") == "bin" and p["op"] == "=" and p["lhs"].get("k") == "member" else None
        hit = []

        def is_res(x, e=e, d=d, fld=fld):
            x = strip_casts(x)
            return x is e.node or (d is not None and x.get("k") == "var" and x.get("d") == d) or (fld is not None and x.get("k") == "member" and field_of(x) == fld)

        def leaf(n, is_res=is_res, hit=hit):
            cp = common.cmp_oriented(n, lambda x: (const_value(x) is not None or strip_casts(x).get("k") == "null") and not is_res(x))
            if cp and is_res(cp[1]):
                k = 0 if strip_casts(cp[2]).get("k") == "null" else const_value(cp[2])
                test = {"==": lambda v: v == k, "!=": lambda v: v != k, "<": lambda v: v < k, ">": lambda v: v > k, "<=": lambda v: v <= k, ">=": lambda v: v >= k}[cp[0]]
                hit.append(n)
                return Or(*([A("ok")] if test(1) else []) + ([Not(A("ok"))] if test(0) else []))
            if is_res(n):
                hit.append(n)
                return A("ok")
            return None

        def eff(x, e=e):
            return [("set", "called", True), ("havoc", "ok")] if x is e else None
        pa = ViewAbs(f, Vocab(["called", "ok"]), leaf, eff, init=Not(A("called")))
        bad = None
        for ret in rets:
            ok = ret_value(fb, pa, f, ret)
            if ok == F:
                continue
            if not pa.entails(ret, Or(Not(T if ok is None else ok), Not(A("called")), A("ok"))):
                bad = ret
                break
        if bad is not None and not hit:
            r.fail(f, e, "%s result ignored" % nm, "the result of %s is not tested: a certificate/key/CA that failed to load leaves a half-configured context in use" % nm)
            continue
        r.expect(bad is None, f, e, "%s failure not fatal" % nm, "after %s fails initTls can still return true%s" % (nm, " (line %s)" % bad.line if bad is not None else ""), okdesc="%s failure ⇒ return false" % nm)
    # expiry: X509_cmp_time(notAfter, now) is -1 (already past), 0 (unparseable) or 1 (still valid); on every path on which it was evaluated
    # and did not return 1, initTls fails.  Decided on the VALUE of the tests made of the result (exact over {-1, 0, 1}), so `cmp == 0 ||
    # cmp < 0`, `cmp <= 0`, `!(cmp > 0)`, a named bool, or a predicate helper returning the comparison are all the same check.
    cmps = [e for (e, nm) in ssl_calls(f, ("X509_cmp_time",)) if any(x.get("k") == "call" and "notAfter" in (x.get("callee") or "") for x in walk(e.node["args"][0]))]
    r.instance()
    if not cmps:
        r.fail(f, None, "expiry not checked", "initTls does not fail on an expired (cmp < 0) or unparseable (cmp == 0) server certificate notAfter")
        return
    for e0 in cmps:
        d = result_decl(f, e0)

        def leaf(n, e0=e0, d=d):
            def is_res(x):
                x = strip_casts(x)
                return x is e0.node or (d is not None and x.get("k") == "var" and x.get("d") == d)
            cp = common.cmp_oriented(n, lambda x: const_value(x) is not None and not is_res(x))
            if cp and is_res(cp[1]):
                k = const_value(cp[2])
                test = {"==": lambda v: v == k, "!=": lambda v: v != k, "<": lambda v: v < k, ">": lambda v: v > k, "<=": lambda v: v <= k, ">=": lambda v: v >= k}[cp[0]]
                return Or(*[fm for (v, fm) in ((-1, A("neg")), (0, A("zero")), (1, And(Not(A("neg")), Not(A("zero"))))) if test(v)])
            if is_res(n):
                return Not(A("zero"))      # used as a truth value
            return None

        def eff(e, e0=e0):
            if e is e0:
                return [("havoc_all", ["neg", "zero"]), ("assume", Not(And(A("neg"), A("zero")))), ("set", "cmpd", True)]
            return None
        pa = ViewAbs(f, Vocab(["neg", "zero", "cmpd"]), leaf, eff, init=Not(A("cmpd")))
        bad = None
        for ret in common.returns(f):
            ok = ret_value(ctx.fb(), pa, f, ret)
            if ok == F:
                continue
            succ = T if ok is None else ok
            if not pa.entails(ret, Or(Not(succ), Not(A("cmpd")), And(Not(A("neg")), Not(A("zero"))))):
                bad = ret
                break
        r.expect(bad is None, f, e0, "expiry not checked", "initTls does not fail on an expired (cmp < 0) or unparseable (cmp == 0) server certificate notAfter%s" % (
            " (it can return true at line %s with: %s)" % (bad.line, ",".join(pa.describe(bad))) if bad is not None else ""),
            okdesc="server certificate notAfter: cmp == 0 and cmp < 0 both fail")


def r4(ctx, r):
    fb = ctx.fb()
    dh = vfn(ctx, "driveHandshake")
    hs = ssl_calls(dh, ("SSL_do_handshake",))
    if len(hs) != 1:
        raise AnalysisBroken("driveHandshake: %d SSL_do_handshake calls" % len(hs))
    rcd = result_decl(dh, hs[0][0])
    errd = {result_decl(dh, e) for (e, nm) in ssl_calls(dh, ("SSL_get_error",))} - {None}
    WANT = {"SSL_ERROR_WANT_READ": "want_r", "SSL_ERROR_WANT_WRITE": "want_w"}
    vocab = Vocab(["hs_ok", "handled", "want_r", "want_w"])

    def leaf(n):
        if n.get("k") == "bin" and n["op"] in ("==", "!="):
            l, rr = strip_casts(n["lhs"]), strip_casts(n["rhs"])
            if l.get("k") == "var" and rcd is not None and l.get("d") == rcd and const_value(rr) == 1:
                return A("hs_ok") if n["op"] == "==" else Not(A("hs_ok"))
            # SSL_get_error(...) == SSL_ERROR_WANT_READ / _WRITE (the result is identified by dataflow, the constant by its macro)
            if l.get("k") == "var" and l.get("d") in errd and rr.get("mac") in WANT:
                return A(WANT[rr["mac"]]) if n["op"] == "==" else Not(A(WANT[rr["mac"]]))
        return cbset_leaf(n)
    closes = [e for e in dh.stmts() if e.node.get("k") == "mcall" and e.node.get("callee") == TE + "::closeNow"]
    wants = [e for e in dh.stmts() if e.node.get("k") == "mcall" and e.node.get("callee") == TE + "::updateInterest"]

    def eff(e):
        if e is hs[0][0]:
            return [("havoc", "hs_ok")]
        if e in closes or e in wants:
            return [("set", "handled", True)]
        if e.kind == "stmt" and any(e.node is x.node for (x, nm) in ssl_calls(dh, ("SSL_get_error",))):
            return [("havoc_all", ["want_r", "want_w"]), ("assume", Not(And(A("want_r"), A("want_w"))))]
        return None
    pa = ViewAbs(dh, vocab, leaf, eff, init=And(Not(A("hs_ok")), Not(A("handled")), Not(A("want_r")), Not(A("want_w"))))
    ann = cb_invocations(dh, "onConnect")
    for e in ann:
        r.instance()
        r.expect(pa.entails(e, A("hs_ok")), dh, e, "announce before handshake success", "driveHandshake announces the session as connected on a path where SSL_do_handshake() == 1 was not established",
                 okdesc="driveHandshake: onConnect only after SSL_do_handshake() == 1")
    # every way of reporting 'not open' (return false, or handing back the false of a helper) is behind closeNow / updateInterest
    for ret in common.returns(dh):
        ok = ret_value(fb, pa, dh, ret)
        if ok == T:
            continue
        r.instance()
        r.expect(pa.entails(ret, Or(ok if ok is not None else F, A("handled"))), dh, ret, "handshake failure not closed", "driveHandshake returns false at line %s without closing the session or re-arming for WANT_READ/WRITE: "
                 "a failed handshake leaves a half-open session" % ret.line, okdesc="return false at line %s after closeNow / updateInterest" % ret.line)
    # WANT_* is the only non-closing failure: a re-arm that is not behind handshake success is behind SSL_get_error() == WANT_READ / WANT_WRITE
    r.instance()
    pend = [w for w in wants if not pa.entails(w, A("hs_ok"))]
    r.expect(bool(pend) and all(pa.entails(w, Or(A("hs_ok"), A("want_r"), A("want_w"))) for w in pend), dh, None, "re-arm without WANT",
             "driveHandshake keeps a failing handshake alive on something other than SSL_ERROR_WANT_READ/WRITE", okdesc="only WANT_READ/WANT_WRITE keep the handshake pending")
    # plain-TCP announcements only without TLS
    dc = vfn(ctx, "doConnect")
    vocab2 = Vocab(["reqtls"])

    def leaf2(n):
        fm = enum_eq_leaf(n, lambda l: l["n"].endswith("ConnectReq::tls"), "None", Not(A("reqtls")))
        return fm if fm is not None else cbset_leaf(n)
    pa2 = ViewAbs(dc, vocab2, leaf2, lambda e: None)
    ann2 = cb_invocations(dc, "onConnect")
    for e in ann2:
        r.instance()
        r.expect(pa2.entails(e, Not(A("reqtls"))), dc, e, "immediate announce on TLS connect", "doConnect announces a connection at TCP-connect time although TLS was requested (before any handshake)",
                 okdesc="doConnect: immediate onConnect only for non-TLS requests")
    os_ = vfn(ctx, "onSession")
    pa3 = ViewAbs(os_, Vocab(["tls", "hs", "open", "dh_ok"]), lambda n: tls_leaf(n) or cbset_leaf(n), tls_eff, init=TLS_AXIOM)
    ann3 = cb_invocations(os_, "onConnect")
    for e in ann3:
        r.instance()
        r.expect(pa3.entails(e, Not(A("tls"))), os_, e, "TCP-level announce on TLS session", "onSession announces a TLS session as connected when the TCP connect completes, before the handshake",
                 okdesc="onSession: EPOLLOUT announce only when tlsMode == None")
    # closed set of announce sites: the three functions above (each judged with the helpers it runs through spliced in); an invocation in
    # any other function counts only if every call chain to it starts in one of the three and was spliced into its view (and so judged there)
    r.instance()
    roots = {TE + "::doConnect": dc, TE + "::onSession": os_, TE + "::driveHandshake": dh}
    cg = ctx.cg()

    def covered(name, seen=()):
        cs = cg.callers.get(name, [])
        if not cs or name in seen:
            return False
        for (g, e, n) in cs:
            hosts = [rn for rn, v in roots.items() if g.name == rn or g.name in v.inlined_names]
            if not hosts or any(name not in roots[rn].inlined_names for rn in hosts):
                return False
            if g.name not in roots and not covered(g.name, seen + (name,)):
                return False
        return True
    sites = {f.name for f in fb.in_file(FILE) if f.ok and cb_invocations(f, "onConnect") and not (f.name not in roots and covered(f.name))}
    sites |= {rn for rn, lst in ((TE + "::doConnect", ann2), (TE + "::onSession", ann3), (TE + "::driveHandshake", ann)) if lst}
    r.expect(sites == set(roots), TE, None, "new announce site", "onConnect is invoked from %s" % sorted(short(s) for s in sites),
             okdesc="onConnect sites = {doConnect, onSession, driveHandshake}")


def r5(ctx, r):
    fb = ctx.fb()
    # invariant: a TLS context exists only if that side's TLS is enabled
    it = vfn(ctx, "initTls")
    pa0 = ViewAbs(it, Vocab(["srv_en", "srv_def", "srv_verify", "cli_en", "cli_def", "cli_verify"]), cfg_leaf, lambda e: None)
    for (e, nm) in ssl_calls(it, ("SSL_CTX_new",)):
        p = it.nodes.get(it.parent.get(e.node["id"]))
        fld = field_of(p["lhs"]) if p is not None and p.get("k") == "bin" else None
        side = {TE + "::_sslSrv": "srv", TE + "::_sslCli": "cli"}.get(fld)
        r.instance()
        r.expect(side is not None and pa0.entails(e, A(side + "_en")), it, e, "context without enabled", "a TLS context is created on a path where that side's TLS is not enabled",
                 okdesc="%s context created only when %sTls.enabled" % (side, {"srv": "server", "cli": "client"}.get(side)))
    for g in fb.in_file(FILE):
        if not g.ok:
            continue
        for fld in ("_sslSrv", "_sslCli"):
            for (e, n, k) in common.field_writes(g, TE + "::" + fld):
                r.instance()
                v = common.assigned_value(g, n)
                isnull = v is not None and (strip_casts(v).get("k") == "null" or const_value(v) == 0)
                r.expect(g.name == TE + "::initTls" or g.name in it.inlined_names or (last(g.name) == "freeTls" and isnull), g, e, "%s written" % fld, "%s assigns %s" % (short(g.name), fld),
                         okdesc="%s: %s %s" % (short(g.name), fld, "= nullptr" if isnull else "created"))
    # a context slot written through a pointer (`for (SSL_CTX **slot : {&_sslSrv, &_sslCli}) *slot = nullptr`): where the address of a slot is
    # taken, every store through a dereferenced pointer must be a null store and the function must be the one that frees the contexts;
    # anywhere else the alias cannot be followed (refusal)
    for g in fb.in_file(FILE):
        if not g.ok:
            continue
        taken = [n for n in g.nodes.values() if n.get("k") == "un" and n.get("op") == "&" and field_of(n.get("v")) in (TE + "::_sslSrv", TE + "::_sslCli")]
        if not taken:
            continue
        if last(g.name) != "freeTls":
            raise AnalysisBroken("%s takes the address of a TLS context slot (line %s): writes through the alias are not followed" % (short(g.name), taken[0].get("l", "?")))
        for n in g.nodes.values():
            if n.get("k") == "bin" and n["op"] == "=" and strip_casts(n["lhs"]).get("k") == "un" and strip_casts(n["lhs"]).get("op") == "*":
                r.instance()
                v = strip_casts(n["rhs"])
                r.expect(v.get("k") == "null" or const_value(v) == 0, g, g.elem_for(n), "context slot written through a pointer", "%s stores a non-null value into a TLS context slot through a pointer" % short(g.name),
                         okdesc="%s: context slots cleared through a pointer" % short(g.name))
    # doConnect: requested ⇒ session carries SSL
    for name, reqfield, want, ctxfield, side in (("doConnect", "ConnectReq::tls", "Client", "_sslCli", "cli"), ("onListener", "Listener::tls", "Server", "_sslSrv", "srv")):
        f = vfn(ctx, name)
        vocab = Vocab(["req", "en", "ctx", "stls"])

        def leaf(n, reqfield=reqfield, want=want, ctxfield=ctxfield, side=side):
            fm = enum_eq_leaf(n, lambda l: l["n"].endswith(reqfield), want, A("req"))
            if fm is None:
                fm = ptr_leaf(n, TE + "::" + ctxfield, "ctx")
            if fm is not None:
                return fm
            fm = cfg_leaf(n)
            if fm is not None and fm == A(side + "_en"):
                return A("en")
            return cbset_leaf(n)

        def eff(e, want=want):
            if e.kind == "stmt" and e.node.get("k") == "bin" and e.node["op"] == "=" and field_of(e.node["lhs"]) == SESS + "::tlsMode":
                v = strip_casts(e.node["rhs"])
                return [("set", "stls", v.get("k") == "enum" and last(v["n"]) == want)]
            if e.kind == "stmt" and e.node.get("k") == "call" and e.node.get("callee") == "std::make_unique" and "Session" in e.node.get("t", ""):
                return [("set", "stls", False)]
            return None
        axiom = Or(Not(A("ctx")), A("en"))
        init = And(axiom, Not(A("stls")))
        if name == "onListener":
            # a TLS listener exists only if the server context existed when it was added (checked below in doAddListener);
            # the context is freed only after all listeners are closed (shutdownDrain order, C05)
            init = And(init, Or(Not(A("req")), A("ctx")))
        pa = ViewAbs(f, vocab, leaf, eff, init=init)
        ins = common.member_calls_on(f, TE + "::_sessions", ("emplace", "insert", "try_emplace"))
        if not ins:
            raise AnalysisBroken("%s no longer inserts sessions" % name)
        for e in ins:
            r.instance()
            r.expect(pa.entails(e, Or(Not(A("req")), A("stls"))), f, e, "TLS requested, plaintext session",
                     "%s inserts a session without TLS on a path where TLS was requested (%s == %s): application data would travel in clear text with no error (known: %s)" % (
                         name, reqfield, want, ",".join(pa.describe(e))), okdesc="%s: TLS requested ⇒ session carries an SSL object" % name)
    # the OTHER TLS mode is a request for TLS as well (TlsMode has three values): an outgoing connection asked to play the server
    # role / a listener asked to play the client role is refused — the insertion is never reached with that mode
    for name, reqfield, other, coll in (("doConnect", "ConnectReq::tls", "Server", "_sessions"), ("doAddListener", "ListenerCfg::tls", "Client", "_listeners")):
        f = vfn(ctx, name)

        def leafo2(n, reqfield=reqfield, other=other):
            return enum_eq_leaf(n, lambda l: l["n"].endswith(reqfield), other, A("other"))
        pao = ViewAbs(f, Vocab(["other"]), leafo2, lambda e: None)
        sites = common.member_calls_on(f, TE + "::" + coll, ("emplace", "insert", "try_emplace"))
        if not sites:
            raise AnalysisBroken("%s: insertion into %s not found" % (name, coll))
        for e in sites:
            r.instance()
            r.expect(pao.entails(e, Not(A("other"))), f, e, "TLS requested with the wrong role, served in clear text", "%s reaches its insertion with %s == TlsMode::%s possible: that mode is a request for TLS too, but only the "
                     "matching role is handled, so a PLAINTEXT %s is created and announced — application bytes cross the wire in the clear with no error" % (name, reqfield, other, "session" if coll == "_sessions" else "listener"),
                     okdesc="%s: TlsMode::%s refused before the insertion" % (name, other))
    dal = vfn(ctx, "doAddListener")
    vocab = Vocab(["req", "ctx"])

    def leafl(n):
        fm = enum_eq_leaf(n, lambda l: l["n"].endswith("ListenerCfg::tls"), "Server", A("req"))
        return fm if fm is not None else ptr_leaf(n, TE + "::_sslSrv", "ctx")
    pal = ViewAbs(dal, vocab, leafl, lambda e: None)
    for e in common.member_calls_on(dal, TE + "::_listeners", ("emplace", "insert")):
        r.instance()
        r.expect(pal.entails(e, Or(Not(A("req")), A("ctx"))), dal, e, "TLS listener without context", "a listener with TlsMode::Server is created although no server TLS context exists: its "
                 "connections would be accepted as plaintext", okdesc="doAddListener: TLS listener only with a server context")


WRITE_CALLS = ("send", "SSL_write", "write", "sendto", "sendmsg", "writev", "pwrite", "sendfile")


def r6(ctx, r):
    """no clear-text application bytes on a TLS session (the clause C01-R5 decides), on views: the write paths with their state predicates
    and set-up helpers spliced in"""
    fb = ctx.fb()
    vocab = Vocab(["tls", "hs", "open", "dh_ok"])

    def inserts(f):
        return common.member_calls_on(f, TE + "::_sessions", ("emplace", "insert", "try_emplace"))

    def write_calls(f):
        return [e for e in f.stmts() if e.node.get("k") == "call" and e.node.get("callee") in WRITE_CALLS]
    # invariant: tlsMode != None  =>  tlsState in {Handshake, Open}, for every session that becomes visible in _sessions: in each function
    # that inserts a session, on every path to the insertion, a TLS mode given to the new session is followed by its tlsState
    n_mode = 0
    creators = [vfn(ctx, last(g.name)) for g in fb.in_file(FILE) if g.ok and g.kind == "method" and g.cls == TE and inserts(g)]
    seen_writes = set()
    for f in creators:
        def eff(e):
            if e.kind != "stmt":
                return None
            n = e.node
            if n.get("k") == "bin" and n["op"] == "=" and field_of(n["lhs"]) == SESS + "::tlsMode":
                v = strip_casts(n["rhs"])
                return [("set", "mode", not (v.get("k") == "enum" and last(v["n"]) == "None")), ("set", "state", False)]
            if n.get("k") == "bin" and n["op"] == "=" and field_of(n["lhs"]) == SESS + "::tlsState":
                v = strip_casts(n["rhs"])
                return [("set", "state", v.get("k") == "enum" and last(v["n"]) in ("Handshake", "Open"))]
            if n.get("k") == "call" and n.get("callee") == "std::make_unique" and "Session" in n.get("t", ""):
                return [("set", "mode", False), ("set", "state", False)]
            return None
        pa = ViewAbs(f, Vocab(["mode", "state"]), cbset_leaf, eff, init=And(Not(A("mode")), Not(A("state"))))
        ws = common.field_writes(f, SESS + "::tlsMode")
        n_mode += 1 if ws else 0
        for (e, node, kind) in ws:
            seen_writes.add((e.line, f.file))
        for e in inserts(f):
            r.instance()
            r.expect(pa.entails(e, Or(Not(A("mode")), A("state"))), f, e, "tlsMode without tlsState", "a session gets a TLS mode and becomes visible in _sessions without its tlsState set to Handshake/Open: "
                     "the write path would treat it as plaintext", okdesc="%s: tlsMode set ⇒ tlsState = Handshake before insertion" % short(f.name))
    for g in fb.in_file(FILE):
        if not g.ok:
            continue
        for (e, node, kind) in common.field_writes(g, SESS + "::tlsMode"):
            if (e.line, g.file) not in seen_writes:
                raise AnalysisBroken("%s:%d assigns Session::tlsMode outside the functions that create sessions (and outside the helpers spliced into them): the rule cannot relate it to a session's creation" % (short(g.name), e.line))
        for (e, node, kind) in common.field_writes(g, SESS + "::tlsState"):
            r.instance()
            v = common.assigned_value(g, node)
            v = strip_casts(v) if v else None
            r.expect(v is not None and v.get("k") == "enum" and last(v["n"]) in ("Handshake", "Open"), g, e, "tlsState reset",
                     "tlsState is assigned something other than Handshake/Open", okdesc="%s: tlsState = %s" % (short(g.name), last(v["n"]) if v and v.get("n") else "?"))
    if n_mode < 2:
        raise AnalysisBroken("expected tlsMode to be assigned in onListener and doConnect")
    # summary of driveHandshake (used by tls_eff): it returns true only with the session Open
    dh = vfn(ctx, "driveHandshake")
    pa_dh = ViewAbs(dh, vocab, tls_leaf, tls_eff, init=TLS_AXIOM)
    nsum = 0
    for ret in common.returns(dh):
        ok = ret_value(fb, pa_dh, dh, ret)
        if ok == F:
            continue
        nsum += 1
        r.instance()
        r.expect(pa_dh.entails(ret, Or(Not(ok if ok is not None else T), And(A("open"), Not(A("hs"))))), dh, ret, "handshake summary", "driveHandshake returns true on a path where tlsState is not Open",
                 okdesc="driveHandshake: return true ⇒ tlsState == Open")
    if not nsum:
        raise AnalysisBroken("driveHandshake has no return that can be true")
    ds = vfn(ctx, "doSend")
    pa = ViewAbs(ds, vocab, tls_leaf, tls_eff, init=TLS_AXIOM)
    for e in write_calls(ds):
        if e.node["callee"] == "SSL_write":
            r.instance()
            r.expect(pa.entails(e, And(A("tls"), A("open"))), ds, e, "SSL_write outside Open", "SSL_write reachable when the TLS session is not established",
                     okdesc="doSend: SSL_write only when tls && Open")
        else:
            r.instance()
            r.expect(pa.entails(e, Not(A("tls"))), ds, e, "plaintext on TLS session",
                     "the raw ::%s on the session descriptor is reachable for a session with TLS (known: %s): application bytes would leave in clear text or corrupt the handshake" % (
                         e.node["callee"], ",".join(pa.describe(e)) or "nothing"), okdesc="doSend: raw send only when tlsMode == None")
    # writePending: caller context from onSession
    os_ = vfn(ctx, "onSession")
    pa_os = ViewAbs(os_, vocab, tls_leaf, tls_eff, init=TLS_AXIOM)
    calls = [e for e in os_.stmts() if e.node.get("k") == "mcall" and e.node.get("callee") == TE + "::writePending"]
    callers = {f.name for (f, e, n) in ctx.cg().callers.get(TE + "::writePending", [])}
    r.instance()
    r.expect(callers == {TE + "::onSession"} and calls, os_, None, "writePending callers", "writePending is called from %s; its TLS-state precondition is established only in onSession" % sorted(callers),
             okdesc="writePending called only from onSession")
    pre = Not(And(A("tls"), A("hs")))
    for c in calls:
        r.instance()
        r.expect(pa_os.entails(c, pre), os_, c, "writePending during handshake", "onSession can call writePending while the TLS handshake is still in progress",
                 okdesc="onSession: writePending only after the handshake branch")
    wp = vfn(ctx, "writePending")
    pa_wp = ViewAbs(wp, vocab, tls_leaf, tls_eff, init=And(TLS_AXIOM, pre))
    for e in write_calls(wp):
        r.instance()
        if e.node["callee"] == "SSL_write":
            r.expect(pa_wp.entails(e, And(A("tls"), A("open"))), wp, e, "SSL_write outside Open", "SSL_write reachable when not Open", okdesc="writePending: SSL_write only when tls && Open")
        else:
            r.expect(pa_wp.entails(e, Not(A("tls"))), wp, e, "plaintext on TLS session",
                     "the raw ::%s in writePending is reachable for a TLS session (known: %s)" % (e.node["callee"], ",".join(pa_wp.describe(e)) or "nothing"),
                     okdesc="writePending: raw send only when tlsMode == None")


def r7(ctx, r):
    fb = ctx.fb()
    dc = vfn(ctx, "doConnect")      # with the session set-up helpers spliced in (their context argument resolved for this caller)
    news = [e for (e, nm) in ssl_calls(dc, ("SSL_new",)) if field_of(e.node["args"][0]) == TE + "::_sslCli"]
    if not news:
        raise AnalysisBroken("doConnect no longer creates client SSL objects")
    names = ssl_calls(dc, ("SSL_set1_host", "X509_VERIFY_PARAM_set1_host", "X509_VERIFY_PARAM_set1_ip_asc", "X509_VERIFY_PARAM_set1_ip", "SSL_add1_host"))
    starts = [e for (e, nm) in ssl_calls(dc, ("SSL_set_connect_state", "SSL_connect", "SSL_do_handshake"))]
    for e in news:
        r.instance()
        ok = bool(names) and bool(starts) and all(search(dc, e, lambda x, s=s: x is s, stop=lambda x: x in [y for (y, _) in names], eh=False) is None for s in starts)
        r.expect(ok, dc, e, "no peer-name check", "the client SSL object gets no expected peer name (SSL_set1_host / X509_VERIFY_PARAM_set1_host|ip) before the handshake starts: with verifyPeer on, "
                 "a certificate issued for ANY name that chains to the trust store is accepted for this host", okdesc="doConnect: peer name set before SSL_set_connect_state")
    # the HTTP client hands the engine the URL's host name, not a pre-resolved address
    ac = fb.func(HC + "::acquireConnection", file_suffix=HCFILE)
    cs = [e for e in ac.stmts() if e.node.get("k") == "mcall" and last(e.node.get("callee", "")) == "connectSync"]
    if not cs:
        raise AnalysisBroken("HttpClient::acquireConnection no longer calls connectSync")
    for e in cs:
        r.instance()
        a0 = strip_wrappers(e.node["args"][0])
        ishost = last((access_path(a0) or ("",))[-1]) == "host"
        r.expect(ishost, ac, e, "connects by resolved address", "HttpClient connects to `%s` (a pre-resolved address), so even an engine-level name check would compare the certificate with an IP literal "
                 "instead of the URL's host name" % show(a0), okdesc="HttpClient: connectSync(parsedUrl.host, …)")


def r8(ctx, r):
    fb = ctx.fb()
    rec = fb.record(HC + "::TlsConfig")
    ei = fb.func(HC + "::ensureInitialized", file_suffix=HCFILE)
    # where the transport configuration is built = ensureInitialized and the HttpClient methods it runs through (a builder helper is part of it)
    build, work = {}, [ei]
    while work:
        g = work.pop()
        if g.sig in build:
            continue
        build[g.sig] = g
        for (e, n, c) in ctx.cg().callees_of(g):
            if c.startswith(HC + "::") and n.get("k") in ("call", "mcall") and not n.get("virt"):
                work += [h for h in fb.by_name.get(c, []) if h.ok and h.cls == HC and h.file == ei.file]
    used = {last(n["n"]) for g in build.values() for n in g.nodes.values() if n.get("k") == "member" and n["n"].startswith(HC + "::TlsConfig::")}
    if not rec["fields"]:
        raise AnalysisBroken("HttpClient::TlsConfig has no fields")
    for fld in rec["fields"]:
        r.instance()
        r.expect(fld["n"] in used, ei, None, "TlsConfig::%s ignored" % fld["n"], "HttpClient::TlsConfig::%s is never read where the transport's client TLS configuration is built: the %s the caller configured "
                 "is silently ignored" % (fld["n"], {"caFile": "trust anchor", "clientCertFile": "client certificate", "clientKeyFile": "client key"}.get(fld["n"], "setting")),
                 okdesc="TlsConfig::%s forwarded to clientTls" % fld["n"])


PU = HC + "::ParsedUrl"


def r9(ctx, r):
    """The TLS mode of a connection is a function of some URL fields (today: scheme).  A connection taken from the client's
    cache is handed to a request only if those fields took part in selecting it: either they are part of the cache key, or the
    cached return is dominated by an equality between what the entry stores and the request's value (and the entry stores it)."""
    from ..finite import dominating_facts
    fb = ctx.fb()
    memo = {}

    def fields_of_accessor(name):
        if name in memo:
            return memo[name]
        memo[name] = set()
        out = set()
        for g in fb.funcs(name, HCFILE):
            for n in g.nodes.values():
                if n.get("k") == "member" and n["n"].startswith(PU + "::"):
                    out.add(last(n["n"]))
                if n.get("k") == "mcall" and n.get("callee", "").startswith(PU + "::") and n["callee"] != name:
                    out |= fields_of_accessor(n["callee"])
        memo[name] = out
        return out

    def inits_of(f):
        d = {}
        for e in f.stmts():
            if e.node.get("k") == "decl":
                for v in e.node["vars"]:
                    if v.get("init") is not None:
                        d[v["d"]] = v["init"]
        return d

    def url_fields(f, node, inits, seen=frozenset()):
        out = set()
        for n in walk(node):
            k = n.get("k")
            if k == "member" and n["n"].startswith(PU + "::"):
                out.add(last(n["n"]))
            elif k == "mcall" and n.get("callee", "").startswith(PU + "::"):
                out |= fields_of_accessor(n["callee"])
            elif k == "var" and n.get("d") in inits and n["d"] not in seen:
                out |= url_fields(f, inits[n["d"]], inits, seen | {n["d"]})
        return out

    def direct_fields(f, node, inits, seen=frozenset()):
        """like url_fields, but a value that went through any other call (connectSync's result …) is not a copy of the field"""
        node = strip_casts(strip_wrappers(node))
        if node is None:
            return set()
        k = node.get("k")
        if k == "member" and node["n"].startswith(PU + "::"):
            return {last(node["n"])}
        if k == "mcall" and node.get("callee", "").startswith(PU + "::"):
            return fields_of_accessor(node["callee"])
        if k == "var" and node.get("d") in inits and node["d"] not in seen:
            return direct_fields(f, inits[node["d"]], inits, seen | {node["d"]})
        if k in ("bin", "un", "cond", "cast", "paren"):
            out = set()
            for key in ("lhs", "rhs", "v", "c", "t", "f"):
                if isinstance(node.get(key), dict):
                    out |= direct_fields(f, node[key], inits, seen)
            return out
        return set()

    def from_cache(node, inits, seen=frozenset()):
        for n in walk(node):
            if n.get("k") == "member" and n["n"] == HC + "::_connections":
                return True
            if n.get("k") == "var" and n.get("d") in inits and n["d"] not in seen and from_cache(inits[n["d"]], inits, seen | {n["d"]}):
                return True
        return False

    def lookup_key(node, inits, seen=frozenset()):
        """argument expressions of the _connections lookups the value comes from"""
        keys = []
        for n in walk(node):
            if n.get("k") in ("mcall", "opcall") and any(x.get("k") == "member" and x["n"] == HC + "::_connections" for x in walk(n.get("obj") or (n.get("args") or [{}])[0])):
                args = n.get("args", [])
                if n.get("k") == "opcall":
                    args = args[1:]
                if last(n.get("callee", "")) in ("find", "at", "operator[]", "count", "equal_range"):
                    keys.extend(args)
            if n.get("k") == "var" and n.get("d") in inits and n["d"] not in seen:
                keys.extend(lookup_key(inits[n["d"]], inits, seen | {n["d"]}))
        return keys

    hc = [g for g in fb.methods_of(HC) if g.ok]
    # (a) where the TLS mode of a new connection is chosen
    tls_fields = set()
    nsites = 0
    for f in hc:
        inits = inits_of(f)
        for n in f.nodes.values():
            if n.get("k") == "mcall" and last(n.get("callee", "")) in ("connectSync", "connect") and "Transport" in n.get("cls", ""):
                for a in n.get("args", []):
                    if "TlsMode" in (a.get("t") or ""):
                        ff = url_fields(f, a, inits)
                        if ff:
                            nsites += 1
                            tls_fields |= ff
    if not nsites:
        raise AnalysisBroken("HttpClient: no connect site whose TLS mode is derived from the URL")
    # (b) every return of a cached session id
    nret = 0
    for f in hc:
        inits = inits_of(f)
        for e in f.stmts():
            n = e.node
            if n.get("k") != "ret" or n.get("v") is None or not from_cache(n["v"], inits):
                continue
            vt = (strip_casts(n["v"]) or {}).get("t") or ""
            if "SessionId" not in vt and vt != "unsigned long":
                continue
            nret += 1
            r.instance()
            keyf = set()
            entry_fields = set()
            npub = [0]
            for kx in lookup_key(n["v"], inits):
                keyf |= url_fields(f, kx, inits)
            condf = set()
            for (c, t) in dominating_facts(f, e):
                if not from_cache(c, inits):
                    continue
                cf = url_fields(f, c, inits) & tls_fields
                if not cf:
                    continue
                c0 = strip_casts(c)
                shape_ok = False
                if c0.get("k") in ("bin", "opcall") and c0.get("op") in ("==", "!="):
                    lhs, rhs = (c0.get("lhs"), c0.get("rhs")) if c0.get("k") == "bin" else (c0["args"][0], c0["args"][1])
                    sides = [(from_cache(x, inits), bool(url_fields(f, x, inits) & tls_fields)) for x in (lhs, rhs)]
                    if sorted(sides) == [(False, True), (True, False)]:
                        shape_ok = True
                        if (c0.get("op") == "==") == t:
                            condf |= cf
                            for x in (lhs, rhs):
                                for y in walk(x):
                                    if y.get("k") == "member" and y["n"].startswith(HC + "::ConnectionEntry::"):
                                        entry_fields.add(last(y["n"]))
                if not shape_ok:
                    raise AnalysisBroken("%s:%d: a test relates the cached entry to %s in a form this rule does not know: %s" % (short(f.name), e.line, sorted(cf), show(c)[:80]))
            missing = tls_fields - keyf - condf
            ok = not missing
            if ok and (tls_fields - keyf):
                # the proof rests on what the entry stores: every store into the cache must record it in that field
                rec = fb.record(HC + "::ConnectionEntry")
                order = [x["n"] for x in rec["fields"]]
                for g in hc:
                    gi = inits_of(g)
                    for x in g.stmts():
                        xn = x.node
                        if not (xn.get("k") == "opcall" and xn.get("op") == "=" and "ConnectionEntry" in (xn.get("t") or "")
                                and any(y.get("k") == "member" and y["n"] == HC + "::_connections" for y in walk(xn["args"][0]))):
                            continue
                        npub[0] += 1
                        v = strip_casts(strip_wrappers(xn["args"][1]))
                        while v is not None and v.get("k") in ("cast", "ctor") and v.get("k") != "ilist":
                            inner = v.get("v") or (v.get("args") or [None])[0]
                            if inner is None:
                                break
                            v = strip_casts(inner)
                        if v is None or v.get("k") != "ilist":
                            raise AnalysisBroken("%s:%d: store into the connection cache is not an aggregate initialiser (%s)" % (short(g.name), x.line, show(xn)[:80]))
                        for fld in sorted(entry_fields):
                            idx = order.index(fld) if fld in order else -1
                            val = v["vals"][idx] if 0 <= idx < len(v["vals"]) else None
                            got = direct_fields(g, val, gi) if val is not None else set()
                            r.expect((tls_fields - keyf) <= got, g, x, "cache entry does not record the TLS mode", "reuse compares ConnectionEntry::%s with the request's %s, but this store into the cache "
                                     "does not record it there (%s): the comparison tests a default value" % (fld, "/".join(sorted(tls_fields - keyf)), "field left to its default" if val is None else show(val)[:60]),
                                     okdesc="entry records %s in ::%s" % (sorted(tls_fields - keyf), fld))
                if not npub[0]:
                    raise AnalysisBroken("HttpClient: no store into the connection cache found")
            r.expect(ok, f, e, "cached connection reused across TLS modes", "a connection taken from the cache is returned although the URL field(s) %s that decide the TLS mode of a new connection (%s) took no part in "
                     "selecting it (cache key reads %s; no dominating equality between the entry and the request): an https:// request is written in clear text over a connection cached by an earlier http:// request to the same "
                     "host:port (and vice versa)" % (sorted(missing), "isHttps() ? Client : None", sorted(keyf) or "nothing"),
                     okdesc="cached connection selected by %s" % sorted(tls_fields))
    if not nret:
        raise AnalysisBroken("HttpClient: no return of a cached session id found (connection cache gone?)")


HS = "iora::network::HttpServer"
HSFILE = "iora/network/http_server.hpp"


def r10(ctx, r):
    """HttpServer: once TLS was enabled it stays enabled (the configuration is written only by enableTls), a server with a TLS
    configuration listens with TlsMode::Server, and every field of the configuration reaches the transport's serverTls."""
    fb = ctx.fb()
    fld = HS + "::_tlsConfig"
    nw = 0
    for g in fb.functions:
        if not g.ok or not g.file.endswith(HSFILE):
            continue
        for (e, n, k) in common.field_writes(g, fld):
            nw += 1
            r.instance()
            owner = g.enclosing.name if g.kind == "lambda" and g.enclosing is not None else g.name
            r.expect(owner == HS + "::enableTls", g, e, "TLS configuration dropped", "%s writes HttpServer::_tlsConfig (`%s`): after it the next start() derives a plain-text listener without client-certificate "
                     "check from has_value()==false although the application enabled TLS" % (short(g.name), show(fb_stmt(g, e))[:60]), okdesc="_tlsConfig written by enableTls only")
    if nw < 1:
        raise AnalysisBroken("HttpServer::_tlsConfig: no write found (enableTls gone?)")
    st = fb.func(HS + "::start", file_suffix=HSFILE)
    # listener mode
    lis = [e for e in st.stmts() if e.node.get("k") == "mcall" and last(e.node.get("callee", "")) == "addListener"]
    if not lis:
        raise AnalysisBroken("HttpServer::start: addListener call not found")
    # the mode handed to addListener is TlsMode::Server whenever a TLS configuration is present.  Decided by flow, not by the spelling of
    # the argument: `has` = _tlsConfig holds a value (has_value(), operator bool, a bool local copied from it), `msrv` = the local that is
    # passed currently holds TlsMode::Server (followed through its initialiser and every assignment, `c ? Server : None` included)
    def has_leaf(n):
        if n.get("k") == "member" and n.get("n") == fld:
            return A("has")
        if n.get("k") == "mcall" and last(n.get("callee", "")) == "has_value" and field_of(n.get("obj")) == fld:
            return A("has")
        return None
    for e in lis:
        r.instance()
        arg = next((a for a in e.node["args"] if "TlsMode" in (a.get("t") or "")), None)
        if arg is None:
            r.fail(st, e, "listener without TLS mode", "addListener is called without a TLS mode argument: the listener takes the transport default")
            continue
        v = strip_casts(arg)
        md = v.get("d") if v.get("k") == "var" else None

        def is_server(x, leaf):
            """formula for 'x evaluates to TlsMode::Server' (None = unknown)"""
            x = strip_casts(x)
            if x.get("k") == "enum":
                return T if x["n"].endswith("TlsMode::Server") else F
            if x.get("k") == "cond":
                c, t_, f_ = total(translate(x["c"], leaf)), is_server(x["t"], leaf), is_server(x["f"], leaf)
                if c is None or t_ is None or f_ is None:
                    return None
                return Or(And(c, t_), And(Not(c), f_))
            if x.get("k") == "var" and md is not None and x.get("d") == md:
                return A("msrv")
            return None
        box = {}

        def eff(x, md=md):
            if x.kind != "stmt" or md is None:
                return None
            n = x.node
            val = None
            if n.get("k") == "decl":
                for dv in n["vars"]:
                    if dv.get("d") == md:
                        val = dv.get("init") or {"k": "?"}
            elif n.get("k") == "bin" and n["op"] == "=" and strip_casts(n["lhs"]).get("k") == "var" and strip_casts(n["lhs"]).get("d") == md:
                val = n["rhs"]
            if val is None:
                return None
            fm = is_server(val, box["pa"].leaf) if "pa" in box else None
            return [("assign", "msrv", fm)] if fm is not None else [("havoc", "msrv")]
        pa = ViewAbs(st, Vocab(["has", "msrv"]), has_leaf, eff, track_bools=True)
        box["pa"] = pa
        pa = ViewAbs(st, Vocab(["has", "msrv"]), has_leaf, eff, track_bools=True)     # second pass: eff now reads conditions through pa's bool locals
        box["pa"] = pa
        want = is_server(v, pa.leaf)
        if want is None:
            raise AnalysisBroken("HttpServer::start: listener TLS mode `%s` is computed in a form this rule does not know" % show(v)[:70])
        r.expect(pa.entails(e, Or(Not(A("has")), want)), st, e, "listener mode not derived from the TLS configuration", "the listener's TLS mode `%s` can be something other than TlsMode::Server although a TLS configuration "
                 "is present (known at the call: %s): with a TLS configuration present the listener must be TlsMode::Server" % (show(v)[:70], ",".join(pa.describe(e)) or "nothing"),
                 okdesc="listener mode = _tlsConfig.has_value() ? Server : None")
    # every field forwarded, inside the has_value() branch, with enabled = true and defaultMode = Server
    rec = fb.record(HS + "::TlsConfig")
    used = {last(n["n"]) for n in st.nodes.values() if n.get("k") == "member" and n["n"].startswith(HS + "::TlsConfig::")}
    for f_ in rec["fields"]:
        r.instance()
        r.expect(f_["n"] in used, st, None, "server TlsConfig::%s ignored" % f_["n"], "HttpServer::TlsConfig::%s is never read where the transport's server TLS configuration is built" % f_["n"],
                 okdesc="TlsConfig::%s forwarded to serverTls" % f_["n"])
    en = [(e, n) for (e, n, k) in common.field_writes(st, "iora::network::TransportConfig::TlsConfig::enabled")]
    r.instance()
    r.expect(any(const_value(common.assigned_value(st, n) or {}) == 1 for (e, n) in en), st, None, "serverTls.enabled not set", "start() does not set serverTls.enabled = true when TLS is configured",
             okdesc="serverTls.enabled = true")
    vp = [(e, n) for (e, n, k) in common.field_writes(st, "iora::network::TransportConfig::TlsConfig::verifyPeer")]
    r.instance()
    r.expect(any("requireClientCert" in show(common.assigned_value(st, n) or {}) for (e, n) in vp), st, None, "client-certificate requirement not forwarded",
             "serverTls.verifyPeer is not taken from TlsConfig::requireClientCert", okdesc="serverTls.verifyPeer = requireClientCert")


def fb_stmt(g, e):
    return e.node


def r11(ctx, r):
    """'a session requested with TLS never carries application bytes in clear text', at the HTTP client: a URL is 'requested with
    TLS' when its scheme is https.  The URL grammar (a regex) decides which scheme spellings are ACCEPTED, isHttps() decides
    which are CLASSIFIED as TLS; every accepted spelling of https must be classified as TLS."""
    import re as _re
    fb = ctx.fb()
    rec = fb.record(HC + "::CompiledRegexes")
    url = [f_ for f_ in rec["fields"] if f_["n"] == "url"]
    if not url or not url[0].get("init"):
        raise AnalysisBroken("HttpClient::CompiledRegexes::url initialiser not found")
    init = url[0]["init"]
    pats = [x for x in walk(init) if x.get("k") == "str"]
    if len(pats) != 1:
        raise AnalysisBroken("url regex: pattern literal not found")
    pat = pats[0]["v"]
    m = _re.match(r"^\^\(([^()]*)\)", pat)
    if not m:
        raise AnalysisBroken("url regex does not start with a scheme group: %s" % pat[:30])
    scheme_re = m.group(1)
    flags = 0
    args = init.get("args", [])
    if len(args) > 1:
        fv = const_value(args[1])
        if fv is None:
            # an or-expression of option constants
            vals = [x.get("cv") for x in walk(args[1]) if x.get("cv") is not None]
            if not vals:
                raise AnalysisBroken("url regex: option flags not constant")
            fv = 0
            for v in vals:
                fv |= v
        flags = fv
    icase = bool(flags & 1)          # std::regex_constants::icase == 1 << 0 (libstdc++)
    # spellings the scheme group accepts: only the simple forms are enumerated, anything else is refused
    if scheme_re == "https?":
        accepted = {"http", "https"}
    elif _re.fullmatch(r"[a-z|]+", scheme_re):
        accepted = set(scheme_re.split("|"))
    else:
        raise AnalysisBroken("url regex: scheme group `%s` is not an enumeration this rule can expand" % scheme_re)
    ih = fb.func(PU + "::isHttps", file_suffix=HCFILE)
    rets = common.returns(ih)
    lit = None
    if len(rets) == 1:
        v = strip_casts(rets[0].node.get("v") or {})
        cp = common.cmp_parts(v)
        if cp and cp[0] == "==":
            ss = [x for x in (strip_casts(cp[1]), strip_casts(cp[2])) if x.get("k") == "str"]
            ms = [x for x in (strip_casts(cp[1]), strip_casts(cp[2])) if x.get("k") == "member" and x["n"] == PU + "::scheme"]
            if len(ss) == 1 and len(ms) == 1:
                lit = ss[0]["v"]
    if lit is None:
        raise AnalysisBroken("ParsedUrl::isHttps is not `scheme == \"literal\"`")
    # does parseUrl normalise the case of the scheme before storing it?
    pu = fb.func(HC + "::parseUrl", file_suffix=HCFILE)
    folds = any(x.get("k") in ("call", "mcall") and last(x.get("callee", "")) in ("tolower", "transform", "toLower", "to_lower") for x in pu.nodes.values())
    r.instance()
    r.expect(lit in accepted, ih, rets[0], "https never recognised", "isHttps() compares with \"%s\", which the URL grammar (%s) never produces" % (lit, scheme_re), okdesc="isHttps literal is an accepted scheme")
    r.instance()
    r.expect(not icase or folds, ih, rets[0], "accepted https spelling classified as plain text",
             "the URL regex is compiled with std::regex::icase, so `HTTPS://…`, `Https://…` are accepted, but isHttps() compares the scheme with \"%s\" exactly and parseUrl does not fold its case: such a URL is "
             "connected with TlsMode::None (port 80 by default) and the request — headers, credentials, body — goes out in clear text" % lit,
             okdesc="scheme matched case-sensitively (only `%s` are accepted) and compared exactly" % "`, `".join(sorted(accepted)))


def run(ctx, ck):
    r1 = ck.rule("C07-R1", "peer verification is switched on when configured and never lowered", "A10 API protocol + A5")
    r2 = ck.rule("C07-R2", "TLS 1.2 floor on every context", "A10 + A5")
    try:
        r1_r2(ctx, r1, r2)
    except AnalysisBroken as ex:
        r1.broken = str(ex)
        ck.broken.append("C07-R1/R2: %s" % ex)
    ck.run_rule("C07-R3", "certificate/key/CA load results are checked; expired certificate fails start", "A2", lambda r: r3(ctx, r))
    ck.run_rule("C07-R4", "announce only after the handshake; failing handshakes close", "A5", lambda r: r4(ctx, r))
    ck.run_rule("C07-R5", "a TLS request is honoured or refused, never dropped", "A5 with checked invariants", lambda r: r5(ctx, r))
    ck.run_rule("C07-R6", "no clear-text application bytes on a TLS session (the clause of C01-R5, judged through helpers)", "A5", lambda r: r6(ctx, r))
    ck.run_rule("C07-R7", "the peer's name is checked", "A10 + dataflow", lambda r: r7(ctx, r))
    ck.run_rule("C07-R8", "the HTTP client forwards its TLS configuration", "A10 closed set", lambda r: r8(ctx, r))
    ck.run_rule("C07-R10", "HTTP server: TLS configuration is never dropped, selects a TLS listener and is forwarded whole", "A3 who-may-write + A10 closed set", lambda r: r10(ctx, r))
    ck.run_rule("C07-R11", "every URL scheme spelling the HTTP client accepts as https is connected with TLS", "table agreement: URL grammar vs. isHttps()", lambda r: r11(ctx, r))
    ck.run_rule("C07-R9", "a cached client connection is reused only for the TLS mode it was opened with", "dataflow: URL fields deciding the TLS mode vs. fields selecting the cached entry", lambda r: r9(ctx, r))
