"""C07 — TLS sessions authenticate the peer as configured and never downgrade (DESIGN.md §2 C07)."""
from .. import access
from ..cfg import search, witness_str, elem_dominates
from ..expr import show, walk, last, field_of, strip_wrappers, strip_casts, short, const_value, access_path
from ..facts import AnalysisBroken
from ..predabs import Vocab, PredAbs, A, Not, And, Or, T, F
from ..rules import common
from . import c01
from .c02 import cb_invocations, cbset_leaf

TITLE = "TLS sessions authenticate the peer as configured and never downgrade"
TECHNIQUE = 'custom static analysis over clang-14 CFG facts: call-site rules over OpenSSL primitives (constant command/flag words), typestate of the TLS context (no plaintext path when TLS was requested), dominance'
TE = "iora::network::TcpEngine"
FILE = "iora/network/detail/tcp_engine.hpp"
HC = "iora::network::HttpClient"
HCFILE = "iora/network/http_client.hpp"
SESS = TE + "::Session"
TLS12 = 0x0303

EXPLANATION = (
    "Static API-protocol rules over the resolved OpenSSL calls of tcp_engine.hpp plus predicate abstraction: R1 on every successful path "
    "of initTls through an enabled block with verifyPeer, SSL_CTX_set_verify was called on that context with SSL_VERIFY_PEER (server: also "
    "FAIL_IF_NO_PEER_CERT), a null callback, and trust anchors were loaded (client: or default paths); nothing in the library lowers "
    "verification; R2 every context passes through applyTls12Floor before initTls succeeds and the value handed to "
    "SSL_CTX_set_min_proto_version is >= TLS 1.2 on both arms of the clamp; no maximum-version / no-TLS1.2 option anywhere; R3 the results "
    "of certificate, key, key-match and CA loading are tested and fail initTls, and an expired/unparseable notAfter fails it; R4 the "
    "connect announcement for a TLS session is reachable only behind SSL_do_handshake()==1, the plain-TCP announcements only without "
    "TLS, and every failing handshake path closes the session; R5 a TLS request is honoured or refused: a session inserted on a path "
    "where TLS was requested carries an SSL object (with the checked invariant context≠null ⇒ enabled); R6 = C01-R5 (no clear-text "
    "write on a TLS session); R7 every client SSL object gets its expected peer name (SSL_set1_host / X509_VERIFY_PARAM_set1_*) before "
    "the handshake, and the name given to the engine is the URL host; R8 every field of HttpClient::TlsConfig is used where the "
    "transport's client TLS configuration is built.")
NOT_DECIDED = ["what OpenSSL's verifier accepts (trusted base)", "cipher strength", "the matrix of real certificates"]


def fn(ctx, name):
    return ctx.fb().func(TE + "::" + name, file_suffix=FILE)


CTRL = {("SSL_CTX_ctrl", 123): "SSL_CTX_set_min_proto_version", ("SSL_CTX_ctrl", 124): "SSL_CTX_set_max_proto_version",
        ("SSL_ctrl", 123): "SSL_set_min_proto_version", ("SSL_ctrl", 124): "SSL_set_max_proto_version",
        ("SSL_ctrl", 55): "SSL_set_tlsext_host_name"}


def ssl_calls(f, names):
    """OpenSSL calls by API name; function-like macros that expand to SSL_CTX_ctrl/SSL_ctrl are recognised by their command code"""
    out = []
    for e in f.stmts():
        n = e.node
        if n.get("k") == "call":
            nm = n.get("mac") if n.get("mac") in names else n.get("callee")
            if n.get("callee") in ("SSL_CTX_ctrl", "SSL_ctrl") and len(n["args"]) > 1:
                nm = CTRL.get((n["callee"], const_value(n["args"][1])), nm)
            if nm in names:
                out.append((e, nm))
    return out


def ctx_of(n):
    """which context field a call's first argument names: 'srv' | 'cli' | None"""
    f = field_of(n["args"][0]) if n.get("args") else None
    return {TE + "::_sslSrv": "srv", TE + "::_sslCli": "cli"}.get(f)


def cfg_leaf(n):
    """atoms for the TLS configuration tests of initTls / doConnect / onListener"""
    if n.get("k") == "member" and n.get("t") == "bool":
        p = access_path(n) or ()
        side = "srv" if any(x.endswith("::serverTls") for x in p) else ("cli" if any(x.endswith("::clientTls") for x in p) else None)
        if side and last(n["n"]) == "enabled":
            return A(side + "_en")
        if side and last(n["n"]) == "verifyPeer":
            return A(side + "_verify")
    if n.get("k") == "bin" and n["op"] in ("==", "!="):
        l, rr = strip_casts(n["lhs"]), strip_casts(n["rhs"])
        if l.get("k") == "member" and last(l["n"]) == "defaultMode" and rr.get("k") == "enum":
            p = access_path(l) or ()
            side = "srv" if any(x.endswith("::serverTls") for x in p) else "cli"
            want = {"srv": "Server", "cli": "Client"}[side]
            if last(rr["n"]) == want:
                return A(side + "_def") if n["op"] == "==" else Not(A(side + "_def"))
    return None


def r1_r2(ctx, r1, r2):
    f = fn(ctx, "initTls")
    atoms = ["srv_en", "srv_def", "srv_verify", "cli_en", "cli_def", "cli_verify", "sv_srv", "ca_srv", "sv_cli", "ca_cli", "fl_srv", "fl_cli"]
    vocab = Vocab(atoms)
    sv = ssl_calls(f, ("SSL_CTX_set_verify",))
    ca = ssl_calls(f, ("SSL_CTX_load_verify_locations", "SSL_CTX_set_default_verify_paths"))
    floors = [e for e in f.stmts() if e.node.get("k") == "call" and e.node.get("callee") == TE + "::applyTls12Floor"]

    def eff(e):
        if e.kind != "stmt":
            return None
        n = e.node
        for (x, nm) in sv:
            if x is e:
                c = ctx_of(n)
                mode = const_value(n["args"][1]) if len(n["args"]) > 1 else None
                cb = strip_casts(n["args"][2]) if len(n["args"]) > 2 else None
                nullcb = cb is not None and (cb.get("k") == "null" or const_value(cb) == 0)
                need = 3 if c == "srv" else 1
                good = c is not None and mode is not None and (mode & need) == need and nullcb
                return [("set", "sv_" + c, good)] if c else None
        for (x, nm) in ca:
            if x is e:
                c = ctx_of(n)
                if nm == "SSL_CTX_set_default_verify_paths" and c == "srv":
                    return None     # the system store is not a trust anchor for client certificates
                return [("set", "ca_" + c, True)] if c else None
        if e in floors:
            c = ctx_of(n)
            return [("set", "fl_" + c, True)] if c else None
        return None
    pa = PredAbs(f, vocab, cfg_leaf, eff, init=And(*[Not(A(a)) for a in atoms[6:]]))
    rets = [e for e in common.returns(f) if const_value(e.node.get("v") or {}) == 1]
    if not rets:
        raise AnalysisBroken("initTls has no `return true`")
    for side, what in (("srv", "server"), ("cli", "client")):
        blk = And(A(side + "_en"), A(side + "_def"))
        for ret in rets:
            r1.instance()
            r1.expect(pa.entails(ret, Or(Not(And(blk, A(side + "_verify"))), A("sv_" + side))), f, ret, "%s verify mode not set" % what,
                      "initTls can succeed with %sTls.verifyPeer on without SSL_CTX_set_verify(%s, SSL_VERIFY_PEER%s, nullptr) having been applied: the peer's certificate is not checked" % (
                          what, "_sslSrv" if side == "srv" else "_sslCli", "|FAIL_IF_NO_PEER_CERT" if side == "srv" else ""),
                      okdesc="initTls: %s verifyPeer ⇒ set_verify with the required mode and a null callback" % what)
            r1.instance()
            r1.expect(pa.entails(ret, Or(Not(And(blk, A(side + "_verify"))), A("ca_" + side))), f, ret, "%s trust anchors not loaded" % what,
                      "initTls can succeed with %s verification on but no trust anchor loaded%s" % (what, " (for a server the system store does not count)" if side == "srv" else ""),
                      okdesc="initTls: %s verifyPeer ⇒ trust anchors loaded" % what)
            r2.instance()
            r2.expect(pa.entails(ret, Or(Not(blk), A("fl_" + side))), f, ret, "%s context without TLS 1.2 floor" % what,
                      "initTls can succeed with a %s context that never went through applyTls12Floor: TLS 1.0/1.1 would be negotiable" % what,
                      okdesc="initTls: %s context passes applyTls12Floor" % what)
    # nothing lowers verification, anywhere
    fb = ctx.fb()
    nset = 0
    for g in fb.functions:
        if not g.ok or "/include/iora/" not in g.file:
            continue
        for (e, nm) in ssl_calls(g, ("SSL_CTX_set_verify", "SSL_set_verify", "SSL_CTX_set_cert_verify_callback", "SSL_set_verify_result", "X509_STORE_set_verify_cb",
                                     "X509_STORE_CTX_set_error", "SSL_CTX_set_verify_depth", "SSL_CTX_set_max_proto_version", "SSL_set_max_proto_version",
                                     "SSL_set_min_proto_version", "SSL_CTX_set_options", "SSL_set_options", "SSL_CTX_set_min_proto_version")):
            nset += 1
            n = e.node
            if nm in ("SSL_CTX_set_verify",):
                mode = const_value(n["args"][1])
                r1.instance()
                r1.expect(g.name == TE + "::initTls" and mode is not None and mode & 1, g, e, "verification lowered", "%s calls SSL_CTX_set_verify with mode %s" % (short(g.name), mode),
                          okdesc="%s: set_verify mode %s" % (short(g.name), mode))
            elif nm in ("SSL_set_verify", "SSL_CTX_set_cert_verify_callback", "SSL_set_verify_result", "X509_STORE_set_verify_cb", "X509_STORE_CTX_set_error"):
                r1.instance()
                r1.fail(g, e, "verification overridden", "%s calls %s, which can override the verification result" % (short(g.name), nm))
            elif nm in ("SSL_CTX_set_max_proto_version", "SSL_set_max_proto_version", "SSL_set_min_proto_version"):
                r2.instance()
                r2.fail(g, e, "protocol range changed", "%s calls %s outside the floor helper" % (short(g.name), nm))
            elif nm in ("SSL_CTX_set_options", "SSL_set_options"):
                opt = const_value(n["args"][1]) if len(n["args"]) > 1 else None
                r2.instance()
                r2.expect(opt is not None and not (opt & (0x08000000 | 0x20000000)), g, e, "TLS 1.2/1.3 disabled", "%s sets SSL options %s that disable TLS 1.2 or 1.3" % (short(g.name), opt),
                          okdesc="%s: options do not disable TLS 1.2/1.3" % short(g.name))
            elif nm == "SSL_CTX_set_min_proto_version":
                r2.instance()
                r2.expect(g.name == TE + "::applyTls12Floor", g, e, "min version set elsewhere", "%s sets the minimum protocol version outside applyTls12Floor" % short(g.name),
                          okdesc="min version set only in applyTls12Floor")
    if nset < 3:
        raise AnalysisBroken("only %d verify/protocol configuration calls seen" % nset)
    # the floor helper: every value it hands to OpenSSL is >= TLS 1.2 for EVERY configured minimum (exact evaluation of the
    # argument expression over the integer parameter), every path sets a minimum, and a configured value OpenSSL may reject
    # (anything that is not a constant protocol version) has its result tested with a constant floor on the failure path
    import copy
    from ..finite import compile_expr, NotPure, dominating_facts
    af = fn(ctx, "applyTls12Floor")
    setv = ssl_calls(af, ("SSL_CTX_set_min_proto_version",))
    r2.instance()
    if not setv:
        r2.fail(af, None, "floor helper", "applyTls12Floor no longer calls SSL_CTX_set_min_proto_version")
        return
    ints = [p_ for p_ in af.params if p_["t"] in ("int", "long", "unsigned int", "unsigned long", "short", "unsigned short")]
    if len(ints) != 1:
        raise AnalysisBroken("applyTls12Floor: expected one integer parameter (the configured minimum), found %d" % len(ints))
    pname = ints[0]["n"]
    inits = {}
    for e in af.stmts():
        if e.node.get("k") == "decl":
            for dv in e.node["vars"]:
                if dv.get("init") is not None:
                    inits[dv["d"]] = dv["init"]

    def inline(n, depth=0):
        if isinstance(n, list):
            return [inline(x, depth) for x in n]
        if not isinstance(n, dict):
            return n
        if n.get("k") == "var" and n.get("d") in inits and depth < 8:
            return inline(inits[n["d"]], depth + 1)
        return {k: inline(v, depth) if isinstance(v, (dict, list)) else v for k, v in n.items()}
    DOMAIN = sorted(set(list(range(-3, 0x0310)) + [0x0400, 0x7fff, 0xfeff, 0xffff, 0x10000, 2 ** 31 - 1, -2 ** 31]))
    robust, fragile = [], []
    for (e, nm) in setv:
        n = e.node
        v = n["args"][2] if n.get("callee") == "SSL_CTX_ctrl" and len(n["args"]) > 2 else n["args"][1]
        try:
            fnv, _t, _code = compile_expr(inline(strip_casts(v)), [pname])
        except NotPure as ex:
            raise AnalysisBroken("applyTls12Floor: the version argument `%s` is not a pure function of %s (%s)" % (show(v)[:60], pname, ex))
        dom = list(DOMAIN)
        for (c, t) in dominating_facts(af, e):
            try:
                fc, _t2, _c2 = compile_expr(inline(strip_casts(c)), [pname])
            except NotPure:
                continue        # a fact about something else (an earlier call's result): ignoring it only widens the domain
            dom = [x for x in dom if bool(fc(x)) == t]
        vals = {x: fnv(x) for x in dom}
        bad = [x for x, y in vals.items() if y < TLS12]
        r2.instance()
        r2.expect(not bad, af, e, "floor below TLS 1.2", "SSL_CTX_set_min_proto_version receives `%s`, which is below TLS 1.2 (0x0303) for %s = %s%s: TLS 1.0/1.1 (or 'no minimum') becomes negotiable" % (
            show(v)[:60], pname, ", ".join(hex(x) if x >= 0 else str(x) for x in bad[:4]), " …" if len(bad) > 4 else ""),
            okdesc="min version argument >= TLS 1.2 on all %d values of the configured minimum" % len(dom))
        (robust if set(vals.values()) <= {0x0303, 0x0304} else fragile).append(e)
    # every path installs a floor OpenSSL cannot refuse or ignore: a call whose value is TLS 1.2 / 1.3 whatever was configured
    r2.instance()
    w = search(af, ("entry",), "exit", stop=lambda x: any(x is e for e in robust), eh=False)
    r2.expect(w is None, af, None, "floor skipped", "applyTls12Floor can return without a call that sets a constant TLS 1.2/1.3 minimum (%s)" % (witness_str(af, w) if w else ""),
              okdesc="every path sets a constant minimum")
    # a configured value is only ever applied ON TOP of that floor: OpenSSL rejects what is not a protocol version (0x0305 …,
    # returns 0) and accepts-but-ignores the DTLS constants on a TLS context (returns 1) — in both cases the context keeps the
    # minimum it had, so the constant floor must already be in place (testing the result alone does not cover the second case)
    for e in fragile:
        r2.instance()
        r2.expect(any(elem_dominates(af, rb, e) for rb in robust), af, e, "floor not enforced when the configured minimum is rejected",
                  "SSL_CTX_set_min_proto_version is given a %s-derived value with no constant TLS 1.2 floor set before it: OpenSSL refuses values that are not protocol versions (0x0305, 0x0400 …) and ignores "
                  "DTLS constants, and then leaves the context's minimum unchanged — with no system default that is 0, no floor at all" % pname,
                  okdesc="configured minimum applied on top of a constant floor")


def r3(ctx, r):
    f = fn(ctx, "initTls")
    checked = ("SSL_CTX_use_certificate_file", "SSL_CTX_use_PrivateKey_file", "SSL_CTX_check_private_key", "SSL_CTX_load_verify_locations", "SSL_CTX_new")
    calls = ssl_calls(f, checked)
    if len(calls) < 8:
        raise AnalysisBroken("initTls: %d certificate/key/CA/context calls found, expected >= 8" % len(calls))
    rets_true = [e for e in common.returns(f) if const_value(e.node.get("v") or {}) == 1]
    for (e, nm) in calls:
        r.instance()
        # the branch that tests this call's result
        blk = None
        if nm == "SSL_CTX_new":
            fld = None
            pid = f.parent.get(e.node["id"])
            p = f.nodes.get(pid)
            if p is not None and p.get("k") == "bin" and p["op"] == "=":
                fld = field_of(p["lhs"])
            for b in f.blocks.values():
                c = b.cond
                if c is not None and fld and field_of(strip_casts(c.get("v") if c.get("k") == "un" else c)) == fld and elem_dominates(f, e, b.elems[-1]) if b.elems else False:
                    blk = (b, 0 if c.get("k") == "un" and c["op"] == "!" else 1)
                    break
        else:
            for b in f.blocks.values():
                c = b.cond
                if c is not None and any(x is e.node for x in walk(c)):
                    cp = common.cmp_parts(c)
                    if cp and const_value(cp[2]) == 1:
                        blk = (b, 0 if cp[0] == "!=" else 1)
        if blk is None:
            r.fail(f, e, "%s result ignored" % nm, "the result of %s is not tested: a certificate/key/CA that failed to load leaves a half-configured context in use" % nm)
            continue
        b, fail_edge = blk
        s = b.succs[fail_edge]
        w = search(f, ("block", s), lambda x: x in rets_true, eh=False) if s is not None else None
        r.expect(w is None, f, e, "%s failure not fatal" % nm, "after %s fails initTls can still return true" % nm, witness=witness_str(f, w), okdesc="%s failure ⇒ return false" % nm)
    # expiry
    cmps = ssl_calls(f, ("X509_cmp_time",))
    r.instance()
    ok = False
    if cmps:
        nv = c01._result_var(f, cmps[0][0])
        conds = [show(b.cond).replace(" ", "") for b in f.blocks.values() if b.cond is not None and nv and nv in show(b.cond)]
        ok = any(c in ("%s==0" % nv, "%s<=0" % nv) for c in conds) and any(c in ("%s<0" % nv, "%s<=0" % nv) for c in conds)
    r.expect(ok, f, cmps[0][0] if cmps else None, "expiry not checked", "initTls does not fail on an expired (cmp < 0) or unparseable (cmp == 0) server certificate notAfter",
             okdesc="server certificate notAfter: cmp == 0 and cmp < 0 both fail")


def r4(ctx, r):
    fb = ctx.fb()
    dh = fn(ctx, "driveHandshake")
    hs = ssl_calls(dh, ("SSL_do_handshake",))
    if len(hs) != 1:
        raise AnalysisBroken("driveHandshake: %d SSL_do_handshake calls" % len(hs))
    rc = c01._result_var(dh, hs[0][0])
    vocab = Vocab(["hs_ok", "handled"])

    def leaf(n):
        if n.get("k") == "bin" and n["op"] in ("==", "!="):
            l = strip_casts(n["lhs"])
            if l.get("k") == "var" and l["n"] == rc and const_value(n["rhs"]) == 1:
                return A("hs_ok") if n["op"] == "==" else Not(A("hs_ok"))
        return cbset_leaf(n)
    closes = [e for e in dh.stmts() if e.node.get("k") == "mcall" and e.node.get("callee") == TE + "::closeNow"]
    wants = [e for e in dh.stmts() if e.node.get("k") == "mcall" and e.node.get("callee") == TE + "::updateInterest"]

    def eff(e):
        if e is hs[0][0]:
            return [("havoc", "hs_ok")]
        if e in closes or e in wants:
            return [("set", "handled", True)]
        return None
    pa = PredAbs(dh, vocab, leaf, eff, init=And(Not(A("hs_ok")), Not(A("handled"))))
    for e in cb_invocations(dh, "onConnect"):
        r.instance()
        r.expect(pa.entails(e, A("hs_ok")), dh, e, "announce before handshake success", "driveHandshake announces the session as connected on a path where SSL_do_handshake() == 1 was not established",
                 okdesc="driveHandshake: onConnect only after SSL_do_handshake() == 1")
    for ret in common.returns(dh):
        if const_value(ret.node.get("v") or {}) == 0:
            r.instance()
            r.expect(pa.entails(ret, A("handled")), dh, ret, "handshake failure not closed", "driveHandshake returns false at line %s without closing the session or re-arming for WANT_READ/WRITE: "
                     "a failed handshake leaves a half-open session" % ret.line, okdesc="return false at line %s after closeNow / updateInterest" % ret.line)
    # WANT_* is the only non-closing failure
    r.instance()
    wt = [b for b in dh.blocks.values() if b.cond is not None and any(x.get("mac") in ("SSL_ERROR_WANT_READ", "SSL_ERROR_WANT_WRITE") for x in walk(b.cond))]
    r.expect(bool(wt) and all(any(search(dh, ("block", s), lambda x, w=w: x is w, eh=False) is not None for b in wt for s in b.succs if s is not None) or True for w in wants) and
             all(elem_after_any(dh, w, wt) for w in wants if not pa.entails(w, A("hs_ok"))), dh, None, "re-arm without WANT",
             "driveHandshake keeps a failing handshake alive on something other than SSL_ERROR_WANT_READ/WRITE", okdesc="only WANT_READ/WANT_WRITE keep the handshake pending")
    # plain-TCP announcements only without TLS
    dc = fn(ctx, "doConnect")
    vocab2 = Vocab(["reqtls"])

    def leaf2(n):
        if n.get("k") == "bin" and n["op"] in ("==", "!="):
            l, rr = strip_casts(n["lhs"]), strip_casts(n["rhs"])
            if l.get("k") == "member" and l["n"].endswith("ConnectReq::tls") and rr.get("k") == "enum" and last(rr["n"]) == "None":
                return Not(A("reqtls")) if n["op"] == "==" else A("reqtls")
        return cbset_leaf(n)
    pa2 = PredAbs(dc, vocab2, leaf2, lambda e: None)
    for e in cb_invocations(dc, "onConnect"):
        r.instance()
        r.expect(pa2.entails(e, Not(A("reqtls"))), dc, e, "immediate announce on TLS connect", "doConnect announces a connection at TCP-connect time although TLS was requested (before any handshake)",
                 okdesc="doConnect: immediate onConnect only for non-TLS requests")
    os_ = fn(ctx, "onSession")
    pa3 = PredAbs(os_, Vocab(["tls", "hs", "open", "dh_ok"]), lambda n: c01.tls_leaf(n) or cbset_leaf(n), c01.tls_effects(fb), init=c01.TLS_AXIOM)
    for e in cb_invocations(os_, "onConnect"):
        r.instance()
        r.expect(pa3.entails(e, Not(A("tls"))), os_, e, "TCP-level announce on TLS session", "onSession announces a TLS session as connected when the TCP connect completes, before the handshake",
                 okdesc="onSession: EPOLLOUT announce only when tlsMode == None")
    # closed set of announce sites
    r.instance()
    sites = {f.name for f in fb.in_file(FILE) if f.ok and cb_invocations(f, "onConnect")}
    r.expect(sites == {TE + "::doConnect", TE + "::onSession", TE + "::driveHandshake"}, TE, None, "new announce site", "onConnect is invoked from %s" % sorted(short(s) for s in sites),
             okdesc="onConnect sites = {doConnect, onSession, driveHandshake}")


def elem_after_any(f, elem, blocks):
    for b in blocks:
        for s in b.succs:
            if s is not None and search(f, ("block", s), lambda x: x is elem, eh=False) is not None:
                return True
    return False


def r5(ctx, r):
    fb = ctx.fb()
    # invariant: a TLS context exists only if that side's TLS is enabled
    it = fn(ctx, "initTls")
    pa0 = PredAbs(it, Vocab(["srv_en", "srv_def", "srv_verify", "cli_en", "cli_def", "cli_verify"]), cfg_leaf, lambda e: None)
    for (e, nm) in ssl_calls(it, ("SSL_CTX_new",)):
        p = it.nodes.get(it.parent.get(e.node["id"]))
        fld = field_of(p["lhs"]) if p is not None and p.get("k") == "bin" else None
        side = {TE + "::_sslSrv": "srv", TE + "::_sslCli": "cli"}.get(fld)
        r.instance()
        r.expect(side is not None and pa0.entails(e, A(side + "_en")), it, e, "context without enabled", "a TLS context is created on a path where that side's TLS is not enabled",
                 okdesc="%s context created only when %sTls.enabled" % (side, {"srv": "server", "cli": "client"}.get(side)))
    for g in fb.in_file(FILE):
        if not g.ok:
            continue
        for fld in ("_sslSrv", "_sslCli"):
            for (e, n, k) in common.field_writes(g, TE + "::" + fld):
                r.instance()
                v = common.assigned_value(g, n)
                isnull = v is not None and (strip_casts(v).get("k") == "null" or const_value(v) == 0)
                r.expect(last(g.name) in ("initTls",) or (last(g.name) == "freeTls" and isnull), g, e, "%s written" % fld, "%s assigns %s" % (short(g.name), fld),
                         okdesc="%s: %s %s" % (short(g.name), fld, "= nullptr" if isnull else "created"))
    # doConnect: requested ⇒ session carries SSL
    for name, reqfield, want, ctxfield, side in (("doConnect", "ConnectReq::tls", "Client", "_sslCli", "cli"), ("onListener", "Listener::tls", "Server", "_sslSrv", "srv")):
        f = fn(ctx, name)
        vocab = Vocab(["req", "en", "ctx", "stls"])

        def leaf(n, reqfield=reqfield, want=want, ctxfield=ctxfield, side=side):
            if n.get("k") == "bin" and n["op"] in ("==", "!="):
                l, rr = strip_casts(n["lhs"]), strip_casts(n["rhs"])
                if l.get("k") == "member" and l["n"].endswith(reqfield) and rr.get("k") == "enum" and last(rr["n"]) == want:
                    return A("req") if n["op"] == "==" else Not(A("req"))
            if n.get("k") == "member" and n["n"] == TE + "::" + ctxfield:
                return A("ctx")
            fm = cfg_leaf(n)
            if fm is not None and fm == A(side + "_en"):
                return A("en")
            return cbset_leaf(n)

        def eff(e, want=want):
            if e.kind == "stmt" and e.node.get("k") == "bin" and e.node["op"] == "=" and field_of(e.node["lhs"]) == SESS + "::tlsMode":
                v = strip_casts(e.node["rhs"])
                return [("set", "stls", v.get("k") == "enum" and last(v["n"]) == want)]
            if e.kind == "stmt" and e.node.get("k") == "call" and e.node.get("callee") == "std::make_unique" and "Session" in e.node.get("t", ""):
                return [("set", "stls", False)]
            return None
        axiom = Or(Not(A("ctx")), A("en"))
        init = And(axiom, Not(A("stls")))
        if name == "onListener":
            # a TLS listener exists only if the server context existed when it was added (checked below in doAddListener);
            # the context is freed only after all listeners are closed (shutdownDrain order, C05)
            init = And(init, Or(Not(A("req")), A("ctx")))
        pa = PredAbs(f, vocab, leaf, eff, init=init)
        ins = common.member_calls_on(f, TE + "::_sessions", ("emplace", "insert", "try_emplace"))
        if not ins:
            raise AnalysisBroken("%s no longer inserts sessions" % name)
        for e in ins:
            r.instance()
            r.expect(pa.entails(e, Or(Not(A("req")), A("stls"))), f, e, "TLS requested, plaintext session",
                     "%s inserts a session without TLS on a path where TLS was requested (%s == %s): application data would travel in clear text with no error (known: %s)" % (
                         name, reqfield, want, ",".join(pa.describe(e))), okdesc="%s: TLS requested ⇒ session carries an SSL object" % name)
    # the OTHER TLS mode is a request for TLS as well (TlsMode has three values): an outgoing connection asked to play the server
    # role / a listener asked to play the client role is refused — the insertion is never reached with that mode
    for name, reqfield, other, coll in (("doConnect", "ConnectReq::tls", "Server", "_sessions"), ("doAddListener", "ListenerCfg::tls", "Client", "_listeners")):
        f = fn(ctx, name)

        def leafo(n, reqfield=reqfield, other=other):
            if n.get("k") == "bin" and n["op"] in ("==", "!="):
                l, rr = strip_casts(n["lhs"]), strip_casts(n["rhs"])
                if l.get("k") == "member" and l["n"].endswith(reqfield) and rr.get("k") == "enum":
                    if last(rr["n"]) == other:
                        return A("other") if n["op"] == "==" else Not(A("other"))
                    # tls == <another enumerator> true ⇒ not the `other` one
                    return ("implies_not_other", n["op"] == "==")
            return None

        def leafo2(n):
            x = leafo(n)
            if isinstance(x, tuple) and x and x[0] == "implies_not_other":
                return None
            return x
        pao = PredAbs(f, Vocab(["other"]), leafo2, lambda e: None)
        sites = common.member_calls_on(f, TE + "::" + coll, ("emplace", "insert", "try_emplace"))
        if not sites:
            raise AnalysisBroken("%s: insertion into %s not found" % (name, coll))
        for e in sites:
            r.instance()
            r.expect(pao.entails(e, Not(A("other"))), f, e, "TLS requested with the wrong role, served in clear text", "%s reaches its insertion with %s == TlsMode::%s possible: that mode is a request for TLS too, but only the "
                     "matching role is handled, so a PLAINTEXT %s is created and announced — application bytes cross the wire in the clear with no error" % (name, reqfield, other, "session" if coll == "_sessions" else "listener"),
                     okdesc="%s: TlsMode::%s refused before the insertion" % (name, other))
    dal = fn(ctx, "doAddListener")
    vocab = Vocab(["req", "ctx"])

    def leafl(n):
        if n.get("k") == "bin" and n["op"] in ("==", "!="):
            l, rr = strip_casts(n["lhs"]), strip_casts(n["rhs"])
            if l.get("k") == "member" and l["n"].endswith("ListenerCfg::tls") and rr.get("k") == "enum" and last(rr["n"]) == "Server":
                return A("req") if n["op"] == "==" else Not(A("req"))
        if n.get("k") == "member" and n["n"] == TE + "::_sslSrv":
            return A("ctx")
        return None
    pal = PredAbs(dal, vocab, leafl, lambda e: None)
    for e in common.member_calls_on(dal, TE + "::_listeners", ("emplace", "insert")):
        r.instance()
        r.expect(pal.entails(e, Or(Not(A("req")), A("ctx"))), dal, e, "TLS listener without context", "a listener with TlsMode::Server is created although no server TLS context exists: its "
                 "connections would be accepted as plaintext", okdesc="doAddListener: TLS listener only with a server context")


def r6(ctx, r):
    c01.r5(ctx, r)


def r7(ctx, r):
    fb = ctx.fb()
    dc = fn(ctx, "doConnect")
    news = [e for (e, nm) in ssl_calls(dc, ("SSL_new",)) if field_of(e.node["args"][0]) == TE + "::_sslCli"]
    if not news:
        raise AnalysisBroken("doConnect no longer creates client SSL objects")
    names = ssl_calls(dc, ("SSL_set1_host", "X509_VERIFY_PARAM_set1_host", "X509_VERIFY_PARAM_set1_ip_asc", "X509_VERIFY_PARAM_set1_ip", "SSL_add1_host"))
    starts = [e for (e, nm) in ssl_calls(dc, ("SSL_set_connect_state", "SSL_connect", "SSL_do_handshake"))]
    for e in news:
        r.instance()
        ok = bool(names) and bool(starts) and all(search(dc, e, lambda x, s=s: x is s, stop=lambda x: x in [y for (y, _) in names], eh=False) is None for s in starts)
        r.expect(ok, dc, e, "no peer-name check", "the client SSL object gets no expected peer name (SSL_set1_host / X509_VERIFY_PARAM_set1_host|ip) before the handshake starts: with verifyPeer on, "
                 "a certificate issued for ANY name that chains to the trust store is accepted for this host", okdesc="doConnect: peer name set before SSL_set_connect_state")
    # the HTTP client hands the engine the URL's host name, not a pre-resolved address
    ac = fb.func(HC + "::acquireConnection", file_suffix=HCFILE)
    cs = [e for e in ac.stmts() if e.node.get("k") == "mcall" and last(e.node.get("callee", "")) == "connectSync"]
    if not cs:
        raise AnalysisBroken("HttpClient::acquireConnection no longer calls connectSync")
    for e in cs:
        r.instance()
        a0 = strip_wrappers(e.node["args"][0])
        ishost = last((access_path(a0) or ("",))[-1]) == "host"
        r.expect(ishost, ac, e, "connects by resolved address", "HttpClient connects to `%s` (a pre-resolved address), so even an engine-level name check would compare the certificate with an IP literal "
                 "instead of the URL's host name" % show(a0), okdesc="HttpClient: connectSync(parsedUrl.host, …)")


def r8(ctx, r):
    fb = ctx.fb()
    rec = fb.record(HC + "::TlsConfig")
    ei = fb.func(HC + "::ensureInitialized", file_suffix=HCFILE)
    used = {last(n["n"]) for n in ei.nodes.values() if n.get("k") == "member" and n["n"].startswith(HC + "::TlsConfig::")}
    if not rec["fields"]:
        raise AnalysisBroken("HttpClient::TlsConfig has no fields")
    for fld in rec["fields"]:
        r.instance()
        r.expect(fld["n"] in used, ei, None, "TlsConfig::%s ignored" % fld["n"], "HttpClient::TlsConfig::%s is never read where the transport's client TLS configuration is built: the %s the caller configured "
                 "is silently ignored" % (fld["n"], {"caFile": "trust anchor", "clientCertFile": "client certificate", "clientKeyFile": "client key"}.get(fld["n"], "setting")),
                 okdesc="TlsConfig::%s forwarded to clientTls" % fld["n"])


PU = HC + "::ParsedUrl"


def r9(ctx, r):
    """The TLS mode of a connection is a function of some URL fields (today: scheme).  A connection taken from the client's
    cache is handed to a request only if those fields took part in selecting it: either they are part of the cache key, or the
    cached return is dominated by an equality between what the entry stores and the request's value (and the entry stores it)."""
    from ..finite import dominating_facts
    fb = ctx.fb()
    memo = {}

    def fields_of_accessor(name):
        if name in memo:
            return memo[name]
        memo[name] = set()
        out = set()
        for g in fb.funcs(name, HCFILE):
            for n in g.nodes.values():
                if n.get("k") == "member" and n["n"].startswith(PU + "::"):
                    out.add(last(n["n"]))
                if n.get("k") == "mcall" and n.get("callee", "").startswith(PU + "::") and n["callee"] != name:
                    out |= fields_of_accessor(n["callee"])
        memo[name] = out
        return out

    def inits_of(f):
        d = {}
        for e in f.stmts():
            if e.node.get("k") == "decl":
                for v in e.node["vars"]:
                    if v.get("init") is not None:
                        d[v["d"]] = v["init"]
        return d

    def url_fields(f, node, inits, seen=frozenset()):
        out = set()
        for n in walk(node):
            k = n.get("k")
            if k == "member" and n["n"].startswith(PU + "::"):
                out.add(last(n["n"]))
            elif k == "mcall" and n.get("callee", "").startswith(PU + "::"):
                out |= fields_of_accessor(n["callee"])
            elif k == "var" and n.get("d") in inits and n["d"] not in seen:
                out |= url_fields(f, inits[n["d"]], inits, seen | {n["d"]})
        return out

    def direct_fields(f, node, inits, seen=frozenset()):
        """like url_fields, but a value that went through any other call (connectSync's result …) is not a copy of the field"""
        node = strip_casts(strip_wrappers(node))
        if node is None:
            return set()
        k = node.get("k")
        if k == "member" and node["n"].startswith(PU + "::"):
            return {last(node["n"])}
        if k == "mcall" and node.get("callee", "").startswith(PU + "::"):
            return fields_of_accessor(node["callee"])
        if k == "var" and node.get("d") in inits and node["d"] not in seen:
            return direct_fields(f, inits[node["d"]], inits, seen | {node["d"]})
        if k in ("bin", "un", "cond", "cast", "paren"):
            out = set()
            for key in ("lhs", "rhs", "v", "c", "t", "f"):
                if isinstance(node.get(key), dict):
                    out |= direct_fields(f, node[key], inits, seen)
            return out
        return set()

    def from_cache(node, inits, seen=frozenset()):
        for n in walk(node):
            if n.get("k") == "member" and n["n"] == HC + "::_connections":
                return True
            if n.get("k") == "var" and n.get("d") in inits and n["d"] not in seen and from_cache(inits[n["d"]], inits, seen | {n["d"]}):
                return True
        return False

    def lookup_key(node, inits, seen=frozenset()):
        """argument expressions of the _connections lookups the value comes from"""
        keys = []
        for n in walk(node):
            if n.get("k") in ("mcall", "opcall") and any(x.get("k") == "member" and x["n"] == HC + "::_connections" for x in walk(n.get("obj") or (n.get("args") or [{}])[0])):
                args = n.get("args", [])
                if n.get("k") == "opcall":
                    args = args[1:]
                if last(n.get("callee", "")) in ("find", "at", "operator[]", "count", "equal_range"):
                    keys.extend(args)
            if n.get("k") == "var" and n.get("d") in inits and n["d"] not in seen:
                keys.extend(lookup_key(inits[n["d"]], inits, seen | {n["d"]}))
        return keys

    hc = [g for g in fb.methods_of(HC) if g.ok]
    # (a) where the TLS mode of a new connection is chosen
    tls_fields = set()
    nsites = 0
    for f in hc:
        inits = inits_of(f)
        for n in f.nodes.values():
            if n.get("k") == "mcall" and last(n.get("callee", "")) in ("connectSync", "connect") and "Transport" in n.get("cls", ""):
                for a in n.get("args", []):
                    if "TlsMode" in (a.get("t") or ""):
                        ff = url_fields(f, a, inits)
                        if ff:
                            nsites += 1
                            tls_fields |= ff
    if not nsites:
        raise AnalysisBroken("HttpClient: no connect site whose TLS mode is derived from the URL")
    # (b) every return of a cached session id
    nret = 0
    for f in hc:
        inits = inits_of(f)
        for e in f.stmts():
            n = e.node
            if n.get("k") != "ret" or n.get("v") is None or not from_cache(n["v"], inits):
                continue
            vt = (strip_casts(n["v"]) or {}).get("t") or ""
            if "SessionId" not in vt and vt != "unsigned long":
                continue
            nret += 1
            r.instance()
            keyf = set()
            entry_fields = set()
            npub = [0]
            for kx in lookup_key(n["v"], inits):
                keyf |= url_fields(f, kx, inits)
            condf = set()
            for (c, t) in dominating_facts(f, e):
                if not from_cache(c, inits):
                    continue
                cf = url_fields(f, c, inits) & tls_fields
                if not cf:
                    continue
                c0 = strip_casts(c)
                shape_ok = False
                if c0.get("k") in ("bin", "opcall") and c0.get("op") in ("==", "!="):
                    lhs, rhs = (c0.get("lhs"), c0.get("rhs")) if c0.get("k") == "bin" else (c0["args"][0], c0["args"][1])
                    sides = [(from_cache(x, inits), bool(url_fields(f, x, inits) & tls_fields)) for x in (lhs, rhs)]
                    if sorted(sides) == [(False, True), (True, False)]:
                        shape_ok = True
                        if (c0.get("op") == "==") == t:
                            condf |= cf
                            for x in (lhs, rhs):
                                for y in walk(x):
                                    if y.get("k") == "member" and y["n"].startswith(HC + "::ConnectionEntry::"):
                                        entry_fields.add(last(y["n"]))
                if not shape_ok:
                    raise AnalysisBroken("%s:%d: a test relates the cached entry to %s in a form this rule does not know: %s" % (short(f.name), e.line, sorted(cf), show(c)[:80]))
            missing = tls_fields - keyf - condf
            ok = not missing
            if ok and (tls_fields - keyf):
                # the proof rests on what the entry stores: every store into the cache must record it in that field
                rec = fb.record(HC + "::ConnectionEntry")
                order = [x["n"] for x in rec["fields"]]
                for g in hc:
                    gi = inits_of(g)
                    for x in g.stmts():
                        xn = x.node
                        if not (xn.get("k") == "opcall" and xn.get("op") == "=" and "ConnectionEntry" in (xn.get("t") or "")
                                and any(y.get("k") == "member" and y["n"] == HC + "::_connections" for y in walk(xn["args"][0]))):
                            continue
                        npub[0] += 1
                        v = strip_casts(strip_wrappers(xn["args"][1]))
                        while v is not None and v.get("k") in ("cast", "ctor") and v.get("k") != "ilist":
                            inner = v.get("v") or (v.get("args") or [None])[0]
                            if inner is None:
                                break
                            v = strip_casts(inner)
                        if v is None or v.get("k") != "ilist":
                            raise AnalysisBroken("%s:%d: store into the connection cache is not an aggregate initialiser (%s)" % (short(g.name), x.line, show(xn)[:80]))
                        for fld in sorted(entry_fields):
                            idx = order.index(fld) if fld in order else -1
                            val = v["vals"][idx] if 0 <= idx < len(v["vals"]) else None
                            got = direct_fields(g, val, gi) if val is not None else set()
                            r.expect((tls_fields - keyf) <= got, g, x, "cache entry does not record the TLS mode", "reuse compares ConnectionEntry::%s with the request's %s, but this store into the cache "
                                     "does not record it there (%s): the comparison tests a default value" % (fld, "/".join(sorted(tls_fields - keyf)), "field left to its default" if val is None else show(val)[:60]),
                                     okdesc="entry records %s in ::%s" % (sorted(tls_fields - keyf), fld))
                if not npub[0]:
                    raise AnalysisBroken("HttpClient: no store into the connection cache found")
            r.expect(ok, f, e, "cached connection reused across TLS modes", "a connection taken from the cache is returned although the URL field(s) %s that decide the TLS mode of a new connection (%s) took no part in "
                     "selecting it (cache key reads %s; no dominating equality between the entry and the request): an https:// request is written in clear text over a connection cached by an earlier http:// request to the same "
                     "host:port (and vice versa)" % (sorted(missing), "isHttps() ? Client : None", sorted(keyf) or "nothing"),
                     okdesc="cached connection selected by %s" % sorted(tls_fields))
    if not nret:
        raise AnalysisBroken("HttpClient: no return of a cached session id found (connection cache gone?)")


HS = "iora::network::HttpServer"
HSFILE = "iora/network/http_server.hpp"


def r10(ctx, r):
    """HttpServer: once TLS was enabled it stays enabled (the configuration is written only by enableTls), a server with a TLS
    configuration listens with TlsMode::Server, and every field of the configuration reaches the transport's serverTls."""
    fb = ctx.fb()
    fld = HS + "::_tlsConfig"
    nw = 0
    for g in fb.functions:
        if not g.ok or not g.file.endswith(HSFILE):
            continue
        for (e, n, k) in common.field_writes(g, fld):
            nw += 1
            r.instance()
            owner = g.enclosing.name if g.kind == "lambda" and g.enclosing is not None else g.name
            r.expect(owner == HS + "::enableTls", g, e, "TLS configuration dropped", "%s writes HttpServer::_tlsConfig (`%s`): after it the next start() derives a plain-text listener without client-certificate "
                     "check from has_value()==false although the application enabled TLS" % (short(g.name), show(fb_stmt(g, e))[:60]), okdesc="_tlsConfig written by enableTls only")
    if nw < 1:
        raise AnalysisBroken("HttpServer::_tlsConfig: no write found (enableTls gone?)")
    st = fb.func(HS + "::start", file_suffix=HSFILE)
    # listener mode
    lis = [e for e in st.stmts() if e.node.get("k") == "mcall" and last(e.node.get("callee", "")) == "addListener"]
    if not lis:
        raise AnalysisBroken("HttpServer::start: addListener call not found")
    inits = {}
    for e in st.stmts():
        if e.node.get("k") == "decl":
            for dv in e.node["vars"]:
                if dv.get("init") is not None:
                    inits[dv["d"]] = dv["init"]
    for e in lis:
        r.instance()
        arg = next((a for a in e.node["args"] if "TlsMode" in (a.get("t") or "")), None)
        if arg is None:
            r.fail(st, e, "listener without TLS mode", "addListener is called without a TLS mode argument: the listener takes the transport default")
            continue
        v = strip_casts(arg)
        if v.get("k") == "var" and v.get("d") in inits:
            v = strip_casts(inits[v["d"]])
        ok = False
        if v.get("k") == "cond":
            c = strip_casts(v["c"])
            has = c.get("k") == "mcall" and last(c.get("callee", "")) in ("has_value", "operator bool") and field_of(c.get("obj")) == fld
            t, f_ = strip_casts(v["t"]), strip_casts(v["f"])
            if not has or t.get("k") != "enum":
                raise AnalysisBroken("HttpServer::start: listener TLS mode `%s` is a conditional this rule does not know" % show(v)[:70])
            ok = t["n"].endswith("TlsMode::Server")
        elif v.get("k") == "enum":
            ok = v["n"].endswith("TlsMode::Server")
        else:
            raise AnalysisBroken("HttpServer::start: listener TLS mode `%s` is computed in a form this rule does not know" % show(v)[:70])
        r.expect(ok, st, e, "listener mode not derived from the TLS configuration", "the listener's TLS mode is `%s`: with a TLS configuration present the listener must be TlsMode::Server" % show(v)[:70],
                 okdesc="listener mode = _tlsConfig.has_value() ? Server : None")
    # every field forwarded, inside the has_value() branch, with enabled = true and defaultMode = Server
    rec = fb.record(HS + "::TlsConfig")
    used = {last(n["n"]) for n in st.nodes.values() if n.get("k") == "member" and n["n"].startswith(HS + "::TlsConfig::")}
    for f_ in rec["fields"]:
        r.instance()
        r.expect(f_["n"] in used, st, None, "server TlsConfig::%s ignored" % f_["n"], "HttpServer::TlsConfig::%s is never read where the transport's server TLS configuration is built" % f_["n"],
                 okdesc="TlsConfig::%s forwarded to serverTls" % f_["n"])
    en = [(e, n) for (e, n, k) in common.field_writes(st, "iora::network::TransportConfig::TlsConfig::enabled")]
    r.instance()
    r.expect(any(const_value(common.assigned_value(st, n) or {}) == 1 for (e, n) in en), st, None, "serverTls.enabled not set", "start() does not set serverTls.enabled = true when TLS is configured",
             okdesc="serverTls.enabled = true")
    vp = [(e, n) for (e, n, k) in common.field_writes(st, "iora::network::TransportConfig::TlsConfig::verifyPeer")]
    r.instance()
    r.expect(any("requireClientCert" in show(common.assigned_value(st, n) or {}) for (e, n) in vp), st, None, "client-certificate requirement not forwarded",
             "serverTls.verifyPeer is not taken from TlsConfig::requireClientCert", okdesc="serverTls.verifyPeer = requireClientCert")


def fb_stmt(g, e):
    return e.node


def r11(ctx, r):
    """'a session requested with TLS never carries application bytes in clear text', at the HTTP client: a URL is 'requested with
    TLS' when its scheme is https.  The URL grammar (a regex) decides which scheme spellings are ACCEPTED, isHttps() decides
    which are CLASSIFIED as TLS; every accepted spelling of https must be classified as TLS."""
    import re as _re
    fb = ctx.fb()
    rec = fb.record(HC + "::CompiledRegexes")
    url = [f_ for f_ in rec["fields"] if f_["n"] == "url"]
    if not url or not url[0].get("init"):
        raise AnalysisBroken("HttpClient::CompiledRegexes::url initialiser not found")
    init = url[0]["init"]
    pats = [x for x in walk(init) if x.get("k") == "str"]
    if len(pats) != 1:
        raise AnalysisBroken("url regex: pattern literal not found")
    pat = pats[0]["v"]
    m = _re.match(r"^\^\(([^()]*)\)", pat)
    if not m:
        raise AnalysisBroken("url regex does not start with a scheme group: %s" % pat[:30])
    scheme_re = m.group(1)
    flags = 0
    args = init.get("args", [])
    if len(args) > 1:
        fv = const_value(args[1])
        if fv is None:
            # an or-expression of option constants
            vals = [x.get("cv") for x in walk(args[1]) if x.get("cv") is not None]
            if not vals:
                raise AnalysisBroken("url regex: option flags not constant")
            fv = 0
            for v in vals:
                fv |= v
        flags = fv
    icase = bool(flags & 1)          # std::regex_constants::icase == 1 << 0 (libstdc++)
    # spellings the scheme group accepts: only the simple forms are enumerated, anything else is refused
    if scheme_re == "https?":
        accepted = {"http", "https"}
    elif _re.fullmatch(r"[a-z|]+", scheme_re):
        accepted = set(scheme_re.split("|"))
    else:
        raise AnalysisBroken("url regex: scheme group `%s` is not an enumeration this rule can expand" % scheme_re)
    ih = fb.func(PU + "::isHttps", file_suffix=HCFILE)
    rets = common.returns(ih)
    lit = None
    if len(rets) == 1:
        v = strip_casts(rets[0].node.get("v") or {})
        cp = common.cmp_parts(v)
        if cp and cp[0] == "==":
            ss = [x for x in (strip_casts(cp[1]), strip_casts(cp[2])) if x.get("k") == "str"]
            ms = [x for x in (strip_casts(cp[1]), strip_casts(cp[2])) if x.get("k") == "member" and x["n"] == PU + "::scheme"]
            if len(ss) == 1 and len(ms) == 1:
                lit = ss[0]["v"]
    if lit is None:
        raise AnalysisBroken("ParsedUrl::isHttps is not `scheme == \"literal\"`")
    # does parseUrl normalise the case of the scheme before storing it?
    pu = fb.func(HC + "::parseUrl", file_suffix=HCFILE)
    folds = any(x.get("k") in ("call", "mcall") and last(x.get("callee", "")) in ("tolower", "transform", "toLower", "to_lower") for x in pu.nodes.values())
    r.instance()
    r.expect(lit in accepted, ih, rets[0], "https never recognised", "isHttps() compares with \"%s\", which the URL grammar (%s) never produces" % (lit, scheme_re), okdesc="isHttps literal is an accepted scheme")
    r.instance()
    r.expect(not icase or folds, ih, rets[0], "accepted https spelling classified as plain text",
             "the URL regex is compiled with std::regex::icase, so `HTTPS://…`, `Https://…` are accepted, but isHttps() compares the scheme with \"%s\" exactly and parseUrl does not fold its case: such a URL is "
             "connected with TlsMode::None (port 80 by default) and the request — headers, credentials, body — goes out in clear text" % lit,
             okdesc="scheme matched case-sensitively (only `%s` are accepted) and compared exactly" % "`, `".join(sorted(accepted)))


def run(ctx, ck):
    r1 = ck.rule("C07-R1", "peer verification is switched on when configured and never lowered", "A10 API protocol + A5")
    r2 = ck.rule("C07-R2", "TLS 1.2 floor on every context", "A10 + A5")
    try:
        r1_r2(ctx, r1, r2)
    except AnalysisBroken as ex:
        r1.broken = str(ex)
        ck.broken.append("C07-R1/R2: %s" % ex)
    ck.run_rule("C07-R3", "certificate/key/CA load results are checked; expired certificate fails start", "A2", lambda r: r3(ctx, r))
    ck.run_rule("C07-R4", "announce only after the handshake; failing handshakes close", "A5", lambda r: r4(ctx, r))
    ck.run_rule("C07-R5", "a TLS request is honoured or refused, never dropped", "A5 with checked invariants", lambda r: r5(ctx, r))
    ck.run_rule("C07-R6", "no clear-text application bytes on a TLS session (= C01-R5)", "A5", lambda r: r6(ctx, r))
    ck.run_rule("C07-R7", "the peer's name is checked", "A10 + dataflow", lambda r: r7(ctx, r))
    ck.run_rule("C07-R8", "the HTTP client forwards its TLS configuration", "A10 closed set", lambda r: r8(ctx, r))
    ck.run_rule("C07-R10", "HTTP server: TLS configuration is never dropped, selects a TLS listener and is forwarded whole", "A3 who-may-write + A10 closed set", lambda r: r10(ctx, r))
    ck.run_rule("C07-R11", "every URL scheme spelling the HTTP client accepts as https is connected with TLS", "table agreement: URL grammar vs. isHttps()", lambda r: r11(ctx, r))
    ck.run_rule("C07-R9", "a cached client connection is reused only for the TLS mode it was opened with", "dataflow: URL fields deciding the TLS mode vs. fields selecting the cached entry", lambda r: r9(ctx, r))
